"""Schema part of the translator: every struct/enum deriving MlsSize/MlsEncode/MlsDecode in the listed crates
(and the harness' own test types) becomes a `MlsVerif.Codec.Schema` term, when all its field types resolve to
generic codec nodes.  Hand-written codecs are NOT guessed: a type depending on one is reported as unresolved
(with the reason) in gen_manifest.json and left out."""
import os, re

FEATURES = {"std", "rayon", "rfc_compliant", "private_message", "custom_proposal", "out_of_order", "psk", "x509",
            "prior_epoch", "by_ref_proposal", "tree_index", "fast_serialize", "verif", "external_client"}

ROOTS = ["mls-rs/src", "mls-rs-core/src", "mls-rs-crypto-hpke/src"]
HARNESS_TYPES = "/verif/harness/src/c12types.rs"

PRIM = {"u8": ".u 1", "u16": ".u 2", "u32": ".u 4", "u64": ".u 8", "u128": ".u 16", "bool": ".bool", "String": ".str",
        "VarInt": ".varint"}
# wrappers that encode as their content
TRANSPARENT = {"Box", "Zeroizing", "Cow", "Arc", "Rc"}
MAPS = {"HashMap", "BTreeMap", "LargeMap", "SmallMap"}
# types with a hand-written codec (never approximated)
HANDWRITTEN = {"Credential", "Proposal", "PublicMessage", "PrivateMessageContent", "FramedContentAuthData",
               "AuthenticatedContent", "AuthenticatedContentTBS", "CommitEffect", "SecretKeyRatchet", "ProposalInfo",
               "LeafNodeTBS", "CustomProposal", "TreeIndex"}
# derive layout on the wire, but the hand-written decoder rejects more (leaf index > 2^24-1, duplicate extension types):
# generated with their derive layout and flagged `refined` (exact for encoding and for decoding valid values)
REFINED = {"LeafIndex", "ExtensionList"}


def strip_comments(src):
    src = re.sub(r"/\*.*?\*/", "", src, flags=re.S)
    return "\n".join(re.sub(r'(?<![:"])//.*', "", l) for l in src.splitlines())


def cfg_eval(expr):
    expr = expr.strip()
    m = re.fullmatch(r'feature\s*=\s*"([^"]+)"', expr)
    if m:
        return m.group(1) in FEATURES
    for kw in ("all", "any", "not"):
        if expr.startswith(kw + "("):
            inner = expr[len(kw) + 1:-1]
            parts, depth, cur = [], 0, ""
            for ch in inner:
                if ch == "," and depth == 0:
                    parts.append(cur)
                    cur = ""
                else:
                    depth += ch == "("
                    depth -= ch == ")"
                    cur += ch
            if cur.strip():
                parts.append(cur)
            vals = [cfg_eval(p) for p in parts]
            return all(vals) if kw == "all" else any(vals) if kw == "any" else not vals[0]
    if expr in ("test", "mls_build_async", "docsrs"):
        return False
    if expr.startswith("target_"):
        return False
    return False


def attrs_enabled(attr_text):
    for m in re.finditer(r"#\[cfg\((.*?)\)\]\s*(?=#|\w|$)", attr_text, flags=re.S):
        if not cfg_eval(m.group(1)):
            return False
    return True


def split_top(s, sep=","):
    parts, depth, cur = [], 0, ""
    for ch in s:
        if ch in "<([{":
            depth += 1
        elif ch in ">)]}":
            depth -= 1
        if ch == sep and depth == 0:
            parts.append(cur)
            cur = ""
        else:
            cur += ch
    if cur.strip():
        parts.append(cur)
    return parts


class Items:
    def __init__(self):
        self.items = {}      # name -> dict(kind, generics, fields/variants, file)
        self.aliases = {}
        self.consts = {}

    def scan(self, path, rel):
        src = strip_comments(open(path).read())
        for m in re.finditer(r"\btype\s+(\w+)\s*=\s*([^;]+);", src):
            self.aliases.setdefault(m.group(1), m.group(2).strip())
        for m in re.finditer(r"\bconst\s+(\w+)\s*:\s*usize\s*=\s*(\d+)\s*;", src):
            self.consts.setdefault(m.group(1), int(m.group(2)))
        # items with a derive of the codec traits
        for m in re.finditer(r"((?:#\[[^\]]*\]\s*)+)(?:pub(?:\([a-z]+\))?\s+)?(struct|enum)\s+(\w+)\s*(<[^>{(]*>)?\s*([({])", src, flags=re.S):
            attrs, kind, name, generics, opener = m.groups()
            if not re.search(r"derive\([^)]*Mls(Size|Encode|Decode)", attrs):
                continue
            if not attrs_enabled(attrs):
                continue
            i = m.end()
            depth, k = 1, i
            close = "}" if opener == "{" else ")"
            while depth:
                c = src[k]
                depth += c == opener
                depth -= c == close
                k += 1
            body = src[i:k - 1]
            gen = [g.split(":")[0].strip() for g in split_top(generics[1:-1])] if generics else []
            gen = [g for g in gen if g and not g.startswith("'")]
            repr_m = re.search(r"repr\((u\d+)\)", attrs)
            self.items[name] = {"kind": kind, "generics": gen, "body": body, "tuple": opener == "(", "file": rel,
                                "repr": repr_m.group(1) if repr_m else None}


def parse_fields(body, tuple_struct):
    fields = []
    for part in split_top(body):
        part = part.strip()
        if not part:
            continue
        attrs = "".join(re.findall(r"#\[[^\]]*\]", part, flags=re.S))
        rest = re.sub(r"#\[[^\]]*\]", "", part, flags=re.S).strip()
        if not attrs_enabled(attrs):
            continue
        with_m = re.search(r'mls_codec\(with\s*=\s*"([^"]+)"\)', attrs)
        if tuple_struct:
            ty = re.sub(r"^pub(\([a-z]+\))?\s+", "", rest)
            fields.append((None, ty.strip(), with_m.group(1) if with_m else None))
        else:
            mm = re.match(r"(?:pub(?:\([a-z]+\))?\s+)?(\w+)\s*:\s*(.+)$", rest, flags=re.S)
            if mm:
                fields.append((mm.group(1), " ".join(mm.group(2).split()), with_m.group(1) if with_m else None))
    return fields


def parse_variants(body):
    out = []
    for part in split_top(body):
        part = part.strip()
        if not part:
            continue
        attrs = "".join(re.findall(r"#\[[^\]]*\]", part, flags=re.S))
        rest = re.sub(r"#\[[^\]]*\]", "", part, flags=re.S).strip()
        if not attrs_enabled(attrs):
            continue
        mm = re.match(r"(\w+)\s*(\((.*)\))?\s*=\s*(0x[0-9a-fA-F]+|\d+)\s*(u\d+)?$", rest, flags=re.S)
        if not mm:
            return None
        name, _, payload, disc, suffix = mm.groups()
        with_m = re.search(r'mls_codec\(with\s*=\s*"([^"]+)"\)', part)
        out.append((name, payload.strip() if payload else None, int(disc, 0), suffix, with_m.group(1) if with_m else None))
    return out


class Resolver:
    def __init__(self, items):
        self.it = items
        self.done = {}       # key (name with args) -> lean expr or ("unresolved", reason)
        self.order = []
        self.refined = set()

    def ty(self, t, env, with_=None):
        """Lean Schema expression for Rust type text `t`; raises KeyError(reason) if not resolvable."""
        t = t.strip()
        t = re.sub(r"^&\s*('\w+\s+)?(mut\s+)?", "", t)
        if with_ == "mls_rs_codec::byte_vec":
            return ".bytes"
        if t in env:
            return env[t]
        m = re.fullmatch(r"\[\s*u8\s*;\s*(\w+)\s*\]", t)
        if m:
            n = m.group(1)
            if not n.isdigit():
                if n not in self.it.consts:
                    raise KeyError(f"unknown array length {n}")
                n = str(self.it.consts[n])
            return f".fixed {n}"
        if t in ("[u8]", "Vec<u8>"):
            return ".bytes"
        if t in PRIM:
            return PRIM[t]
        m = re.fullmatch(r"([\w:]+)\s*<(.*)>", t, flags=re.S)
        if m:
            head = m.group(1).split("::")[-1]
            args = [a.strip() for a in split_top(m.group(2)) if not a.strip().startswith("'")]
            if head == "Vec":
                return f".vec ({self.ty(args[0], env)})"
            if head == "Option":
                return f".opt ({self.ty(args[0], env)})"
            if head in TRANSPARENT:
                return self.ty(args[-1], env)
            if head in MAPS:
                return f".map ({self.ty(args[0], env)}) ({self.ty(args[1], env)})"
            if head in self.it.items:
                return self.item(head, [self.ty(a, env) for a in args])
            raise KeyError(f"unknown generic type {t}")
        head = t.split("::")[-1]
        if head in HANDWRITTEN:
            raise KeyError(f"hand-written codec {head}")
        if head in self.it.aliases and head not in self.it.items:
            return self.ty(self.it.aliases[head], env)
        if head in self.it.items:
            return self.item(head, [])
        raise KeyError(f"unknown type {t}")

    def item(self, name, args):
        key = name + ("<" + ",".join(args) + ">" if args else "")
        if key in self.done:
            r = self.done[key]
            if isinstance(r, tuple):
                raise KeyError(r[1])
            return r
        it = self.it.items[name]
        if name in HANDWRITTEN:
            self.done[key] = ("unresolved", f"hand-written codec {name}")
            raise KeyError(f"hand-written codec {name}")
        env = dict(zip(it["generics"], args))
        self.done[key] = ("unresolved", "recursive")
        try:
            if it["kind"] == "struct":
                fs = parse_fields(it["body"], it["tuple"])
                expr = ".struct [" + ", ".join(self.ty(ty, env, w) for (_, ty, w) in fs) + "]"
            else:
                vs = parse_variants(it["body"])
                if vs is None:
                    raise KeyError("enum variant without explicit discriminant")
                width = None
                cases = []
                for (vn, payload, disc, suffix, w) in vs:
                    wd = suffix or it["repr"]
                    if not wd:
                        raise KeyError("enum without repr")
                    width = {"u8": 1, "u16": 2, "u32": 4, "u64": 8}[wd]
                    if payload is None:
                        cases.append(f"({disc}, none)")
                    else:
                        ps = split_top(payload)
                        if len(ps) != 1:
                            raise KeyError("enum variant with more than one field")
                        pt = re.sub(r"#\[[^\]]*\]", "", ps[0]).strip()
                        cases.append(f"({disc}, some ({self.ty(pt, env, w)}))")
                expr = f".enum {width} [" + ", ".join(cases) + "]"
        except KeyError as e:
            self.done[key] = ("unresolved", str(e).strip("'\""))
            raise
        lean_name = "T_" + re.sub(r"\W", "_", key)
        self.done[key] = lean_name
        refined = name in REFINED or any(re.search(r"\b" + re.escape(ln) + r"\b", expr) for ln in self.refined)
        if refined:
            self.refined.add(lean_name)
        self.order.append((lean_name, key, expr, it["file"]))
        return lean_name


def generate(repo, manifest):
    items = Items()
    for root in ROOTS:
        for dp, _, fns in os.walk(os.path.join(repo, root)):
            for fn in sorted(fns):
                if fn.endswith(".rs") and "test" not in fn:
                    items.scan(os.path.join(dp, fn), os.path.relpath(os.path.join(dp, fn), repo))
    if os.path.exists(HARNESS_TYPES):
        items.scan(HARNESS_TYPES, "harness/c12types.rs")
    res = Resolver(items)
    unresolved = {}
    for name, it in sorted(items.items.items()):
        if it["generics"]:
            continue      # generic items are instantiated at their use sites
        try:
            res.item(name, [])
        except KeyError as e:
            unresolved[name] = str(e).strip("'\"")
    out = ["/- GENERATED by tools/translate.py (translate_schemas.py) from the Rust sources; do not edit.",
           "   One `Schema` per item deriving MlsSize/MlsEncode/MlsDecode whose fields resolve to generic codec nodes.",
           "   Items depending on a hand-written codec are not approximated (see gen_manifest.json `schemas_unresolved`). -/",
           "import MlsVerif.Model.Codec", "namespace MlsVerif.Gen.Schemas", "open MlsVerif.Codec", ""]
    for lean_name, key, expr, f in res.order:
        out.append(f"/-- `{key}` ({f}) -/")
        out.append(f"def {lean_name} : Schema := {expr}")
    out.append("")
    out.append("def table : List (String × Schema) := [")
    out.append(",\n".join(f'  ("{key}", {ln})' for (ln, key, _, _) in res.order))
    out.append("]")
    out.append("def schemas : List Schema := table.map (·.2)")
    out.append("/-- the schemas of items of the repository (everything but the harness' test types) -/")
    out.append("def repoSchemas : List Schema := [" + ", ".join(ln for (ln, _, _, f) in res.order if not f.startswith("harness/")) + "]")
    out.append("/-- the harness' test types (harness/src/c12types.rs): one per codec building block -/")
    out.append("def harnessSchemas : List Schema := [" + ", ".join(ln for (ln, _, _, f) in res.order if f.startswith("harness/")) + "]")
    out.append("end MlsVerif.Gen.Schemas")
    out.insert(-1, "/-- indices (into `table`) of the schemas that contain a node whose Rust decoder is stricter than the derive layout -/")
    out.insert(-1, "def refinedIdx : List Nat := [" + ", ".join(str(i) for i, (ln, _, _, _) in enumerate(res.order) if ln in res.refined) + "]")
    # fully expanded text form for the harness' structured input generator (one line per schema)
    expanded = {}
    for lean_name, key, expr, f in res.order:
        expanded[lean_name] = re.sub(r"\bT_\w+", lambda m: expanded[m.group(0)], expr)
    manifest["_schemas_txt"] = "".join(f"{key}\t{1 if ln in res.refined else 0}\t{expanded[ln]}\n" for (ln, key, _, _) in res.order)
    manifest["schemas"] = [{"name": key, "file": f, "refined": ln in res.refined} for (ln, key, _, f) in res.order]
    manifest["schemas_unresolved"] = unresolved
    return "\n".join(out) + "\n"
