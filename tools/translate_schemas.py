"""Schema part of the translator: every struct/enum deriving MlsSize/MlsEncode/MlsDecode in the listed crates
(and the harness' own test types) becomes a `MlsVerif.Codec.Schema` term, when all its field types resolve to
generic codec nodes.  Hand-written codecs are NOT guessed: a type depending on one is reported as unresolved
(with the reason) in gen_manifest.json and left out of Gen/Schemas.lean.

Second pass (`CodecResolver`, Gen/Codecs.lean): every item that does not resolve to a plain `Schema`, or whose schema
contains a refined decoder (LeafIndex, ExtensionList), becomes a codec expression `S_<Name> : CSpec`
(lean/MlsVerif/Model/CodecSpec.lean) built from the derive layout (`seq`, `tagged`, `vec`, `opt`, `mapOf`, `ofSchema`)
and, for the types with a hand-written codec, from the hand model of Model/CodecCustom.lean applied to the component
codecs found in the Rust item.  A hand model is used only if the Rust item has exactly the shape the model was written
for (variant / field lists under the enabled features); the schemas hard-wired in the hand models are tied to the
generated ones by `rfl` theorems emitted into Gen/Codecs.lean."""
import os, re

FEATURES = {"std", "rayon", "rfc_compliant", "private_message", "custom_proposal", "out_of_order", "psk", "x509",
            "prior_epoch", "by_ref_proposal", "tree_index", "fast_serialize", "verif", "external_client"}

ROOTS = ["mls-rs/src", "mls-rs-core/src", "mls-rs-crypto-hpke/src"]
HARNESS_TYPES = "/verif/harness/src/c12types.rs"

PRIM = {"u8": ".u 1", "u16": ".u 2", "u32": ".u 4", "u64": ".u 8", "u128": ".u 16", "bool": ".bool", "String": ".str",
        "VarInt": ".varint"}
# wrappers that encode as their content
TRANSPARENT = {"Box", "Zeroizing", "Cow", "Arc", "Rc"}
MAPS = {"HashMap", "BTreeMap", "LargeMap", "SmallMap"}
# types with a hand-written codec (never approximated)
HANDWRITTEN = {"Credential", "Proposal", "PublicMessage", "PrivateMessageContent", "FramedContentAuthData",
               "AuthenticatedContent", "AuthenticatedContentTBS", "CommitEffect", "SecretKeyRatchet", "ProposalInfo",
               "LeafNodeTBS", "CustomProposal", "TreeIndex"}
# derive layout on the wire, but the hand-written decoder rejects more (leaf index > 2^24-1, duplicate extension types):
# generated with their derive layout and flagged `refined` (exact for encoding and for decoding valid values)
REFINED = {"LeafIndex", "ExtensionList"}


def strip_comments(src):
    src = re.sub(r"/\*.*?\*/", "", src, flags=re.S)
    return "\n".join(re.sub(r'(?<![:"])//.*', "", l) for l in src.splitlines())


def cfg_eval(expr):
    expr = expr.strip()
    m = re.fullmatch(r'feature\s*=\s*"([^"]+)"', expr)
    if m:
        return m.group(1) in FEATURES
    for kw in ("all", "any", "not"):
        if expr.startswith(kw + "("):
            inner = expr[len(kw) + 1:-1]
            parts, depth, cur = [], 0, ""
            for ch in inner:
                if ch == "," and depth == 0:
                    parts.append(cur)
                    cur = ""
                else:
                    depth += ch == "("
                    depth -= ch == ")"
                    cur += ch
            if cur.strip():
                parts.append(cur)
            vals = [cfg_eval(p) for p in parts]
            return all(vals) if kw == "all" else any(vals) if kw == "any" else not vals[0]
    if expr in ("test", "mls_build_async", "docsrs"):
        return False
    if expr.startswith("target_"):
        return False
    return False


def attrs_enabled(attr_text):
    for m in re.finditer(r"#\[cfg\((.*?)\)\]\s*(?=#|\w|$)", attr_text, flags=re.S):
        if not cfg_eval(m.group(1)):
            return False
    return True


def split_top(s, sep=","):
    parts, depth, cur = [], 0, ""
    for ch in s:
        if ch in "<([{":
            depth += 1
        elif ch in ">)]}":
            depth -= 1
        if ch == sep and depth == 0:
            parts.append(cur)
            cur = ""
        else:
            cur += ch
    if cur.strip():
        parts.append(cur)
    return parts


class Items:
    def __init__(self):
        self.items = {}      # name -> dict(kind, generics, fields/variants, file)
        self.raw = {}        # every struct/enum carrying attributes (derived or not): shapes of the hand-written types
        self.shadowed = {}   # module-qualified name -> derived item hidden by a later item of the same name
        self.aliases = {}
        self.consts = {}

    def scan(self, path, rel):
        src = strip_comments(open(path).read())
        for m in re.finditer(r"\btype\s+(\w+)\s*=\s*([^;]+);", src):
            self.aliases.setdefault(m.group(1), m.group(2).strip())
        for m in re.finditer(r"\bconst\s+(\w+)\s*:\s*usize\s*=\s*(\d+)\s*;", src):
            self.consts.setdefault(m.group(1), int(m.group(2)))
        # items with a derive of the codec traits
        for m in re.finditer(r"((?:#\[[^\]]*\]\s*)+)(?:pub(?:\([a-z]+\))?\s+)?(struct|enum)\s+(\w+)\s*(<[^>{(]*>)?\s*([({])", src, flags=re.S):
            attrs, kind, name, generics, opener = m.groups()
            derived = re.search(r"derive\([^)]*Mls(Size|Encode|Decode)", attrs) is not None
            if not attrs_enabled(attrs):
                continue
            i = m.end()
            depth, k = 1, i
            close = "}" if opener == "{" else ")"
            while depth:
                c = src[k]
                depth += c == opener
                depth -= c == close
                k += 1
            body = src[i:k - 1]
            gen = [g.split(":")[0].strip() for g in split_top(generics[1:-1])] if generics else []
            gen = [g for g in gen if g and not g.startswith("'")]
            repr_m = re.search(r"repr\((u\d+)\)", attrs)
            rec = {"kind": kind, "generics": gen, "body": body, "tuple": opener == "(", "file": rel,
                   "repr": repr_m.group(1) if repr_m else None,
                   "derives": set(re.findall(r"\bMls(?:Size|Encode|Decode)\b", " ".join(re.findall(r"derive\(([^)]*)\)", attrs))))}
            self.raw.setdefault(name, rec)
            if derived:
                # two items of the same name (message_processor::CachedProposal / proposal_cache::CachedProposal): a bare
                # name refers to the last one scanned (first pass, unchanged); the shadowed one is kept under its
                # module-qualified name for the second pass
                prev = self.items.get(name)
                if prev is not None and (prev["body"] != body or prev["file"] != rel):
                    stem = os.path.splitext(os.path.basename(prev["file"]))[0]
                    q = (os.path.basename(os.path.dirname(prev["file"])) if stem == "mod" else stem) + "::" + name
                    self.shadowed[q] = prev
                    self.raw[q] = prev
                self.items[name] = rec
                self.raw[name] = rec


def parse_fields(body, tuple_struct):
    fields = []
    for part in split_top(body):
        part = part.strip()
        if not part:
            continue
        attrs = "".join(re.findall(r"#\[[^\]]*\]", part, flags=re.S))
        rest = re.sub(r"#\[[^\]]*\]", "", part, flags=re.S).strip()
        if not attrs_enabled(attrs):
            continue
        with_m = re.search(r'mls_codec\(with\s*=\s*"([^"]+)"\)', attrs)
        if tuple_struct:
            ty = re.sub(r"^pub(\([a-z]+\))?\s+", "", rest)
            fields.append((None, ty.strip(), with_m.group(1) if with_m else None))
        else:
            mm = re.match(r"(?:pub(?:\([a-z]+\))?\s+)?(\w+)\s*:\s*(.+)$", rest, flags=re.S)
            if mm:
                fields.append((mm.group(1), " ".join(mm.group(2).split()), with_m.group(1) if with_m else None))
    return fields


def parse_variants(body):
    out = []
    for part in split_top(body):
        part = part.strip()
        if not part:
            continue
        attrs = "".join(re.findall(r"#\[[^\]]*\]", part, flags=re.S))
        rest = re.sub(r"#\[[^\]]*\]", "", part, flags=re.S).strip()
        if not attrs_enabled(attrs):
            continue
        mm = re.match(r"(\w+)\s*(\((.*)\))?\s*=\s*(0x[0-9a-fA-F]+|\d+)\s*(u\d+)?$", rest, flags=re.S)
        if not mm:
            return None
        name, _, payload, disc, suffix = mm.groups()
        with_m = re.search(r'mls_codec\(with\s*=\s*"([^"]+)"\)', part)
        out.append((name, payload.strip() if payload else None, int(disc, 0), suffix, with_m.group(1) if with_m else None))
    return out


class Resolver:
    def __init__(self, items):
        self.it = items
        self.done = {}       # key (name with args) -> lean expr or ("unresolved", reason)
        self.order = []
        self.refined = set()

    def ty(self, t, env, with_=None):
        """Lean Schema expression for Rust type text `t`; raises KeyError(reason) if not resolvable."""
        t = t.strip()
        t = re.sub(r"^&\s*('\w+\s+)?(mut\s+)?", "", t)
        if with_ == "mls_rs_codec::byte_vec":
            return ".bytes"
        if t in env:
            return env[t]
        m = re.fullmatch(r"\[\s*u8\s*;\s*(\w+)\s*\]", t)
        if m:
            n = m.group(1)
            if not n.isdigit():
                if n not in self.it.consts:
                    raise KeyError(f"unknown array length {n}")
                n = str(self.it.consts[n])
            return f".fixed {n}"
        if t in ("[u8]", "Vec<u8>"):
            return ".bytes"
        if t in PRIM:
            return PRIM[t]
        if t.startswith("(") and t.endswith(")"):      # `(T, U)` (mls-rs-codec/src/tuple.rs): the fields in order
            return ".struct [" + ", ".join(self.ty(a, env) for a in split_top(t[1:-1])) + "]"
        m = re.fullmatch(r"([\w:]+)\s*<(.*)>", t, flags=re.S)
        if m:
            head = m.group(1).split("::")[-1]
            args = [a.strip() for a in split_top(m.group(2)) if not a.strip().startswith("'")]
            if head == "Vec":
                return f".vec ({self.ty(args[0], env)})"
            if head == "Option":
                return f".opt ({self.ty(args[0], env)})"
            if head in TRANSPARENT:
                return self.ty(args[-1], env)
            if head in MAPS:
                return f".map ({self.ty(args[0], env)}) ({self.ty(args[1], env)})"
            if head in self.it.items:
                return self.item(head, [self.ty(a, env) for a in args])
            raise KeyError(f"unknown generic type {t}")
        head = t.split("::")[-1]
        if head in HANDWRITTEN:
            raise KeyError(f"hand-written codec {head}")
        if head in self.it.aliases and head not in self.it.items:
            return self.ty(self.it.aliases[head], env)
        if head in self.it.items:
            return self.item(head, [])
        raise KeyError(f"unknown type {t}")

    def item(self, name, args):
        key = name + ("<" + ",".join(args) + ">" if args else "")
        if key in self.done:
            r = self.done[key]
            if isinstance(r, tuple):
                raise KeyError(r[1])
            return r
        it = self.it.items[name]
        if name in HANDWRITTEN:
            self.done[key] = ("unresolved", f"hand-written codec {name}")
            raise KeyError(f"hand-written codec {name}")
        env = dict(zip(it["generics"], args))
        self.done[key] = ("unresolved", "recursive")
        try:
            if it["kind"] == "struct":
                fs = parse_fields(it["body"], it["tuple"])
                expr = ".struct [" + ", ".join(self.ty(ty, env, w) for (_, ty, w) in fs) + "]"
            else:
                vs = parse_variants(it["body"])
                if vs is None:
                    raise KeyError("enum variant without explicit discriminant")
                width = None
                cases = []
                for (vn, payload, disc, suffix, w) in vs:
                    wd = suffix or it["repr"]
                    if not wd:
                        raise KeyError("enum without repr")
                    width = {"u8": 1, "u16": 2, "u32": 4, "u64": 8}[wd]
                    if payload is None:
                        cases.append(f"({disc}, none)")
                    else:
                        ps = split_top(payload)
                        if len(ps) != 1:
                            raise KeyError("enum variant with more than one field")
                        pt = re.sub(r"#\[[^\]]*\]", "", ps[0]).strip()
                        cases.append(f"({disc}, some ({self.ty(pt, env, w)}))")
                expr = f".enum {width} [" + ", ".join(cases) + "]"
        except KeyError as e:
            self.done[key] = ("unresolved", str(e).strip("'\""))
            raise
        lean_name = "T_" + re.sub(r"\W", "_", key)
        self.done[key] = lean_name
        refined = name in REFINED or any(re.search(r"\b" + re.escape(ln) + r"\b", expr) for ln in self.refined)
        if refined:
            self.refined.add(lean_name)
        self.order.append((lean_name, key, expr, it["file"]))
        return lean_name


# ------------------------------------------------------------------------------------------------------------
# second pass: codec expressions (`CSpec`, lean/MlsVerif/Model/CodecSpec.lean) for what is not a plain schema


def parse_raw_variants(body):
    """Variants of an enum WITHOUT explicit discriminants (the hand-written codecs): (name, kind, payload) with
    kind unit | tuple (payload: list of types) | struct (payload: list of (field, type)); cfg-filtered."""
    out = []
    for part in split_top(body):
        part = part.strip()
        if not part:
            continue
        attrs = "".join(re.findall(r"#\[[^\]]*\]", part, flags=re.S))
        rest = re.sub(r"#\[[^\]]*\]", "", part, flags=re.S).strip()
        if not attrs_enabled(attrs):
            continue
        rest = re.sub(r"\s*=\s*(0x[0-9a-fA-F]+|\d+)\s*(u\d+)?$", "", rest)
        mm = re.fullmatch(r"(\w+)\s*(?:\((.*)\)|\{(.*)\})?", rest, flags=re.S)
        if not mm:
            raise KeyError(f"cannot parse variant `{' '.join(rest.split())}`")
        name, tup, st = mm.groups()
        if tup is not None:
            out.append((name, "tuple", [" ".join(x.split()) for x in split_top(tup)]))
        elif st is not None:
            out.append((name, "struct", [(f, ty) for (f, ty, _) in parse_fields(st, False)]))
        else:
            out.append((name, "unit", []))
    return out


def par(x):
    return x if re.fullmatch(r"[\w.]+", x) else "(" + x + ")"


def norm_ty(t):
    t = " ".join(t.split())
    t = re.sub(r"^&\s*('\w+\s+)?(mut\s+)?", "", t)
    return t


# hand-written codecs that need context the caller supplies (content type, presence of the group context), or that
# only exist inside another hand-written codec, or that are never decoded: no codec of their own
NO_OWN_CODEC = {
    "FramedContentAuthData": "decoder takes the content type as an argument; reached through PublicMessage / AuthenticatedContent",
    "PrivateMessageContent": "decoder takes the content type of the enclosing PrivateMessage as an argument (model: privateMessageContent)",
    "AuthenticatedContentTBS": "encode-only (signature input; model: authenticatedContentTBS)",
    "LeafNodeTBS": "encode-only (signature input)",
    "CustomProposal": "no codec of its own: written by Proposal as proposal type + opaque bytes",
}


class CodecResolver:
    """CSpec expressions.  `self.res` is the schema resolver (first pass), asked first for every type: a type that is a
    plain schema without refined decoder inside stays `.ofSchema T_X`."""

    def __init__(self, items, res):
        self.it, self.res = items, res
        self.done = {}       # key -> lean name S_… | ("unresolved", reason)
        self.order = []      # (lean name, key, expr, file, canon, how)
        self.canon = {}      # lean name -> bool
        self.ties = {}       # theorem name -> (statement, doc), insertion-ordered
        self._sc = {}

    # ---- helpers on first-pass results
    def schema_expr_of(self):
        return {ln: expr for (ln, _, expr, _) in self.res.order}

    def schema_refined(self, expr):
        return any(re.search(r"\b" + re.escape(ln) + r"\b", expr) for ln in self.res.refined)

    def schema_canon(self, expr):
        """`Canon`: neither bool nor map inside"""
        if re.search(r"\.bool\b|\.map\b", expr):
            return False
        exprs = self.schema_expr_of()
        for n in set(re.findall(r"\bT_\w+", expr)):
            if n not in self._sc:
                self._sc[n] = self.schema_canon(exprs[n])
            if not self._sc[n]:
                return False
        return True

    def pure(self, t, env, with_=None):
        """schema expression of `t` if it is a plain schema without refined decoder inside, else None"""
        senv = {k: v["s"] for k, v in env.items() if v["s"] is not None}
        if any(re.search(r"\b" + re.escape(k) + r"\b", t) for k, v in env.items() if v["s"] is None):
            return None
        try:
            e = self.res.ty(t, senv, with_)
        except KeyError:
            return None
        return None if self.schema_refined(e) else e

    def tie(self, name, stmt, doc):
        self.ties.setdefault(name, (stmt, doc))

    def need_schema(self, ty_name, what):
        ln = self.res.done.get(ty_name)
        if not isinstance(ln, str):
            raise KeyError(f"hand model `{what}` does not fit: {ty_name} is not a plain schema")
        return ln

    # ---- types
    def cty(self, t, env, with_=None):
        """(CSpec expression, canonical?) of Rust type text `t`; KeyError(reason) if it cannot be built"""
        t = norm_ty(t)
        if with_ == "mls_rs_codec::byte_vec":
            return ".ofSchema .bytes", True
        if t in env:
            return env[t]["c"]
        e = self.pure(t, env, with_)
        if e is not None:
            return ".ofSchema " + par(e), self.schema_canon(e)
        if t.startswith("(") and t.endswith(")"):
            parts = [self.cty(a, env) for a in split_top(t[1:-1])]
            return ".seq [" + ", ".join(x for x, _ in parts) + "]", all(c for _, c in parts)
        m = re.fullmatch(r"([\w:]+)\s*<(.*)>", t, flags=re.S)
        if m:
            head = m.group(1).split("::")[-1]
            args = [a.strip() for a in split_top(m.group(2)) if not a.strip().startswith("'")]
            if head == "Vec":
                x, c = self.cty(args[0], env)
                return ".vec " + par(x), c
            if head == "Option":
                x, c = self.cty(args[0], env)
                return ".opt " + par(x), c
            if head in TRANSPARENT:
                return self.cty(args[-1], env)
            if head in MAPS:
                k = self.pure(args[0], env)
                if k is None:
                    raise KeyError(f"map key {args[0]} is not a plain schema")
                x, _ = self.cty(args[1], env)
                return ".mapOf " + par(k) + " " + par(x), False
            if head in self.it.raw:
                return self.item(head, args, env)
            raise KeyError(f"unknown generic type {t}")
        head = t.split("::")[-1]
        if head in self.it.aliases and head not in self.it.raw:
            return self.cty(self.it.aliases[head], env)
        if head in self.it.raw:
            return self.item(head, [], env)
        raise KeyError(f"unknown type {t}")

    def item(self, name, args, env):
        if name == "LeafIndex":
            return self.hand_leaf_index()
        if name == "ExtensionList":
            return self.hand_extension_list()
        # generic parameters of the enclosing item are replaced by what they stand for (`TreeSecretsVec<T>` inside
        # `SecretTree<NodeIndex>` is `TreeSecretsVec<NodeIndex>`)
        def subst(a):
            a = norm_ty(a)
            for g, v in env.items():
                a = re.sub(r"\b" + re.escape(g) + r"\b", v["txt"], a)
            return a
        key = name + ("<" + ",".join(subst(a) for a in args) + ">" if args else "")
        if key in self.done:
            r = self.done[key]
            if isinstance(r, tuple):
                raise KeyError(r[1])
            return r, self.canon[r]
        it = self.it.raw[name]
        self.done[key] = ("unresolved", "recursive type")
        try:
            sub = {}
            for g, a in zip(it["generics"], args):
                sub[g] = {"c": self.cty(a, env), "s": self.pure(a, env), "txt": subst(a)}
            builder = getattr(self, "hand_" + name, None)
            if builder is not None:
                expr, canon, how = builder(it, args, sub) + ("hand model",)
            elif name in NO_OWN_CODEC:
                raise KeyError(f"hand-written codec {name}: {NO_OWN_CODEC[name]}")
            elif "MlsDecode" not in it["derives"]:
                if it["derives"]:
                    raise KeyError("encode-only (derives " + "/".join(sorted(it["derives"])) + ", no decoder)")
                raise KeyError(f"hand-written codec {name} without hand model")
            else:
                expr, canon, how = self.derived(it, sub) + ("derive",)
        except KeyError as e:
            self.done[key] = ("unresolved", str(e).strip("'\""))
            raise
        lean_name = "S_" + re.sub(r"\W", "_", key)
        self.done[key] = lean_name
        self.canon[lean_name] = canon
        self.order.append((lean_name, key, expr, it["file"], canon, how))
        return lean_name, canon

    def derived(self, it, env):
        if it["kind"] == "struct":
            fs = [self.cty(ty, env, w) for (_, ty, w) in parse_fields(it["body"], it["tuple"])]
            return ".seq [" + ", ".join(x for x, _ in fs) + "]", all(c for _, c in fs)
        vs = parse_variants(it["body"])
        if vs is None:
            raise KeyError("enum variant without explicit discriminant")
        width, cases, canon = None, [], True
        for (vn, payload, disc, suffix, w) in vs:
            wd = suffix or it["repr"]
            if not wd:
                raise KeyError("enum without repr")
            width = {"u8": 1, "u16": 2, "u32": 4, "u64": 8}[wd]
            if payload is None:
                cases.append(f"({disc}, none)")
            else:
                ps = split_top(payload)
                if len(ps) != 1:
                    raise KeyError("enum variant with more than one field")
                pt = re.sub(r"#\[[^\]]*\]", "", ps[0]).strip()
                x, c = self.cty(pt, env, w)
                canon = canon and c
                cases.append(f"({disc}, some {par(x)})")
        return f".tagged {width} [" + ", ".join(cases) + "]", canon

    # ---- hand models (Model/CodecCustom.lean): used only when the Rust item has the shape they were written for
    def fields_of(self, name):
        it = self.it.raw[name]
        return [(f, norm_ty(ty), w) for (f, ty, w) in parse_fields(it["body"], it["tuple"])]

    def expect(self, what, got, want):
        if got != want:
            raise KeyError(f"hand model `{what}` does not fit the Rust item: found {got}, modelled {want}")

    def hand_leaf_index(self):
        self.expect("leafIndex", [(f, ty) for (f, ty, _) in self.fields_of("LeafIndex")], [(None, "u32")])
        return ".leafIndex", True

    def hand_extension_list(self):
        self.expect("extensionList", [(f, ty) for (f, ty, _) in self.fields_of("ExtensionList")], [(None, "Vec<Extension>")])
        self.tie("tie_extension", f"{self.need_schema('Extension', 'extensionList')} = extensionSchema",
                 "`extensionList` decodes its elements with `extensionSchema`")
        return ".extensionList", True

    def hand_Credential(self, it, args, env):
        vs = parse_raw_variants(it["body"])
        self.expect("credential", [(n, k) for (n, k, _) in vs], [("Basic", "tuple"), ("X509", "tuple"), ("Custom", "tuple")])
        self.expect("credential", vs[2][2], ["CustomCredential"])
        self.expect("credential", [(f, ty) for (f, ty, _) in self.fields_of("CustomCredential")],
                    [("credential_type", "CredentialType"), ("data", "Vec<u8>")])
        self.tie("tie_credentialType", f"{self.need_schema('CredentialType', 'credential')} = u16Schema",
                 "`credential`: two-byte discriminant = `CredentialType(u16)`")
        (b, c1), (x, c2) = self.cty(vs[0][2][0], {}), self.cty(vs[1][2][0], {})
        return f".credential {par(b)} {par(x)}", c1 and c2

    def hand_Proposal(self, it, args, env):
        vs = parse_raw_variants(it["body"])
        self.expect("proposal", [(n, k) for (n, k, _) in vs],
                    [(n, "tuple") for n in ("Add", "Update", "Remove", "Psk", "ReInit", "ExternalInit", "GroupContextExtensions", "Custom")])
        self.expect("proposal", [norm_ty(vs[6][2][0]), norm_ty(vs[7][2][0])], ["ExtensionList", "CustomProposal"])
        self.expect("proposal", [(f, ty) for (f, ty, _) in self.fields_of("CustomProposal")],
                    [("proposal_type", "ProposalType"), ("data", "Vec<u8>")])
        self.hand_extension_list()
        self.tie("tie_proposalType", f"{self.need_schema('ProposalType', 'proposal')} = u16Schema",
                 "`proposal`: two-byte discriminant = `ProposalType(u16)`")
        parts = [self.cty(v[2][0], {}) for v in vs[:6]]
        return ".proposal " + " ".join(par(x) for x, _ in parts), all(c for _, c in parts)

    def framed_content(self, what):
        """checks shared by `publicMessage` and `authenticatedContent`; returns the spec of `Content`"""
        self.expect(what, self.fields_of("FramedContent"),
                    [("group_id", "Vec<u8>", "mls_rs_codec::byte_vec"), ("epoch", "u64", None), ("sender", "Sender", None),
                     ("authenticated_data", "Vec<u8>", "mls_rs_codec::byte_vec"), ("content", "Content", None)])
        self.expect(what, [(f, ty) for (f, ty, _) in self.fields_of("FramedContentAuthData")],
                    [("signature", "MessageSignature"), ("confirmation_tag", "Option<ConfirmationTag>")])
        # `fcIsCommit` / `fcSenderIsMember` look at these discriminants
        cv = {n: d for (n, _, d, _, _) in parse_variants(self.it.raw["Content"]["body"])}
        sv = {n: d for (n, _, d, _, _) in parse_variants(self.it.raw["Sender"]["body"])}
        self.expect(what, (cv.get("Commit"), sv.get("Member")), (3, 1))
        fc, _ = self.cty("FramedContent", {})
        content, canon = self.cty("Content", {})
        self.tie("tie_framedContent", f"denote {fc} = framedContent (denote {content})",
                 "the hand model `framedContent` (inside `publicMessage` / `authenticatedContent`) is the derive layout of `FramedContent`")
        self.tie("tie_sender", f"{self.need_schema('Sender', what)} = senderSchema", "`framedContent`, `proposalInfo`")
        for n in ("MessageSignature", "ConfirmationTag"):
            self.tie("tie_" + n, f"ofSchema {self.need_schema(n, what)} = bytesNewtype", "`framedContentAuthData`")
        return content, canon

    def hand_PublicMessage(self, it, args, env):
        self.expect("publicMessage", [(f, ty) for (f, ty, _) in self.fields_of("PublicMessage")],
                    [("content", "FramedContent"), ("auth", "FramedContentAuthData"), ("membership_tag", "Option<MembershipTag>")])
        content, canon = self.framed_content("publicMessage")
        self.tie("tie_MembershipTag", f"ofSchema {self.need_schema('MembershipTag', 'publicMessage')} = bytesNewtype", "`publicMessage`")
        return f".publicMessage {par(content)}", canon

    def hand_AuthenticatedContent(self, it, args, env):
        self.expect("authenticatedContent", [(f, ty) for (f, ty, _) in self.fields_of("AuthenticatedContent")],
                    [("wire_format", "WireFormat"), ("content", "FramedContent"), ("auth", "FramedContentAuthData")])
        content, canon = self.framed_content("authenticatedContent")
        self.tie("tie_wireFormat", f"{self.need_schema('WireFormat', 'authenticatedContent')} = wireFormatSchema", "`authenticatedContent`")
        return f".authenticatedContent {par(content)}", canon

    def hand_ProposalInfo(self, it, args, env):
        self.expect("proposalInfo", [(f, ty) for (f, ty, _) in self.fields_of("ProposalInfo")],
                    [("proposal", "T"), ("sender", "Sender"), ("source", "ProposalSource")])
        self.tie("tie_sender", f"{self.need_schema('Sender', 'proposalInfo')} = senderSchema", "`framedContent`, `proposalInfo`")
        self.tie("tie_proposalSource", f"{self.need_schema('ProposalSource', 'proposalInfo')} = proposalSourceSchema", "`proposalInfo`")
        x, c = env["T"]["c"]
        return f".proposalInfo {par(x)}", c

    def hand_CommitEffect(self, it, args, env):
        vs = parse_raw_variants(it["body"])
        self.expect("commitEffect", [(n, k) for (n, k, _) in vs], [("NewEpoch", "tuple"), ("Removed", "struct"), ("ReInit", "tuple")])
        ne, c1 = self.cty(vs[0][2][0], {})
        self.expect("commitEffect", [f for (f, _) in vs[1][2]], ["new_epoch", "remover"])
        self.expect("commitEffect", (self.cty(vs[1][2][0][1], {})[0], norm_ty(vs[1][2][1][1])), (ne, "Sender"))
        self.tie("tie_sender", f"{self.need_schema('Sender', 'commitEffect')} = senderSchema", "`framedContent`, `proposalInfo`")
        ri, c2 = self.cty(vs[2][2][0], {})
        return f".commitEffect {par(ne)} {par(ri)}", c1 and c2

    def hand_SecretKeyRatchet(self, it, args, env):
        self.expect("secretKeyRatchet", [(f, ty) for (f, ty, _) in self.fields_of("SecretKeyRatchet")],
                    [("secret", "TreeSecret"), ("generation", "u32"), ("history", "LargeMap<u32, MessageKeyData>")])
        self.tie("tie_treeSecret", f"{self.need_schema('TreeSecret', 'secretKeyRatchet')} = .struct [.bytes]",
                 "`secretKeyRatchet` writes the secret with `byte_vec`, as the derive of `TreeSecret` does")
        self.tie("tie_messageKeyData", f"{self.need_schema('MessageKeyData', 'secretKeyRatchet')} = messageKeyDataSchema", "`ratchetHistory`")
        return ".secretKeyRatchet", False


def generate_codecs(items, res, manifest):
    cr = CodecResolver(items, res)
    unresolved = {}
    schema_names = {key for (_, key, _, _) in res.order}
    for name, it in sorted(items.raw.items()):
        if it["generics"] or it["file"].startswith("harness/"):
            continue
        if name not in items.items and name not in HANDWRITTEN and name not in REFINED:
            continue      # no codec at all
        if name in REFINED:
            continue      # `leafIndex` / `extensionList` themselves: the driver's custom table
        if name in schema_names and res.done[name] not in res.refined:
            continue      # plain schema, first pass
        try:
            cr.item(name, [], {})
        except KeyError as e:
            unresolved[name] = str(e).strip("'\"")
    for q in sorted(items.shadowed):
        try:
            cr.item(q, [], {})
        except KeyError as e:
            unresolved[q] = str(e).strip("'\"")
    # the `content` hand model is not used by the generated codecs (`Content` is a derived enum), but the framing
    # hand models look inside its values: tie it as well
    if isinstance(cr.done.get("Content"), str) and isinstance(cr.done.get("Proposal"), str) and isinstance(cr.done.get("Commit"), str):
        try:
            app = cr.need_schema("ApplicationData", "content")
            cr.tie("tie_content", f"denote S_Content = content (ofSchema {app}) (denote S_Proposal) (denote S_Commit)",
                   "the hand model `content` is the derive layout of `Content`")
        except KeyError:
            pass
    out = ["/- GENERATED by tools/translate.py (translate_schemas.py, second pass) from the Rust sources; do not edit.",
           "   One codec expression `S_<Name> : CSpec` (Model/CodecSpec.lean) and its codec `C_<Name> := denote S_<Name>` per item",
           "   deriving or implementing MlsDecode that is not a plain `Schema`, or whose schema contains a refined decoder",
           "   (LeafIndex, ExtensionList: here with their exact hand models).  `derive`: layout of the derive macro over the",
           "   component codecs; `hand model`: the model of the hand-written impl in Model/CodecCustom.lean, applied to the",
           "   components found in the Rust item.  What cannot be built is listed in gen_manifest.json `codecs_unresolved`. -/",
           "import MlsVerif.Model.CodecSpec", "import MlsVerif.Gen.Schemas", "namespace MlsVerif.Gen.Codecs",
           "open MlsVerif.Codec MlsVerif.Codec.Codec MlsVerif.Gen.Schemas", ""]
    for ln, key, expr, f, canon, how in cr.order:
        out.append(f"/-- `{key}` ({f}; {how}; {'WIRE' if canon else 'STATE'}) -/")
        out.append(f"def {ln} : CSpec := {expr}")
        out.append(f"def C_{ln[2:]} : Codec := denote {ln}")
    out.append("")
    out.append("def specTable : List (String × CSpec) := [")
    out.append(",\n".join(f'  ("{key}", {ln})' for (ln, key, _, _, _, _) in cr.order))
    out.append("]")
    out.append("def codecTable : List (String × Codec) := [")
    out.append(",\n".join(f'  ("{key}", C_{ln[2:]})' for (ln, key, _, _, _, _) in cr.order))
    out.append("]")
    out.append("/-- the WIRE (`true`) / STATE (`false`) flags of Gen/codecs.txt, in table order; `Props.C12GenCodecs.wire_flags` -/")
    out.append("def wireFlags : List Bool := [" + ", ".join("true" if c else "false" for (_, _, _, _, c, _) in cr.order) + "]")
    out.append("theorem codecTable_eq : codecTable = specTable.map (fun p => (p.1, denote p.2)) := rfl")
    out.append("")
    out.append("/-! ## Ties of the hand models to the generated layouts: what is hard-wired in Model/CodecCustom.lean is what the")
    out.append("translator found in the Rust items (a change of the Rust item makes the `rfl` fail). -/")
    for tn, (stmt, doc) in cr.ties.items():
        out.append(f"/-- {doc} -/")
        out.append(f"theorem {tn} : {stmt} := rfl")
    out.append("end MlsVerif.Gen.Codecs")
    manifest["_codecs_txt"] = "".join(f"{key}\t{'WIRE' if c else 'STATE'}\t{'schema+refined' if key in schema_names else 'new'}\t{how}\n"
                                      for (_, key, _, _, c, how) in cr.order)
    manifest["codecs"] = [{"name": key, "file": f, "wire": c, "how": how, "also_schema": key in schema_names}
                          for (_, key, _, f, c, how) in cr.order]
    manifest["codecs_unresolved"] = unresolved
    return "\n".join(out) + "\n"


def generate(repo, manifest):
    items = Items()
    for root in ROOTS:
        for dp, _, fns in os.walk(os.path.join(repo, root)):
            for fn in sorted(fns):
                if fn.endswith(".rs") and "test" not in fn:
                    items.scan(os.path.join(dp, fn), os.path.relpath(os.path.join(dp, fn), repo))
    if os.path.exists(HARNESS_TYPES):
        items.scan(HARNESS_TYPES, "harness/c12types.rs")
    res = Resolver(items)
    unresolved = {}
    for name, it in sorted(items.items.items()):
        if it["generics"]:
            continue      # generic items are instantiated at their use sites
        try:
            res.item(name, [])
        except KeyError as e:
            unresolved[name] = str(e).strip("'\"")
    # second pass first: it may instantiate further generic items as plain schemas (appended to res.order)
    manifest["_codecs_lean"] = generate_codecs(items, res, manifest)
    out = ["/- GENERATED by tools/translate.py (translate_schemas.py) from the Rust sources; do not edit.",
           "   One `Schema` per item deriving MlsSize/MlsEncode/MlsDecode whose fields resolve to generic codec nodes.",
           "   Items depending on a hand-written codec are not approximated (see gen_manifest.json `schemas_unresolved`). -/",
           "import MlsVerif.Model.Codec", "namespace MlsVerif.Gen.Schemas", "open MlsVerif.Codec", ""]
    for lean_name, key, expr, f in res.order:
        out.append(f"/-- `{key}` ({f}) -/")
        out.append(f"def {lean_name} : Schema := {expr}")
    out.append("")
    out.append("def table : List (String × Schema) := [")
    out.append(",\n".join(f'  ("{key}", {ln})' for (ln, key, _, _) in res.order))
    out.append("]")
    out.append("def schemas : List Schema := table.map (·.2)")
    out.append("/-- the schemas of items of the repository (everything but the harness' test types) -/")
    out.append("def repoSchemas : List Schema := [" + ", ".join(ln for (ln, _, _, f) in res.order if not f.startswith("harness/")) + "]")
    out.append("/-- the harness' test types (harness/src/c12types.rs): one per codec building block -/")
    out.append("def harnessSchemas : List Schema := [" + ", ".join(ln for (ln, _, _, f) in res.order if f.startswith("harness/")) + "]")
    out.append("end MlsVerif.Gen.Schemas")
    out.insert(-1, "/-- indices (into `table`) of the schemas that contain a node whose Rust decoder is stricter than the derive layout -/")
    out.insert(-1, "def refinedIdx : List Nat := [" + ", ".join(str(i) for i, (ln, _, _, _) in enumerate(res.order) if ln in res.refined) + "]")
    # fully expanded text form for the harness' structured input generator (one line per schema)
    expanded = {}
    for lean_name, key, expr, f in res.order:
        expanded[lean_name] = re.sub(r"\bT_\w+", lambda m: expanded[m.group(0)], expr)
    manifest["_schemas_txt"] = "".join(f"{key}\t{1 if ln in res.refined else 0}\t{expanded[ln]}\n" for (ln, key, _, _) in res.order)
    manifest["schemas"] = [{"name": key, "file": f, "refined": ln in res.refined} for (ln, key, _, f) in res.order]
    manifest["schemas_unresolved"] = unresolved
    return "\n".join(out) + "\n"
