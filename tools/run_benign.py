#!/usr/bin/env python3
"""False-alarm measurement: apply each behaviour-preserving refactor of /verif/seeded/benign/<k>/patch.diff to /repo, run ALL
quick checks, undo.  A check that reports a violation on such a tree is a false alarm of the machinery (translator or
canonicalisation too brittle) and has to be repaired.  Usage: run_benign.py [ids...]   (results -> seeded/benign/results.json)"""
import json, os, re, subprocess, sys, time

V = "/verif"
DIR = os.path.join(V, "seeded", "benign")
ENV = dict(os.environ, CARGO_NET_OFFLINE="true")
PROPS = [f"C{i:02d}" for i in range(1, 21)]


def sh(cmd, timeout=3600):
    p = subprocess.run(cmd, shell=True, stdout=subprocess.PIPE, stderr=subprocess.STDOUT, text=True, env=ENV, timeout=timeout)
    return p.returncode, p.stdout


def main():
    ids = sys.argv[1:] or sorted(d for d in os.listdir(DIR) if os.path.exists(os.path.join(DIR, d, "patch.diff")))
    rf = os.path.join(DIR, "results.json")
    results = json.load(open(rf)) if os.path.exists(rf) else {}
    for k in ids:
        patch = os.path.join(DIR, k, "patch.diff")
        assert sh("git -C /repo status --porcelain")[1].strip() == "", "/repo is not clean"
        res = {"id": k, "at": time.strftime("%Y-%m-%d %H:%M:%S")}
        rc, out = sh(f"git -C /repo apply --check {patch}")
        if rc != 0:
            res["applies"] = False
            results[k] = res
            json.dump(results, open(rf, "w"), indent=1)
            print(k, "does not apply")
            continue
        res["applies"] = True
        res["files"] = sorted(set(re.findall(r"^\+\+\+ b/(\S+)", open(patch).read(), re.M)))
        try:
            sh(f"git -C /repo apply {patch}")
            alarms = {}
            for p in PROPS:
                rc, out = sh(f"cd {V} && ./check {p} --tier quick", timeout=3000)
                viol = [l for l in out.splitlines() if l.startswith("VIOLATION")]
                if rc != 0 or viol:
                    what = []
                    for l in viol:
                        m = re.search(r"replay=(\S+)", l)
                        if m and os.path.exists(m.group(1)):
                            try:
                                j = json.load(open(m.group(1)))
                                what.append({"kind": j.get("kind"), "what": j.get("what"), "no_input": j.get("no_failing_input_found")})
                            except Exception:
                                pass
                    alarms[p] = {"rc": rc, "violations": viol, "what": what, "tail": out[-600:]}
            res["alarms"] = alarms
            res["quiet"] = not alarms
        finally:
            sh("git -C /repo checkout -- .")
        results[k] = res
        json.dump(results, open(rf, "w"), indent=1)
        print(k, "quiet" if res.get("quiet") else f"ALARMS {sorted(res.get('alarms', {}))}", flush=True)


if __name__ == "__main__":
    main()
