#!/usr/bin/env python3
"""Cross-check of the Lean reference crypto (MlsVerif.Model.{Sha2,Hmac,Hkdf,Hex}) against CPython.

  python3 tools_crosscheck.py                 random + boundary cases through the Lean interpreter
                                              (`lake env lean --run` of a 2-line main that calls
                                              `cryptoCheckMain` from Driver/CryptoCheck.lean)
  python3 tools_crosscheck.py --exe CMD...    same, but pipe the requests into CMD (a native
                                              executable that runs `cryptoCheckMain` on stdin)
  python3 tools_crosscheck.py --vectors       recompute the published vectors used in
                                              MlsVerif/Model/CryptoTests.lean with hashlib/hmac
                                              and check each one occurs verbatim in that file
Options: --seed N (default 13), --random N (number of random cases, default 200).
Exit status 0 iff everything agrees.
"""
import hashlib, hmac, os, random, subprocess, sys, tempfile

HERE = os.path.dirname(os.path.abspath(__file__))
ALGS = ["sha256", "sha384", "sha512"]
OUTLEN = {"sha256": 32, "sha384": 48, "sha512": 64}
LENS = [0, 55, 56, 63, 64, 65, 111, 112, 127, 128, 129, 300]


def py_hash(alg, msg):
    return hashlib.new(alg, msg).digest()


def py_hmac(alg, key, msg):
    return hmac.new(key, msg, alg).digest()


def py_extract(alg, salt, ikm):
    if len(salt) == 0:                       # RFC 5869: absent salt = HashLen zero bytes
        salt = bytes(OUTLEN[alg])
    return py_hmac(alg, salt, ikm)


def py_expand(alg, prk, info, length):
    if length > 255 * OUTLEN[alg]:
        return None
    t, okm, i = b"", b"", 1
    while len(okm) < length:
        t = py_hmac(alg, prk, t + info + bytes([i]))
        okm += t
        i += 1
    return okm[:length]


def hx(b):
    return b.hex() if b else "-"


def gen_cases(rng, nrandom):
    """list of (request line, expected output line)"""
    cases = []

    def rb(n):
        return bytes(rng.getrandbits(8) for _ in range(n))

    def add_hash(alg, m):
        cases.append((f"hash {alg} {hx(m)}", py_hash(alg, m).hex()))

    def add_hmac(alg, k, m):
        cases.append((f"hmac {alg} {hx(k)} {hx(m)}", py_hmac(alg, k, m).hex()))

    def add_extract(alg, s, i):
        cases.append((f"extract {alg} {hx(s)} {hx(i)}", py_extract(alg, s, i).hex()))

    def add_expand(alg, p, i, n):
        r = py_expand(alg, p, i, n)
        cases.append((f"expand {alg} {hx(p)} {hx(i)} {n}", "none" if r is None else r.hex()))

    # boundary lengths, systematically
    for alg in ALGS:
        for n in LENS:
            add_hash(alg, rb(n))
            add_hmac(alg, rb(n), rb(rng.choice(LENS)))      # key length n (incl. > block)
            add_hmac(alg, rb(rng.choice(LENS)), rb(n))      # msg length n
            add_extract(alg, rb(n), rb(rng.choice(LENS)))
            add_extract(alg, rb(rng.choice(LENS)), rb(n))
            add_expand(alg, rb(OUTLEN[alg]), rb(rng.choice(LENS)), n)
            add_expand(alg, rb(n), rb(n), rng.choice(LENS))
        h = OUTLEN[alg]
        for n in [1, h - 1, h, h + 1, 2 * h, 2 * h + 1, 254 * h + 1, 255 * h - 1, 255 * h,
                  255 * h + 1, 256 * h, 100000]:
            add_expand(alg, rb(h), rb(17), n)
        # every message length 0..260 once (all padding residues for both block sizes)
        for n in range(0, 261):
            add_hash(alg, rb(n))
    # random (alg, key, msg, salt, info, len)
    for _ in range(nrandom):
        alg = rng.choice(ALGS)

        def rl():
            return rng.choice(LENS) if rng.random() < 0.5 else rng.randrange(0, 400)

        key, msg, salt, info = rb(rl()), rb(rl()), rb(rl()), rb(rl())
        length = rng.choice(LENS + [rng.randrange(0, 600), 255 * OUTLEN[alg], 255 * OUTLEN[alg] + 1])
        add_hash(alg, msg)
        add_hmac(alg, key, msg)
        add_extract(alg, salt, msg)
        add_expand(alg, py_extract(alg, salt, key), info, length)
    return cases


def run_lean(cmd, requests, cwd):
    p = subprocess.run(cmd, input="".join(r + "\n" for r in requests), capture_output=True,
                       text=True, cwd=cwd)
    if p.returncode != 0:
        sys.stderr.write(p.stdout[-2000:] + p.stderr[-4000:])
        sys.exit(f"command {cmd} failed with status {p.returncode}")
    return p.stdout.split("\n")


def crosscheck(args):
    seed, nrandom, exe = 13, 200, None
    while args:
        a = args.pop(0)
        if a == "--seed":
            seed = int(args.pop(0))
        elif a == "--random":
            nrandom = int(args.pop(0))
        elif a == "--exe":
            exe, args = args, []
        else:
            sys.exit(__doc__)
    cases = gen_cases(random.Random(seed), nrandom)
    reqs = [c[0] for c in cases]
    if exe:
        out = run_lean(exe, reqs, os.getcwd())
    else:
        b = subprocess.run(["lake", "build", "Driver.CryptoCheck"], cwd=HERE, capture_output=True,
                           text=True)
        if b.returncode != 0:
            sys.exit("lake build Driver.CryptoCheck failed:\n" + b.stdout + b.stderr)
        with tempfile.TemporaryDirectory() as d:
            main = os.path.join(d, "CryptoCheckMain.lean")
            with open(main, "w") as f:
                f.write("import Driver.CryptoCheck\ndef main : IO Unit := cryptoCheckMain\n")
            out = run_lean(["lake", "env", "lean", "--run", main], reqs, HERE)
    if out and out[-1] == "":
        out.pop()
    bad = 0
    if len(out) != len(cases):
        print(f"FAIL: {len(cases)} requests but {len(out)} output lines")
        bad += 1
    for (req, exp), got in zip(cases, out):
        if got != exp:
            bad += 1
            if bad <= 10:
                print(f"MISMATCH {req[:160]}\n  python: {exp[:160]}\n  lean:   {got[:160]}")
    kinds = {}
    for req, _ in cases:
        kinds[req.split()[0]] = kinds.get(req.split()[0], 0) + 1
    print(f"seed {seed}: {len(cases)} cases {kinds}: " + ("ALL AGREE" if bad == 0 else f"{bad} FAILURES"))
    return 1 if bad else 0


def vectors():
    """published vectors, inputs typed here independently of CryptoTests.lean"""
    exp = []
    m448 = b"abcdbcdecdefdefgefghfghighijhijkijkljklmklmnlmnomnopnopq"
    m896 = (b"abcdefghbcdefghicdefghijdefghijkefghijklfghijklmghijklmnhijklmnoijklmnopjklmnopq"
            b"klmnopqrlmnopqrsmnopqrstnopqrstu")
    assert len(m448) * 8 == 448 and len(m896) * 8 == 896
    for alg in ALGS:
        for name, m in [("empty", b""), ("abc", b"abc"), ("448", m448), ("896", m896),
                        ("a*1000", b"a" * 1000)]:
            exp.append((f"{alg} {name}", py_hash(alg, m).hex()))
    rfc4231 = [
        (1, b"\x0b" * 20, b"Hi There"),
        (2, b"Jefe", b"what do ya want for nothing?"),
        (3, b"\xaa" * 20, b"\xdd" * 50),
        (4, bytes(range(1, 26)), b"\xcd" * 50),
        (6, b"\xaa" * 131, b"Test Using Larger Than Block-Size Key - Hash Key First"),
        (7, b"\xaa" * 131, b"This is a test using a larger than block-size key and a larger than "
                            b"block-size data. The key needs to be hashed before being used by the "
                            b"HMAC algorithm."),
    ]
    for tc, k, d in rfc4231:
        for alg in ALGS:
            exp.append((f"RFC4231 tc{tc} {alg}", py_hmac(alg, k, d).hex()))
    exp.append(("RFC4231 tc4 key", bytes(range(1, 26)).hex()))
    rfc5869 = [
        (1, b"\x0b" * 22, bytes(range(0x00, 0x0d)), bytes(range(0xf0, 0xfa)), 42),
        (2, bytes(range(0x00, 0x50)), bytes(range(0x60, 0xb0)), bytes(range(0xb0, 0x100)), 82),
        (3, b"\x0b" * 22, b"", b"", 42),
    ]
    for tc, ikm, salt, info, n in rfc5869:
        prk = py_extract("sha256", salt, ikm)
        exp.append((f"RFC5869 tc{tc} PRK", prk.hex()))
        exp.append((f"RFC5869 tc{tc} OKM", py_expand("sha256", prk, info, n).hex()))
    # a few values everybody knows, as a guard against a broken hashlib
    assert py_hash("sha256", b"abc").hex().startswith("ba7816bf8f01cfea")
    assert py_hmac("sha256", b"Jefe", b"what do ya want for nothing?").hex().startswith("5bdcc146bf60754e")
    text = open(os.path.join(HERE, "MlsVerif", "Model", "CryptoTests.lean")).read()
    bad = 0
    for name, h in exp:
        if f'"{h}"' not in text:
            bad += 1
            print(f"MISSING in CryptoTests.lean: {name} = {h}")
    # and conversely: every long hex literal of the file is one of the recomputed values
    import re
    known = {h for _, h in exp}
    for lit in re.findall(r'"([0-9a-f]{50,})"', text):
        if lit not in known:
            bad += 1
            print(f"UNEXPLAINED literal in CryptoTests.lean: {lit}")
    print(f"{len(exp)} published vectors recomputed: " + ("ALL PRESENT" if bad == 0 else f"{bad} PROBLEMS"))
    return 1 if bad else 0


if __name__ == "__main__":
    argv = sys.argv[1:]
    sys.exit(vectors() if argv == ["--vectors"] else crosscheck(argv))
