#!/usr/bin/env python3
"""Apply each seeded change of /verif/seeded/<id>/ to /repo, re-verify that it compiles and that the unit tests of the touched
crates still pass, run the property's check(s), undo.  Usage: run_seeds.py [ids...]   (results -> /verif/seeded/results.json)"""
import json, os, re, subprocess, sys, time

V = "/verif"
SEEDED = os.path.join(V, "seeded")
ALSO = {"C01": ["C09"], "C02": ["C09"], "C09": ["C01"], "C08": ["C01"], "C07": ["C01", "C15"], "C11": ["C01"], "C06": ["C19"], "C19": ["C06", "C05"], "C05": ["C19"],
        "C03": ["C04"], "C04": ["C03", "C15"], "C15": ["C04"], "C10": ["C01"], "C13": ["C01"], "C18": ["C13"], "C12": [], "C14": [], "C16": [], "C17": [], "C20": ["C08"]}
ENV = dict(os.environ, CARGO_NET_OFFLINE="true")


def sh(cmd, cwd=None, timeout=3600):
    p = subprocess.run(cmd, shell=True, cwd=cwd, stdout=subprocess.PIPE, stderr=subprocess.STDOUT, text=True, env=ENV, timeout=timeout)
    return p.returncode, p.stdout


def main():
    ids = sys.argv[1:] or sorted(d for d in os.listdir(SEEDED) if os.path.isdir(os.path.join(SEEDED, d)) and os.path.exists(os.path.join(SEEDED, d, "patch.diff")))
    rf = os.path.join(SEEDED, "results.json")
    results = json.load(open(rf)) if os.path.exists(rf) else {}
    for sid in ids:
        d = os.path.join(SEEDED, sid)
        patch = os.path.join(d, "patch.diff")
        pid = sid.split("-")[0]
        res = {"seed": sid, "property": pid, "at": time.strftime("%Y-%m-%d %H:%M:%S")}
        assert sh("git -C /repo status --porcelain")[1].strip() == "", "/repo is not clean"
        rc, out = sh(f"git -C /repo apply --check {patch}")
        if rc != 0:
            res["applies"] = False
            res["note"] = out[-400:]
            results[sid] = res
            json.dump(results, open(rf, "w"), indent=1)
            print(sid, "does not apply")
            continue
        res["applies"] = True
        try:
            sh(f"git -C /repo apply {patch}")
            crates = sorted(set(re.findall(r"^\+\+\+ b/([\w-]+)/", open(patch).read(), re.M)))
            res["crates"] = crates
            tests = {}
            for c in crates:
                extra = " --lib" if c == "mls-rs" else ""
                rc, out = sh(f"cd /repo && cargo test -p {c}{extra} --offline 2>&1 | grep -E 'test result|error(\\[|:)' | head -20")
                tests[c] = out.strip().splitlines()
            res["tests"] = tests
            fails = sum(int(m) for l in sum(tests.values(), []) for m in re.findall(r"(\d+) failed", l))
            res["compiles"] = not any(("could not compile" in l or "error[" in l) for l in sum(tests.values(), []))
            # baseline: one known failing test per touched crate at most (empty vector files)
            res["tests_failed"] = fails
            checks = {}
            for p in [pid] + ALSO.get(pid, []):
                t = time.time()
                rc, out = sh(f"cd {V} && ./check {p} --tier quick", timeout=3000)
                viol = [l for l in out.splitlines() if l.startswith("VIOLATION")]
                kinds = []
                for l in viol:
                    m = re.search(r"replay=(\S+)", l)
                    if m and os.path.exists(m.group(1)):
                        try:
                            kinds.append(json.load(open(m.group(1))).get("kind"))
                        except Exception:
                            pass
                checks[p] = {"rc": rc, "violations": len(viol), "kinds": kinds, "no_input": sum("no-failing-input-found" in l for l in viol), "s": round(time.time() - t)}
                print(sid, p, checks[p], flush=True)
            res["checks"] = checks
            res["caught"] = any(c["rc"] != 0 for c in checks.values())
            res["caught_by_own"] = checks[pid]["rc"] != 0
        finally:
            sh("git -C /repo checkout -- . && git -C /repo clean -fdq -e target")
        results[sid] = res
        json.dump(results, open(rf, "w"), indent=1)
    print(json.dumps({k: (v.get("caught"), v.get("caught_by_own")) for k, v in results.items()}, indent=0))


if __name__ == "__main__":
    main()
