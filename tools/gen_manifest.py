#!/usr/bin/env python3
"""Writes /verif/MANIFEST.json from the table below (kept in one place so the file is always valid)."""
import json, os, subprocess
V = os.path.dirname(os.path.dirname(os.path.abspath(__file__)))
props = [json.loads(l) for l in open(os.path.join(V, "properties.jsonl"))]

CLAIMED = {
 "C20": dict(
  technique="Lean 4 proof (model = recursive RFC 9420 App. C spec, all heights/nodes) + exhaustive table correspondence with the real tree math",
  text="Theorems MlsVerif.Props.C20 (16, no sorry, axioms propext/Classical.choice/Quot.sound) prove for every height k and every node "
       "that the Nat model of math.rs equals the structurally recursive in-order perfect-tree specification (root, parent, sibling, children, "
       "direct path/copath, LCA in both forms the code uses, leaf range, BFS order, out-of-tree reporting, no u32 overflow up to 2^24 leaves). "
       "The model is tied to the code on every run by comparing complete function tables of the real crate (hook verif::tree_math) with the "
       "compiled model: exhaustive for 2^0..2^12 leaves incl. 3 indices beyond the tree, all leaf pairs for the LCA level, sampled sizes to 2^24.",
  note="Trusted: Lean kernel; the Nat transliteration of math.rs (validated by the exhaustive table comparison, not generated); harness and driver. "
       "Leaf counts are assumed powers of two as produced by NodeVec::total_leaf_count (rows 'tlc' check that function too).",
  ref="DESIGN.md §4 C20"),
}
PENDING_REASON = "check not built yet in this session (planned, see DESIGN.md §8); not claimed until its check exists"

checks = []
for p in props:
    pid = p["id"]
    if pid in CLAIMED:
        c = CLAIMED[pid]
        checks.append({
            "property_id": pid,
            "quick_cmd": f"./check {pid} --tier quick",
            "thorough_cmd": f"./check {pid} --tier thorough",
            "evidence_file": f"/verif/evidence/{pid}.json",
            "replay_cmd_template": f"./check {pid} --replay {{path}}",
            "engine": "lean4+vharness",
            "level_claimed": {"category": c.get("category", "proof"), "text": c["text"], "design_ref": c["ref"]},
            "level_note": c["note"],
            "technique": c["technique"],
        })
na = [{"property_id": p["id"], "reason": PENDING_REASON} for p in props if p["id"] not in CLAIMED]
hooks = subprocess.run(["git", "-C", "/repo", "log", "--format=%H %s", "--grep=^verif hooks"], capture_output=True, text=True).stdout.strip().splitlines()
m = {
 "version": 1,
 "setup_cmd": "./check --setup",
 "hooks": {
  "guard": "cargo feature `verif` of crate mls-rs (off by default)",
  "enable": "harness/Cargo.toml depends on mls-rs with features [\"verif\", ...]; the library itself is unchanged without the feature",
  "baseline_off_cmd": "cd /repo && cargo nextest run --workspace --no-fail-fast --tool-config-file pb:/w/lib/nextest.toml --profile pb --test-threads 8 --offline || cargo test --workspace --no-fail-fast --offline",
  "source_commits": [h.split()[0] for h in hooks],
  "add_only": True,
 },
 "engines": [
  {"name": "lean4", "path": "/verif/lean", "serves_properties": sorted(CLAIMED), "kind_free_text": "Lean 4 models, specs and property theorems (lake project MlsVerif) + compiled model driver mlsmodel"},
  {"name": "vharness", "path": "/verif/harness", "serves_properties": sorted(CLAIMED), "kind_free_text": "Rust harness calling the real crates in-process; correspondence streams and direct oracles"},
 ],
 "checks": checks,
 "not_applicable": na,
 "notes": "Technique family: machine-checked proof in Lean 4 with a checked tie (correspondence and/or translation) to /repo on every run. See DESIGN.md.",
}
json.dump(m, open(os.path.join(V, "MANIFEST.json"), "w"), indent=1)
print("claimed:", sorted(CLAIMED), "pending:", len(na))
