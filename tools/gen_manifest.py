#!/usr/bin/env python3
"""Writes /verif/MANIFEST.json from the table below (kept in one place so the file is always valid)."""
import json, os, subprocess
V = os.path.dirname(os.path.dirname(os.path.abspath(__file__)))
props = [json.loads(l) for l in open(os.path.join(V, "properties.jsonl"))]

CLAIMED = {
 "C20": dict(
  technique="Lean 4 proof (model = recursive RFC 9420 App. C spec, all heights/nodes) + exhaustive table correspondence with the real tree math",
  text="Theorems MlsVerif.Props.C20 (16, no sorry, axioms propext/Classical.choice/Quot.sound) prove for every height k and every node "
       "that the Nat model of math.rs equals the structurally recursive in-order perfect-tree specification (root, parent, sibling, children, "
       "direct path/copath, LCA in both forms the code uses, leaf range, BFS order, out-of-tree reporting, no u32 overflow up to 2^24 leaves). "
       "The model is tied to the code on every run by comparing complete function tables of the real crate (hook verif::tree_math) with the "
       "compiled model: exhaustive for 2^0..2^12 leaves incl. 3 indices beyond the tree, all leaf pairs for the LCA level, sampled sizes to 2^24.",
  note="Trusted: Lean kernel; the Nat transliteration of math.rs (validated by the exhaustive table comparison, not generated); harness and driver. "
       "Leaf counts are assumed powers of two as produced by NodeVec::total_leaf_count (rows 'tlc' check that function too).",
  ref="DESIGN.md §4 C20"),
 "C13": dict(
  technique="Lean 4 proof (code-structured key schedule / lazy secret tree / PSK fold = RFC 9420 §8-9 spec, any KDF) + byte-level correspondence with a Lean HKDF/HMAC/SHA-2 reference",
  text="Theorems MlsVerif.Props.C13: for every primitive set and all inputs the model of key_schedule.rs / secret_tree.rs / psk/secret.rs "
       "equals the RFC-structured specification: every epoch secret, welcome key/nonce, exporter, the PSK fold = the RFC recursion for any list length, "
       "every key of the lazily consumed secret tree after ANY request sequence = the spec key of (leaf, type, generation), ratchet keys independent of "
       "request order. Tie: on every run the real crate (hook verif::kdf; RustCrypto and OpenSSL, suites 1-7) and the model instantiated with a Lean "
       "reference HKDF/HMAC/SHA-2 are run on fresh random inputs and compared byte for byte (~58k derivations quick). Transcript values (Props.C13Transcript: "
       "interim_confirmed_chain, membership_tag_chain, confirmed_binds, interim_binds): the confirmed and interim transcript hash of every public commit and the membership tag of every "
       "public commit / proposal of random mixed-provider histories are recomputed by the model from the RAW message bytes (decoded with the generated codec records of C12) and compared "
       "with the members' values (`th` / `mtag` rows; the repository's interop transcript vectors are `#guard`-checked as well). `thp` rows: the same two hashes for ENCRYPTED commits (wire format 2) from the FramedContent, signature and tag a receiver decrypts (hook verif_open_private_message). "
       "`eks` rows: for every commit WITHOUT an update path of those histories (and of the C18 PSK scenarios) the epoch the real group enters - resumption, sender-data, encryption, exporter, authentication, "
       "external and init secret, membership key and the commit's confirmation tag - is recomputed by KS.epochOfCommit from the previous epoch's init secret, the all-zero commit secret, the NEW group context and the "
       "PSK ids (nonces as sent) in the order of the commit message: ties how the group state machine drives the schedule, which no agreement oracle can see. "
       "`extpub` rows: the external public key published in the GroupInfo of every epoch (suites 1, 3) = DeriveKeyPair(external_secret).pk recomputed by the HPKE model and a Lean X25519 reference.",
  note="Trusted: Lean kernel; Lean SHA-2/HMAC/HKDF reference (checked against published vectors and python hashlib, not proved); hand-written model validated by the "
       "byte-level correspondence. Straight-line parts of the schedule are near-rfl; content is in the secret tree, ratchet, PSK chain. Transcript hashes and membership tags of ENCRYPTED handshake "
       "messages are exercised by the group-level agreement oracle only. "
       "Finding kept in Props: a non-leaf index given to SecretTree returns a key the RFC does not define (nonleaf_request_succeeds) — unreachable through Group.",
  ref="DESIGN.md §4 C13"),
 "C05": dict(
  technique="Lean 4 proof (single-use, exact window, permutation completeness, injectivity under free KDF) + ratchet correspondence + nonce/replay oracle on real groups",
  text="Theorems MlsVerif.Props.C05 over the ratchet/secret-tree model: a generation handed out once is never handed out again (handed_out_once, any request list), "
       "the acceptance window is exactly [gen, gen+1024] plus stored skipped keys (window_exact), every permutation of an in-window set yields each key exactly once "
       "(permutation_complete), sender generations increase by one (sender_fresh*), and under a collision-free KDF distinct (leaf, type, generation) give distinct "
       "(key, nonce) so application and handshake never share keys (key_injective, proved non-vacuous for a term algebra). Tie: request scripts of the real secret tree vs the "
       "compiled model, incl. the secret tree of every REAL epoch of the group scenarios replayed from the epoch's encryption secret (`st.new` / `st.get` rows: the key and the nonce-before-guard of "
       "every content seal) and `sdk` rows (sender-data key / nonce from the ciphertext sample); direct oracle on real groups: every aead_seal is classified by its AAD (content / sender data / welcome), the "
       "sender-data plaintext gives (leaf, generation, reuse guard): no content key, no nonce-before-guard and no (epoch, leaf, ratchet, generation) is used twice, generations are consecutive per ratchet, "
       "application and handshake keys are disjoint; every ciphertext is accepted exactly once under permuted / duplicated delivery with reloads, the 1024 boundary is exact on both ratchets; members that "
       "encrypt their handshake interleave application messages, encrypted proposals and the encrypted commit (receivers that saw none / some / all proposals), verdicts compared with the exact ratchet model "
       "(ratchets_independent, handshake_unaffected_by_application). The model follows the repaired message_key_generation (fix F36): "
       "refused_future_generation_changes_nothing, rejected_request_changes_no_lookup, repair_same_success / repair_verdict (the early refusal changes the state only, never an accepted answer).",
  note="Trusted: Lean kernel, model validated by correspondence, harness oracles. Excluded and stated: u32 generation overflow within 2048 of 2^32 (counterexample "
       "permutation_near_overflow in the Props file), state roll-back to an older snapshot, real AEAD/KDF collision resistance (FreePrim hypothesis).",
  ref="DESIGN.md §4 C05"),
 "C11": dict(
  technique="Lean 4 proof (pending-commit state machine: invariant by induction over all op lists) + exhaustive interleaving enumeration on real groups replayed on the model",
  text="Theorems MlsVerif.Props.C11 over the pending-commit machine (build / detached build / clear / apply / apply-detached / deliver): an invariant proved for every "
       "reachable world (inv_reachable, hist_reachable), building a commit changes no member's state, clear restores, committer and receivers reach the same state, a foreign "
       "commit discards the pending one, at most one pending commit, only commits of the current epoch are accepted, stale detached secrets are rejected and leave the "
       "world unchanged, every epoch move is exactly +1. Tie: every op sequence up to depth 4 (quick, 12k sequences) / 5 (thorough, 171k) is executed on real groups "
       "(cloned at each DFS node) and replayed on the compiled model; per op ok/err and every member's (epoch, state class, pending flag) are compared; direct oracle: "
       "a failing op changes nothing, epochs move by 0/+1. The model distinguishes commits with / without an update path (an own path-less commit is processed by its author like a foreign one), "
       "commits that remove the receiver (it stays in its state and its pending commit is discarded — defect F34, fixed), and re-init commits (whoever installs one is frozen: "
       "frozen_rejects, frozen_forever; removed_member_never_accepted); four further DFS configurations build these kinds (PSK-only, removal of a racer / of the passive member, re-init).",
  note="Trusted: Lean kernel; hand model validated exhaustively at the stated depth; enumerated commits are empty (content covered elsewhere). The model abstracts the "
       "error kind of a same-epoch commit from another branch (rejected cryptographically).",
  ref="DESIGN.md §4 C11"),
 "C16": dict(
  technique="Lean 4 proof (epoch admission / observer window exact, monotone, no underflow) + observers on random real histories with the window replayed on the model",
  text="Theorems MlsVerif.Props.C16: a ciphertext of epoch m is admitted by an observer at epoch e with jitter j iff e <= m + j (window_exact), handshake messages only in "
       "the current epoch, the bound never underflows for any u64 epoch/jitter (no_underflow), jitter >= epoch admits everything, monotone in jitter, wrong group/version "
       "rejected. Tie: up to 6 observers per random history with public handshake (started at random epochs, every jitter class incl. > epoch, 2^63, 2^64-1, snapshot/"
       "restore; own proposal cache by the builder's DEFAULT or application-side cache with cache_proposals(false)) must equal the members' context, roster and tree after every commit and must never panic; every ciphertext delivery is an `adm` row replayed on the model; "
       "application content framed as a signed and MACed PublicMessage (hook verif_public_application_message) is delivered to observers and members: `adm … pub` rows on "
       "checkMetadataW (public_application_rejected, earlier_errors_win).",
  note="Trusted: Lean kernel, model validated by the `adm` correspondence, harness oracle for 'tracks the members'. That the observer's commit processing equals the members' "
       "is shown by the oracle and by the shared tree-layer model (C01/C08), not by a separate theorem. External proposals issued by the observer are not generated yet.",
  ref="DESIGN.md §4 C16"),
 "C17": dict(
  technique="Lean 4 proof (membership check <-> same identities / subset; join parameter checks; freeze) + re-init/branch scenarios on the real library replayed on the model",
  text="Theorems MlsVerif.Props.C17: for duplicate-free identity lists the re-init check holds iff the successor has exactly the old identities (any order, any old tree shape), "
       "the branch check iff subset; supersets and replaced identities are refused; joinChecks_ok_iff characterises every parameter check (version, suite, epoch 1, group id, "
       "extensions) with one lemma per mismatch; frozen_after_reinit. Tie: random old groups (2-7 members, interior blank leaves, re-keyed members) x successor kind x member set "
       "(equal/subset/superset/replaced) on the real library: creation, every old member's join, outsider and plain-join refusal, freeze of the old group; a dishonest old member (hook ReinitClient::verif_deviate) creates the successor "
       "with another group id / other extensions / another protocol version / another cipher suite than announced or for an epoch other than 1 (hooks verif_deviate_params, verif_branch_deviating: commits before the Welcome; key package the victim "
       "published for the other suite) and every honest member's join must refuse it with the error class the model gives (joinChecks_*_iff fix the order of the checks); after the re-init commit every kind of commit built or received "
       "(empty, Add, Remove, PSK, ReInit, detached, from a member ignoring the freeze, external) is refused with the state unchanged (`frz` rows; frozen_refuses_every_commit, frozen_forever, epoch_stops_after_reinit); "
       "`sub` rows (membership) and `join` rows (joinChecks verdict incl. error class) replayed on the model.",
  note="Trusted: Lean kernel; identities abstracted to numbers (IdentityProvider::identity); the resumption-PSK binding itself is cryptographic (C18/C13). All five parameter "
       "mismatches are exercised on the implementation (a version mismatch needs clients that declare a second protocol version); not constructed: a re-init to a suite with another signature scheme, a branch deviating in extensions.",
  ref="DESIGN.md §4 C17"),
 "C04": dict(
  technique="Lean 4 proof (atomicity of well-ordered step lists) instantiated by `decide` at step lists GENERATED from the Rust source by a translator + rejection / fault sweeps with full-state comparison",
  text="Theorem MlsVerif.Props.C04.atomic: for every fault plan and state, a step list in which no fallible step follows a mutation returns an error only with the "
       "state untouched (and retry_same). tools/translate.py regenerates on every run, from the current Rust source, the ordered may-fail / mutates step lists of "
       "update_key_schedule, Group::apply_update_path, apply_detached_commit, apply_pending_commit, process_commit, state_repo insert, CiphertextProcessor::open; the "
       "per-operation theorems are `by decide` over those generated lists, so moving an assignment to self in front of a `?` breaks a proof obligation. "
       "For CiphertextProcessor::open (and the composite encrypted-commit path) the full statement is false on the current tree: machine-checked negation + counterexample "
       "(known findings F8, F8b). Failing-input search / second tie: ~12k mutated, replayed, spliced, insider-re-signed messages and every identity/storage/PSK provider "
       "fault per operation on real receivers with every state component compared before/after, the genuine follow-up and peer acceptance; the C05 delivery streams (messages more than 1024 "
       "generations ahead) run with the same state comparison around every refusal (defect F36, fixed).",
  note="Trusted: Lean kernel; tools/translate.py (statement-level extraction; table MUTATING_CALLS of callees that mutate behind a call); the harness. Recorded known findings "
       "(known_findings.json): F8 corrupted ciphertext consumes the ratchet key, F8b encrypted commit rejected after decryption consumes the handshake key. Crypto-provider faults not injected.",
  ref="DESIGN.md §4 C04/C15"),
 "C15": dict(
  technique="Lean 4 proof (repository model: write-fault retry reaches the fault-free history; generated step lists atomic) + storage fault sweep on real members",
  text="Theorems MlsVerif.Props.C15: over the repository model with both back ends and any fault flags, a failed write_to_storage followed by a retry (also two failures) stores "
       "every epoch exactly once and ends with the fault-free stored history (write_retry_same_history, write_retry_many, write_accounts_every_epoch); machine-checked "
       "documentation of the repaired defect (old_write_duplicates). Over the GENERATED step lists: write_prefix_atomic, write_clears_before_kp_deletion, and atomicity of "
       "apply_pending_commit / apply_detached_commit / update_key_schedule / state_repo insert. Tie: translator + a sweep that fails every storage / key-package / PSK-store call "
       "of process / apply / build / join / write once (thorough: twice) on real members with in-memory and SQLite storage, comparing state, stored snapshot, stored epoch "
       "records (incl. the id inside each record) and key-package store with the fault-free run; sweeps of create / key-package generation / load_group, of a late message of a stored epoch, of a commit "
       "over cached by-reference proposals (defect F39, fixed), re-init and pending-own-update variants, pairs of faults in the quick tier, stored bytes compared after every retry; a sweep that finds no "
       "provider call is reported unless the operation legitimately makes none.",
  note="Trusted: Lean kernel, translator, harness. A storage write that succeeded before a later call failed cannot be undone: the pending-insert list is compared jointly with the "
       "storage (each epoch stored or pending, never both). SQLite transaction atomicity and crashes inside a provider are assumptions.",
  ref="DESIGN.md §4 C04/C15"),
 "C06": dict(
  technique="Lean 4 proof (repository + two storage back ends: invariant for all op sequences, back ends bisimilar, load = last write) + write/reload/crash scenarios on both real providers replayed on the model",
  text="Theorems MlsVerif.Props.C06: the contiguity invariant holds for every op sequence (inv_reachable); the in-memory store's index arithmetic equals keyed lookup under it "
       "(mem_get_eq_keyed, with the decide'd counterexample without contiguity); the in-memory and SQLite back ends give equal observations for every op sequence "
       "(backends_bisimilar); loading returns the stored state of the last write whatever happened after it (load_returns_last_write). Tie: subjects on both real providers "
       "follow the same traffic with random write / write+reload / crash points and a never-reloaded twin; every component of the loaded group is compared with the written "
       "one and with the twin; each repository operation is a row replayed on the compiled model (stored ids, availability); each subject also CREATES a second group on the same "
       "storage (stored history starts at epoch 0, one or two epochs per write) whose repository operations are model streams of their own (first trim of epoch 0 on either back end). The subjects also take proposer and committer turns (own pending Update, "
       "cached proposals, a pending commit that is later applied, received back or superseded) with write / reload / crash at each of these points, a never-reloaded twin for both subjects compared every "
       "round, reload through a fresh client (SQLite: a new connection to the same file), and catch-up after a crash by re-delivery of the lost commits.",
  note="Trusted: Lean kernel, model validated by rows, harness. The byte-level snapshot round trip of the member state is C12's codec theorem + this check's component comparison; "
       "the SQLite transaction is one atomic step (assumption).",
  ref="DESIGN.md §4 C06/C19"),
 "C19": dict(
  technique="Lean 4 proof (exact retention window, right record, older gone) + late-message scenarios on both providers replayed on the model; sender-leaf oracle",
  text="Theorems MlsVerif.Props.C19: after a write the available past epochs are exactly max(oldest, W+1-R) .. W (retention_exact), epochs entered since the last write are all "
       "available (retention_with_pending), a lookup never returns another epoch's record (get_returns_right_record), older ones are gone from storage (older_gone). Tie: late "
       "application messages of age 0..R+2 (fresh ciphertext each, R in {1,2,3,5}) delivered to subjects on both providers at random write/reload points: each verdict is a "
       "`repo.get` row replayed on the model; direct oracle: a late message whose sender leaf was removed / reused by another member / re-identified is rejected, a re-keyed "
       "sender with the same signature key is still attributed correctly.",
  note="Trusted: Lean kernel, model validated by rows, harness. The sender rule (validate_sender_signature_key_from_prior_epoch) is checked by the oracle only. "
       "Noted: SQLite accepts retention 0 and then keeps nothing (sql_ret_zero_keeps_nothing), the in-memory provider rejects 0.",
  ref="DESIGN.md §4 C06/C19"),
 "C01": dict(
  technique="Lean 4 proof (tree-layer model: receivers compute the committer's tree and open the committer's seal; KeyInv for every reachable world; deterministic derivations) + random-history correspondence and agreement oracle",
  text="Theorems MlsVerif.Props.C01 (assembled from the tree layer, C11 and C13): the tree a receiver computes from the announced update path is the committer's tree; the "
       "ciphertext a receiver opens is one the committer sealed to a node whose key the receiver holds (so it enters the path-secret chain at the committer's value and, by "
       "chain_meets, ends at the committer's commit secret); the key schedule is a function of its inputs (and equals the RFC formulas, C13); in every reachable world every "
       "member holds exactly its entitled keys; the epoch moves by one. Tie: ~7.5k rows per quick run from random histories on the real library (commit = tree transformation, "
       "receivers' and joiners' private slots, key invariant) replayed on the compiled tree model, plus the direct oracle on real members after every commit: equal context, "
       "exported tree, roster, epoch authenticator, exported secret, epoch = previous + 1, cross-decryption of application messages. MlsVerif.Props.C01Group composes the layers over whole "
       "histories on a model with symbolic secrets (Model/Group: a world of parties = tree-layer private state + epoch + epoch secret; executable commit with path-secret chain, seals, decap, "
       "Welcome): invariant_holds / agreement (every reachable world: parties at the same epoch hold the same epoch and init secret), new_epoch_secret_is_committers, "
       "receiver_computes_committers_commit_secret (whatever position it decrypts at), receiver_not_stuck / commit_never_stuck (progress for every entitled party), joiner_gets_members_state; "
       "EXTERNAL COMMITS are a step of the model (GroupWorld.externalCommit: optional Remove of the committer's old leaf, insertion at the leftmost blank leaf after the trim, path with no excluded leaves, init secret from "
       "KEM randomness sealed to the key derived from the old epoch's external secret) and of `Reachable`, so every theorem above covers histories with external commits; in addition "
       "external_commit_epoch_secret, external_commit_delivered_members_advance, external_commit_never_stuck, external_committer_gets_members_state, external_commit_receivers_tree (the receivers' insertion of the "
       "path's leaf node gives the committer's tree and slots); "
       "tie: every history is replayed as `g.init` / `g.commit` / `g.external` rows and the model must print the real tree and, as `g.classes`, the partition of all parties (members and removed members' "
       "retained groups) by epoch secret that the real groups' epoch authenticators give (~5k rows per quick run).",
  note="Trusted: Lean kernel; hand-written tree model validated by the stream; harness oracles. Not a theorem: success of the real HPKE open (C14 covers the construction), the "
       "transcript-hash chain over real messages, mixed cipher suites/providers (quick uses RustCrypto suite 1). Fixed defects found by this check: F1, F15.",
  ref="DESIGN.md §4 C01/C09"),
 "C02": dict(
  technique="Lean 4 proof (seal recipients = filtered copath resolutions of the new tree; a removed member's keys occur nowhere later) + recorded hpke_seal recipients and ghost members on real histories",
  text="Theorems MlsVerif.Props.C02: every path-secret seal of encap goes to a non-blank node in the resolution of the copath child in the NEW tree and never to a leaf added by the "
       "same commit (seal_recipients_in_resolution, seals_exact); after a removal none of the stamps the removed member held occurs anywhere in the tree, and no seal of any later "
       "encap targets a key it holds (removed_keys_gone, removed_cannot_open_seals); resolution facts. Tie: the tree stream compares the model's recipient sets with the recipients of "
       "every real hpke_seal issued while a commit is built (recording CipherSuiteProvider, classified by the EncryptContext label); joiner secrets must go to init keys only; every "
       "removed member's retained Group is fed all later commits and must reject them. MlsVerif.Props.C02Group (composed model with symbolic secrets and a Dolev-Yao derivability relation): "
       "removed_member_forward_secrecy / removed_ghost_forward_secrecy / outsider_forward_secrecy — from its last state and all public seals a party removed by a path commit derives no path, "
       "commit or epoch secret of that or any later epoch (hypothesis NoReintro: no key it knows is re-introduced; machine-checked negative example for a path-less Remove), "
       "ciphertext_recipients, welcome_alone / welcome_contents, closure_sound. With external commits as a step of the model: ciphertext_recipients_ext (every seal goes to a key of the new tree or "
       "to the external key of a current member's epoch secret), external_init_known_to_old_members, removed_by_external_commit_holds_no_key / _cannot_derive and resync_old_state_forward_secrecy (the OLD state of a "
       "re-synchronising member gives nothing for later epochs), outsider_forward_secrecy_ext, never_member_learns_no_epoch_secret (the GroupInfo and every node key give no epoch secret), "
       "external_committer_learns_nothing_earlier (the joiner derives no epoch or init secret of the old world: the init chain is cut), init_chain_secrecy; welcome_alone now asks that the party's secrets depend on no "
       "ROOT of an init chain (genesis or an external committer's KEM randomness) - with genesis alone it is false once external commits exist; tie: the `g.*` rows of the replayed histories incl. `g.external`.",
  note="Trusted: Lean kernel, tree model validated by the stream, recording wrapper. 'Learns nothing' is symbolic: it follows from removed_cannot_open_seals under free-term crypto; "
       "side condition FreshKeys (a Remove plus an Add re-using the removed member's HPKE key is accepted by the model and the code: readd_same_key).",
  ref="DESIGN.md §4 C02"),
 "C07": dict(
  technique="Lean 4 proof (joiner placement and KeyInv of the state derived from the Welcome path secret; key-package deletion ordered last) + joiner scenarios on real clients",
  text="Theorems MlsVerif.Props.C07: the j-th added member sits at the j-th leftmost blank leaf with its key package's leaf node, and the private state it derives from the Welcome "
       "path secret satisfies KeyInv in the committer's tree, for every position relative to the committer and several joiners; the key-package deletion is the last fallible step of the "
       "generated write_to_storage list. Tie: `joiner`/`slots` rows of the tree stream; scenarios on real clients: joiner state == committer state (context, tree, authenticator, "
       "exporter), immediate send/commit, key package gone after the first write and Welcome not reusable, foreign client / stale GroupInfo refused, external commit and a commit by the "
       "external joiner, re-join after removal with the same storage; mismatch matrix (Welcome with the tree of the previous / next epoch, no tree, one node changed, a stranger with a key package "
       "of its own, two key packages of which one is addressed), Welcome joiners receive and commit, external commits with out-of-band tree / removal of the old self / external PSK / stale GroupInfo.",
  note="Trusted: Lean kernel, models validated by rows, harness. Recorded known finding F14 (re-join with storage holding earlier prior epochs -> InvalidEpoch on the next commit). "
       "Last-resort key packages need a cargo feature the default build lacks: not exercised. External-commit joins are checked by the oracle only.",
  ref="DESIGN.md §4 C07"),
 "C08": dict(
  technique="Lean 4 proof (shape / trimming / placement / unmerged / uniqueness invariants; incremental tree-hash cache = from-scratch RFC tree hash; TreeSync: every reachable tree is parent-hash valid and accepted by the model of validate_parent_hashes) + tree, tree-hash and parent-hash correspondence rows, observer validation and independent tree-hash recomputation on real histories",
  text="Theorems MlsVerif.Props.C08: no trailing blank after batchEdit / encap / applyUpdatePath, added leaves occupy the leftmost blank slots in order, ShapeInv / UnmergedInv / UniqInv / "
       "NonEmptyInv preserved, hence WF for every reachable tree (reachable_trees_wf). MlsVerif.Props.C08Hash on a faithful model of tree_hash.rs: tree_hash_full, update_hashes_coherent, "
       "coherent_preserved_batchEdit / _encap / _applyUpdatePath, reachable_cache_coherent, reachable_context_tree_hash, and the negative witness grow_only_resize_breaks_coherence. "
       "MlsVerif.Props.C08Sync (27 theorems, the TreeSync result) on a model of parent_hash.rs and compute_original_hashes: validate_iff_valid (the algorithm decides the declarative RFC 9420 "
       "7.9.2 predicate), original_hashes_spec, update_path_valid / update_path_total / sender_receiver_agree / receiver_accepts_iff / receiver_rejects, original_hash_stable (the key lemma: the "
       "unmerged-filtered tree hash of a surviving parent's sibling does not change), batchEdit_preserves_valid (add / remove / update), reachable_parent_hash_valid, "
       "reachable_accepted_by_joiner, reachable_authenticated, with decide-checked histories, the negative witness current_hash_breaks_validity and the counterexample "
       "valid_needs_fresh_path_keys. Tie per quick run: ~7.5k tree rows, ~3k `thashspec` rows (hash-cache partition), ~3.8k `phvalid` rows (every member's real tree and stored parent hashes "
       "satisfy the model's witness condition) and `phupd` rows (the model of update_parent_hashes reproduces the stored parent hashes of pure path commits, as byte-equality partitions); direct "
       "oracle after every commit: exported tree + GroupInfo pass ExternalClient::observe_group and every joiner's validation, the context tree hash equals a from-scratch recomputation.",
  note="Hashes are free (injective) symbols. Side condition of the TreeSync theorem, explicit in the statement: fresh path keys differ from every key occurring inside stored (possibly stale) "
       "parent hashes (PhKeysBelow) - true for keys derived from fresh randomness, false in the model otherwise (machine-checked counterexample). The tree-hash terms of the model omit the "
       "parent_hash field of inner parent nodes (abstraction inherited from the tree-hash model). Trusted: Lean kernel, models validated by the streams, harness.",
  ref="DESIGN.md §4 C08, §12"),
 "C09": dict(
  technique="Lean 4 proof (KeyInv preserved by every commit for committer, receivers, updated members and joiners; decap position agreement; fresh path keys) + private-slot correspondence and seal/open probes",
  text="Theorems MlsVerif.Props.C09: encap_keyinv, decap_keyinv / decap_succeeds / decap_position_agrees (the resolution lemma), joiner_keyinv, provisional_keyinv, fresh_path_keys, "
       "no_stale_leaf_key, and reachable_world_good: in every world reachable from a one-member group every member holds exactly the keys of the non-blank nodes on its direct path at "
       "which it is not unmerged, and they are the keys stored at those nodes. Tie: `slots` / `recv` / `joiner` rows (the real private-key slot occupancy of every member after every commit vs "
       "the model); direct oracle: each stored private key opens a fresh hpke_seal to the node's public key, none for blank nodes, none missing, fresh keys on the committer's path.",
  note="Trusted: Lean kernel, tree model validated by the stream, harness. Side conditions made explicit by the proofs: NonEmptyInv (a filtered path node is blank), fresh stamps.",
  ref="DESIGN.md §4 C01/C09"),
 "C03": dict(
  technique="Lean 4 proof (generated signed/MACed/AEAD field lists cover every wire field; binding and Dolev-Yao theorems for free crypto symbols; validated update path => decap total) + translator + mutation / replay / insider sweep on real receivers",
  text="Theorems MlsVerif.Props.C03: (a) by decide over the field lists GENERATED from the Rust sources every run: each wire field of PublicMessage, PrivateMessage, GroupInfo, KeyPackage and "
       "LeafNode is covered by the signature, the membership MAC or the AEAD associated data, and the signature is not part of its own input; (b) for injective (free) Sig/Mac/Aead: an accepted "
       "message agrees with the honestly sent one on every covered field, a message verified under another group context / epoch / sender or with any modified content field is rejected, and an "
       "accepted signature or tag was produced by a holder of the key (Dolev-Yao derivability); (c) insider: a path accepted by the un-filtering loop of validate_update_path (incl. the length "
       "check added by fix F11) makes decap total - never an index out of bounds (validated_path_no_oob). Tie: translator + per quick run ~12k mutated / replayed / re-attributed / insider re-signed "
       "messages delivered to real receivers (each must be an error, never a panic or acceptance) and ~1.9k `unfilter` rows from too-short / too-long update paths with consistent hashes on sparse trees; forged ratchet trees: a member signs a GroupInfo for an edited copy of its "
       "tree (12 edits of unmerged lists, blanks, keys, leaves, parent hashes; hook verif_group_info_for_edited_tree) and an observer and an external joiner must refuse it (defect F37, fixed); "
       "update-path keys re-used from the tree with consistent hashes (known finding F38).",
  note="Trusted: Lean kernel; free-symbol idealisation of signature / MAC / AEAD; field-list extractor of tools/translate.py; harness. Exhaustive single-bit flips only for the first scenario of the "
       "thorough tier (sampled otherwise). Fixed defect found here: F11 (short update path with consistent parent hash panicked every receiver above the cut).",
  ref="DESIGN.md §4 C03"),
 "C10": dict(
  technique="Lean 4 proof (one rule set, two strategies: whatever the sending filter keeps, the strict receiving mode accepts unchanged; rule lemmas; path requirement) + random histories with offending proposals replayed on the model in both modes",
  text="Theorems MlsVerif.Props.C10 on the proposal-filter model (apply_proposals_from_member + batch_edit incl. the revert-all branch): send_accepted (for EVERY bundle, tree and committer, the "
       "bundle kept in send mode is accepted in receive mode with the same tree, added leaves and applied set), unused_agree / receivers_report_committed (the result is a function of strategy, "
       "committer, resolved bundle and tree), applied_sublist, by_value_kept, one `Enforced` lemma per RFC rule (offender by value => commit fails; by reference => dropped; received => rejected), "
       "path_required_iff / path_required_agree, the canPropose sender/type table. Tie: every commit of random histories (valid + 9 kinds of offending by-reference proposals incl. colluding "
       "updates with colliding HPKE keys and Adds of key packages that are invalid by construction (hook Client::verif_generate_key_package_unchecked: default proposal / extension type "
       "listed in the capabilities, expired lifetime; also tried by value), by-value extras) is a `filter send` and a `filter receive` row (tree, ordered bundle -> applied set, path flag | error) replayed on the compiled model; "
       "direct oracle: every receiver accepts and reports the committer's applied / unused proposals. MlsVerif.Props.C10Lifetime: the key-package lifetime window is exact and inclusive, "
       "no clock = no verdict, a later receiver accepts until not_after; tie: directed scenario (key package with a chosen window, commit_time before / inside / after it, by value and by "
       "reference, receivers with clocks before / inside / after / none) as `life` rows on the model + oracle. Further directed scenarios (oracle only): a by-reference resumption PSK of an epoch "
       "the committer no longer retains (defect F35, fixed: dropped, reported unused), credential types (clients supporting [basic] / [basic, custom]; by value refused, by reference dropped, "
       "two mutually exclusive Adds: exactly one committed, all receivers agree), refused Updates (identities refused for one round), and the receive side: the committer's own commit re-signed with "
       "further proposals by reference / by value, unfiltered (hook edit WithProposals) — 11 rule-violating sets must be refused by every receiver on proposal-rule grounds, not later.",
  note="Trusted: Lean kernel; hand-written filter model validated by the rows; payload validity (signature, lifetime, capabilities, identity verdict, PSK presence) is an attribute of the abstract "
       "proposal. Group-context-extension and re-init mixes are proved on the model but not generated. Fixed defects found here: F1, F16 (revert-all lost leaves).",
  ref="DESIGN.md §4 C10"),
 "C18": dict(
  technique="Lean 4 proof (PSK chain injective in the ordered (id, nonce, value) list for an injective KDF; every epoch secret determines the PSK secret) + PSK-commit scenarios on real members, secrets recomputed by the model",
  text="Theorems MlsVerif.Props.C18: under FreePsk (extract / expand-with-label injective) psk_injective_iff, changing_any_component_changes_secret (value, id, nonce, order, count), "
       "epoch_binds_inputs / epoch_binds_psk_list / welcome_binds_psk_list (every secret of the new epoch and the Welcome key and nonce determine joiner secret, context and PSK list), "
       "holders_agree, too_many_psks_rejected; FreePsk is satisfiable (term-algebra Prim). Tie: per quick run 200 PSK commits on real members (external / resumption, by value / by reference, "
       "1-4 PSKs, per-member same / different / missing value, retention and join epoch) with the direct oracle (exactly the holders advance and agree; others reject unchanged; joiner needs the "
       "PSKs), ~1.6k rows where the compiled model recomputes psk_secret byte for byte under variations of value / id / nonce / order / count, and `eks` rows: for every path-less PSK commit of those scenarios "
       "the secrets of the epoch the REAL group entered and the commit's confirmation tag are recomputed by KS.epochOfCommit (theorems commit_epoch_binds_psk_list, commit_holders_agree) from the previous init secret, the new "
       "context and the commit's PSK list - ids and nonces as sent, in the order of the commit message (hook verif_commit_proposals; references resolved against the committer's cache), values from the harness's own bookkeeping. MlsVerif.Props.C18Repo: the repository's own lookup path for resumption "
       "secrets (Repo.resumptionSecret) returns what the epoch lookup returns (hence available exactly inside the retention window of C19), is read-only, and a PSK of another group never "
       "comes out of this group's caches (fix F32); tie: `repo.psk` rows of the storage scenarios (hook verif_resumption_secret_available) on both providers.",
  note="Trusted: Lean kernel; injective-KDF idealisation (a real hash is not injective: the theorem is the symbolic statement); Lean HKDF reference for the byte rows; harness.",
  ref="DESIGN.md §4 C18"),
 "C12": dict(
  technique="Lean 4 proof (generic codec model: round trip, exact size, canonical re-encoding, minimal varints, in-bounds prefixes, allocation bound, totality; side conditions decided for every schema and every codec record generated from the Rust types, incl. the hand-written codecs) + translator + decode correspondence on valid / mutated / random bytes and on real messages and stored state",
  text="Theorems MlsVerif.Props.C12 hold for EVERY schema, value and byte string: roundtrip (needs Progress), size_exact, decode_wf, decode_consumes_prefix, decode_progress (no loop: the "
       "decoders are total structural recursions), canonical (needs Canon: no bool, no map - machine-checked counter-witnesses for both), decode_reencode_stable, varint_unique / varint_minimal / "
       "varint_no_panic, prefix_in_bounds, alloc_bound. Props.C12Gen decides Progress and Canon for each of the ~93 schemas regenerated from the Rust items on every run. Props.C12Custom proves "
       "the law bundle Lawful (round trip with exact consumption, exact size, decoded values well-formed) for the hand-written codecs (Proposal incl. the reserved-type rule, Credential, "
       "PublicMessage, FramedContent / auth data, PrivateMessageContent padding, SecretKeyRatchet, CommitEffect, LeafIndex, ExtensionList); Props.C12GenCodecs proves it REFLECTIVELY "
       "(lawful_denote + decide on okSpec) for the 53 codec records the translator composes from derived and hand-written parts: MlsMessage, PublicMessage, AuthenticatedContent, Commit, "
       "UpdatePath, Proposal, LeafNode, KeyPackage, Node, exported tree, Credential, Snapshot, RawGroupState, PriorEpoch, SecretTree, PendingCommit, ExternalSnapshot, ... Tie: ~22k rows per "
       "quick run: `dec` rows over 85 decodable schema types (every generated schema whose Rust type has a decoder, incl. module-private ones through probe hooks; the 16 others are encode-only or test-only, listed with reasons) (structured-valid, mutated, random bytes) and ~4.5k `decc` rows where the composed codec models decode real and mutated "
       "messages, key packages, GroupInfo, exported trees, snapshots, prior epochs and commit secrets harvested from random group histories; zero tolerated differences; plus the direct oracle "
       "(no panic, exact length, canonical wire types, produced values round-trip, measured peak heap, a clock-free work bound - at most 2n+4 element decodes for n input bytes over containers of zero-size and "
       "one-byte elements - and a per-call deadline: a watchdog thread reports type, phase and input of a single codec call that does not return within 20 s).",
  note="Trusted: Lean kernel; schema / codec extractor (validated by the rows). Stated deviations of the code from the property text, proved as witnesses: bool accepts any non-zero byte and maps "
       "accept any key order (non-canonical, state types only: no wire type contains either - repo_canon / wire_flags), vectors of zero-size elements do not round-trip (no repository type has "
       "one), ratchet history accepts duplicate generations. Canonicity of the composed WIRE codecs is checked by the rows and the oracle, not proved. Fixed defect found here: F33 (proposal type 0).",
  ref="DESIGN.md §4 C12"),
 "C14": dict(
  technique="Lean 4 proof (model of the generic HPKE / DHKEM construction over an abstract primitive record: receiver context = sender context, seal/open sequences, nonce injectivity, export, psk rules, cross-provider interop; abstract X.509 verdict) + byte-level correspondence of the real Hpke/DhKem code and of each provider's hash/MAC/HKDF with the Lean reference + three-provider differential + mixed-provider group histories",
  text="Theorems MlsVerif.Props.C14 (32): setup_agree / setup_agree_fail (base and psk mode), seal_open_seq for every message list, open_wrong_aad, open_out_of_order, nonce_injective, "
       "seq_never_wraps, no_nonce_reuse, export_agree, export_only, psk_rules, dhkem_correct / dhkem_kem_correct / kem_context_binds / dhkem_shared_secret / dhkem_sampling, interchangeable "
       "(every operation is a function of the primitive record) and interop (a context / ciphertext produced on one record continues / opens on another that agrees on the KDF and "
       "decapsulates what the first encapsulated); X.509: verdict_time_window, verdict_reject_cases, verdict_anchor_monotone, verdict_prefix. Tie per quick run: ~1.4k rows where the compiled "
       "Lean model recomputes hash, HMAC, HKDF of every provider and the key / nonce sequence / export / DHKEM shared secret / dkp_prk / derived secret key / rejection-sampling candidates of "
       "the REAL generic Hpke and DhKem code driven with scripted KEM/DH and a recording AEAD over each provider's KDF (RFC 9180 vectors reproduced); ~7.9k side-by-side primitive cases over "
       "all providers and common suites incl. empty / boundary lengths, wrong key / nonce / tag, malformed keys, every (sealer, opener) and (signer, verifier) pair; 1.6k X.509 rows "
       "(3 validators x generated chains x boundary times) against the model verdict; 14 mixed-provider group histories over suites 1-7 with the C01 agreement oracle; an audit section with fixed inputs: NIST public-key encodings (infinity, hybrid, compact, "
       "compressed, off-curve, wrong length), X25519 low-order keys (validate / seal / forged open), kem_generate secret formats and cross-use, X.509 outer signatureAlgorithm mismatch, trailing DER bytes, "
       "crafted subjects through the three readers (panic / identity), AEAD and HPKE degenerate inputs — every divergence has a class of its own, matched exactly against the recorded findings F18-F23, F42-F46.",
  note="Trusted: Lean kernel; abstract-primitive hypotheses (KEM/DH correctness, AEAD inverse and binding); no Lean model of AES-GCM / ChaCha20-Poly1305 / curves / signatures - those are "
       "compared between providers only; harness. Defects found and fixed here: F24-F30 (RustCrypto nonce-length panic, OpenSSL nonce length, AWS-LC X25519 key length, AWS-LC HKDF guards, "
       "AWS-LC empty plaintext, OpenSSL expand length 0, OpenSSL NO_CHECK_TIME). Recorded known findings: F18-F23 (HMAC empty key, malformed signature secret keys, notAfter boundary, anchor "
       "path length, reordered intermediates, trailing certificates).",
  ref="DESIGN.md §4 C14"),
}
PENDING_REASON = "check not built yet in this session (planned, see DESIGN.md §8); not claimed until its check exists"

checks = []
for p in props:
    pid = p["id"]
    if pid in CLAIMED:
        c = CLAIMED[pid]
        checks.append({
            "property_id": pid,
            "quick_cmd": f"./check {pid} --tier quick",
            "thorough_cmd": f"./check {pid} --tier thorough",
            "evidence_file": f"/verif/evidence/{pid}.json",
            "replay_cmd_template": f"./check {pid} --replay {{path}}",
            "engine": "lean4+vharness",
            "level_claimed": {"category": c.get("category", "proof"), "text": c["text"], "design_ref": c["ref"]},
            "level_note": c["note"],
            "technique": c["technique"],
        })
na = [{"property_id": p["id"], "reason": PENDING_REASON} for p in props if p["id"] not in CLAIMED]
hooks = subprocess.run(["git", "-C", "/repo", "log", "--format=%H %s", "--grep=^verif hooks"], capture_output=True, text=True).stdout.strip().splitlines()
m = {
 "version": 1,
 "setup_cmd": "./check --setup",
 "hooks": {
  "guard": "cargo feature `verif` of crate mls-rs (off by default)",
  "enable": "harness/Cargo.toml depends on mls-rs with features [\"verif\", ...]; the library itself is unchanged without the feature",
  "baseline_off_cmd": "cd /repo && cargo nextest run --workspace --no-fail-fast --tool-config-file pb:/w/lib/nextest.toml --profile pb --test-threads 8 --offline || cargo test --workspace --no-fail-fast --offline",
  "source_commits": [h.split()[0] for h in hooks],
  "add_only": True,
 },
 "engines": [
  {"name": "lean4", "path": "/verif/lean", "serves_properties": sorted(CLAIMED), "kind_free_text": "Lean 4 models, specs and property theorems (lake project MlsVerif) + compiled model driver mlsmodel"},
  {"name": "vharness", "path": "/verif/harness", "serves_properties": sorted(CLAIMED), "kind_free_text": "Rust harness calling the real crates in-process; correspondence streams and direct oracles"},
 ],
 "checks": checks,
 "not_applicable": na,
 "notes": "Technique family: machine-checked proof in Lean 4 with a checked tie (correspondence and/or translation) to /repo on every run. See DESIGN.md.",
}
json.dump(m, open(os.path.join(V, "MANIFEST.json"), "w"), indent=1)
print("claimed:", sorted(CLAIMED), "pending:", len(na))
