#!/usr/bin/env python3
"""Writes /verif/MANIFEST.json from the table below (kept in one place so the file is always valid)."""
import json, os, subprocess
V = os.path.dirname(os.path.dirname(os.path.abspath(__file__)))
props = [json.loads(l) for l in open(os.path.join(V, "properties.jsonl"))]

CLAIMED = {
 "C20": dict(
  technique="Lean 4 proof (model = recursive RFC 9420 App. C spec, all heights/nodes) + exhaustive table correspondence with the real tree math",
  text="Theorems MlsVerif.Props.C20 (16, no sorry, axioms propext/Classical.choice/Quot.sound) prove for every height k and every node "
       "that the Nat model of math.rs equals the structurally recursive in-order perfect-tree specification (root, parent, sibling, children, "
       "direct path/copath, LCA in both forms the code uses, leaf range, BFS order, out-of-tree reporting, no u32 overflow up to 2^24 leaves). "
       "The model is tied to the code on every run by comparing complete function tables of the real crate (hook verif::tree_math) with the "
       "compiled model: exhaustive for 2^0..2^12 leaves incl. 3 indices beyond the tree, all leaf pairs for the LCA level, sampled sizes to 2^24.",
  note="Trusted: Lean kernel; the Nat transliteration of math.rs (validated by the exhaustive table comparison, not generated); harness and driver. "
       "Leaf counts are assumed powers of two as produced by NodeVec::total_leaf_count (rows 'tlc' check that function too).",
  ref="DESIGN.md §4 C20"),
 "C13": dict(
  technique="Lean 4 proof (code-structured key schedule / lazy secret tree / PSK fold = RFC 9420 §8-9 spec, any KDF) + byte-level correspondence with a Lean HKDF/HMAC/SHA-2 reference",
  text="Theorems MlsVerif.Props.C13: for every primitive set and all inputs the model of key_schedule.rs / secret_tree.rs / psk/secret.rs "
       "equals the RFC-structured specification: every epoch secret, welcome key/nonce, exporter, the PSK fold = the RFC recursion for any list length, "
       "every key of the lazily consumed secret tree after ANY request sequence = the spec key of (leaf, type, generation), ratchet keys independent of "
       "request order. Tie: on every run the real crate (hook verif::kdf; RustCrypto and OpenSSL, suites 1-7) and the model instantiated with a Lean "
       "reference HKDF/HMAC/SHA-2 are run on fresh random inputs and compared byte for byte (~58k derivations quick).",
  note="Trusted: Lean kernel; Lean SHA-2/HMAC/HKDF reference (checked against published vectors and python hashlib, not proved); hand-written model validated by the "
       "byte-level correspondence. Straight-line parts of the schedule are near-rfl; content is in the secret tree, ratchet, PSK chain. Transcript hashes / membership "
       "tags are modelled (KS.confirmedTranscriptHash etc.) but their correspondence needs real messages and is exercised by the group-level checks. "
       "Finding kept in Props: a non-leaf index given to SecretTree returns a key the RFC does not define (nonleaf_request_succeeds) — unreachable through Group.",
  ref="DESIGN.md §4 C13"),
 "C05": dict(
  technique="Lean 4 proof (single-use, exact window, permutation completeness, injectivity under free KDF) + ratchet correspondence + nonce/replay oracle on real groups",
  text="Theorems MlsVerif.Props.C05 over the ratchet/secret-tree model: a generation handed out once is never handed out again (handed_out_once, any request list), "
       "the acceptance window is exactly [gen, gen+1024] plus stored skipped keys (window_exact), every permutation of an in-window set yields each key exactly once "
       "(permutation_complete), sender generations increase by one (sender_fresh*), and under a collision-free KDF distinct (leaf, type, generation) give distinct "
       "(key, nonce) so application and handshake never share keys (key_injective, proved non-vacuous for a term algebra). Tie: request scripts of the real secret tree vs the "
       "compiled model; direct oracle on real groups: the RecordingProvider log of every aead_seal has no repeated (key, nonce), every ciphertext is accepted exactly once "
       "under permuted/duplicated delivery with reloads, and the 1024 boundary is exact.",
  note="Trusted: Lean kernel, model validated by correspondence, harness oracles. Excluded and stated: u32 generation overflow within 2048 of 2^32 (counterexample "
       "permutation_near_overflow in the Props file), state roll-back to an older snapshot, real AEAD/KDF collision resistance (FreePrim hypothesis).",
  ref="DESIGN.md §4 C05"),
 "C11": dict(
  technique="Lean 4 proof (pending-commit state machine: invariant by induction over all op lists) + exhaustive interleaving enumeration on real groups replayed on the model",
  text="Theorems MlsVerif.Props.C11 over the pending-commit machine (build / detached build / clear / apply / apply-detached / deliver): an invariant proved for every "
       "reachable world (inv_reachable, hist_reachable), building a commit changes no member's state, clear restores, committer and receivers reach the same state, a foreign "
       "commit discards the pending one, at most one pending commit, only commits of the current epoch are accepted, stale detached secrets are rejected and leave the "
       "world unchanged, every epoch move is exactly +1. Tie: every op sequence up to depth 4 (quick, 12k sequences) / 5 (thorough, 171k) is executed on real groups "
       "(cloned at each DFS node) and replayed on the compiled model; per op ok/err and every member's (epoch, state class, pending flag) are compared; direct oracle: "
       "a failing op changes nothing, epochs move by 0/+1.",
  note="Trusted: Lean kernel; hand model validated exhaustively at the stated depth; enumerated commits are empty (content covered elsewhere). The model abstracts the "
       "error kind of a same-epoch commit from another branch (rejected cryptographically).",
  ref="DESIGN.md §4 C11"),
 "C16": dict(
  technique="Lean 4 proof (epoch admission / observer window exact, monotone, no underflow) + observers on random real histories with the window replayed on the model",
  text="Theorems MlsVerif.Props.C16: a ciphertext of epoch m is admitted by an observer at epoch e with jitter j iff e <= m + j (window_exact), handshake messages only in "
       "the current epoch, the bound never underflows for any u64 epoch/jitter (no_underflow), jitter >= epoch admits everything, monotone in jitter, wrong group/version "
       "rejected. Tie: up to 6 observers per random history with public handshake (started at random epochs, every jitter class incl. > epoch, 2^63, 2^64-1, snapshot/"
       "restore) must equal the members' context, roster and tree after every commit and must never panic; every ciphertext delivery is an `adm` row replayed on the model.",
  note="Trusted: Lean kernel, model validated by the `adm` correspondence, harness oracle for 'tracks the members'. That the observer's commit processing equals the members' "
       "is shown by the oracle and by the shared tree-layer model (C01/C08), not by a separate theorem. External proposals issued by the observer are not generated yet.",
  ref="DESIGN.md §4 C16"),
 "C17": dict(
  technique="Lean 4 proof (membership check <-> same identities / subset; join parameter checks; freeze) + re-init/branch scenarios on the real library replayed on the model",
  text="Theorems MlsVerif.Props.C17: for duplicate-free identity lists the re-init check holds iff the successor has exactly the old identities (any order, any old tree shape), "
       "the branch check iff subset; supersets and replaced identities are refused; joinChecks_ok_iff characterises every parameter check (version, suite, epoch 1, group id, "
       "extensions) with one lemma per mismatch; frozen_after_reinit. Tie: random old groups (2-7 members, interior blank leaves, re-keyed members) x successor kind x member set "
       "(equal/subset/superset/replaced) on the real library: creation, every old member's join, outsider and plain-join refusal, freeze of the old group; `sub` rows replayed on the model.",
  note="Trusted: Lean kernel; identities abstracted to numbers (IdentityProvider::identity); the resumption-PSK binding itself is cryptographic (C18/C13). Parameter-change "
       "paths are proved on the model but only the unchanged-parameter path is exercised on the implementation.",
  ref="DESIGN.md §4 C17"),
}
PENDING_REASON = "check not built yet in this session (planned, see DESIGN.md §8); not claimed until its check exists"

checks = []
for p in props:
    pid = p["id"]
    if pid in CLAIMED:
        c = CLAIMED[pid]
        checks.append({
            "property_id": pid,
            "quick_cmd": f"./check {pid} --tier quick",
            "thorough_cmd": f"./check {pid} --tier thorough",
            "evidence_file": f"/verif/evidence/{pid}.json",
            "replay_cmd_template": f"./check {pid} --replay {{path}}",
            "engine": "lean4+vharness",
            "level_claimed": {"category": c.get("category", "proof"), "text": c["text"], "design_ref": c["ref"]},
            "level_note": c["note"],
            "technique": c["technique"],
        })
na = [{"property_id": p["id"], "reason": PENDING_REASON} for p in props if p["id"] not in CLAIMED]
hooks = subprocess.run(["git", "-C", "/repo", "log", "--format=%H %s", "--grep=^verif hooks"], capture_output=True, text=True).stdout.strip().splitlines()
m = {
 "version": 1,
 "setup_cmd": "./check --setup",
 "hooks": {
  "guard": "cargo feature `verif` of crate mls-rs (off by default)",
  "enable": "harness/Cargo.toml depends on mls-rs with features [\"verif\", ...]; the library itself is unchanged without the feature",
  "baseline_off_cmd": "cd /repo && cargo nextest run --workspace --no-fail-fast --tool-config-file pb:/w/lib/nextest.toml --profile pb --test-threads 8 --offline || cargo test --workspace --no-fail-fast --offline",
  "source_commits": [h.split()[0] for h in hooks],
  "add_only": True,
 },
 "engines": [
  {"name": "lean4", "path": "/verif/lean", "serves_properties": sorted(CLAIMED), "kind_free_text": "Lean 4 models, specs and property theorems (lake project MlsVerif) + compiled model driver mlsmodel"},
  {"name": "vharness", "path": "/verif/harness", "serves_properties": sorted(CLAIMED), "kind_free_text": "Rust harness calling the real crates in-process; correspondence streams and direct oracles"},
 ],
 "checks": checks,
 "not_applicable": na,
 "notes": "Technique family: machine-checked proof in Lean 4 with a checked tie (correspondence and/or translation) to /repo on every run. See DESIGN.md.",
}
json.dump(m, open(os.path.join(V, "MANIFEST.json"), "w"), indent=1)
print("claimed:", sorted(CLAIMED), "pending:", len(na))
