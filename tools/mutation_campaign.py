#!/usr/bin/env python3
"""Mechanical mutation campaign: small syntactic mutants of the anchored source files of /repo that compile and survive the
unit tests of the touched crate are run against the quick checks of the properties anchored in that file.

Meant to run on COPIES of /repo and /verif inside a mount namespace (see DESIGN.md section 14.2):
  unshare --mount bash -c 'mount --bind <repo copy> /repo && mount --bind <verif copy> /verif && cd /verif && \
      python3 tools/mutation_campaign.py --n 150 --seed 7 --out /root/work/mv/out.jsonl'
Every mutant is one changed line; survivors (not reported by any check) are listed for manual triage: an equivalent mutant, a
behaviour outside every property, or a hole in a check."""
import argparse, json, os, random, re, subprocess, sys, time

REPO = "/repo"
V = "/verif"
ENV = dict(os.environ, CARGO_NET_OFFLINE="true")


def sh(cmd, cwd=None, timeout=3600):
    # own process group, so that a hanging test binary (a mutant that loops) is killed together with cargo
    p = subprocess.Popen(cmd, shell=True, cwd=cwd, stdout=subprocess.PIPE, stderr=subprocess.STDOUT, text=True, env=ENV, start_new_session=True)
    try:
        out, _ = p.communicate(timeout=timeout)
        return p.returncode, out
    except subprocess.TimeoutExpired:
        import signal
        os.killpg(p.pid, signal.SIGKILL)
        p.communicate()
        return 124, "TIMEOUT"


OPS = [
    (r"(?<![<>=!-])<=(?!=)", "<", "le->lt"),
    (r"(?<![<>=!-])>=(?!=)", ">", "ge->gt"),
    (r"(?<![<>=!&|-])<(?![<=])(?=\s)", "<=", "lt->le"),
    (r"(?<![<>=!|&-])(?<=\s)>(?![>=])(?=\s)", ">=", "gt->ge"),
    (r"==", "!=", "eq->ne"),
    (r"!=", "==", "ne->eq"),
    (r"&&", "||", "and->or"),
    (r"\|\|", "&&", "or->and"),
    (r"\+ 1\b", "+ 2", "plus1->plus2"),
    (r"- 1\b", "- 0", "minus1->minus0"),
    (r"\+ 1\b", "+ 0", "plus1->plus0"),
    (r"\.rev\(\)", "", "drop-rev"),
    (r"\.skip\(1\)", ".skip(0)", "skip1->skip0"),
    (r"saturating_sub", "wrapping_sub", "saturating->wrapping"),
    (r"\.is_some\(\)", ".is_none()", "some->none"),
    (r"\.is_none\(\)", ".is_some()", "none->some"),
    (r"\.is_empty\(\)", ".len() == 1", "empty->len1"),
    (r"\btrue\b", "false", "true->false"),
    (r"\bfalse\b", "true", "false->true"),
    (r"\.then_some\(\(\)\)\s*\.ok_or\(([^;]*?)\)\?;", ";", "drop-check"),
    (r"^(\s*)(\w[\w\.]*\([^;]*\))\?;\s*$", r"\1let _ = \2;", "ignore-result"),
    (r"^(\s*)return Err\(([^;]*)\);\s*$", r"\1let _ = \2;", "drop-return-err"),
    (r"\bif (?!let\b)([^{]+) \{\s*$", "if false {", "if->false"),
    (r"\bif (?!let\b)([^{]+) \{\s*$", "if true {", "if->true"),
    (r"\bif !", "if ", "drop-not"),
    (r"\.min\(", ".max(", "min->max"),
    (r"\.max\(", ".min(", "max->min"),
    (r"\.any\(", ".all(", "any->all"),
    (r"\.all\(", ".any(", "all->any"),
    (r"\.filter\(\|[^|]*\| ", lambda m: m.group(0) + "!", "negate-filter"),
    (r"\bcontinue;", "break;", "continue->break"),
    (r"\bbreak;", "continue;", "break->continue"),
]


def prop_files():
    files = {}
    for l in open(os.path.join(V, "properties.jsonl")):
        p = json.loads(l)
        for f in p["anchors"]["files"]:
            files.setdefault(f, []).append(p["id"])
    return files


OFF_CFG = re.compile(r"#\[cfg\((not\(feature|all\(not\(feature|mls_build_async|feature = \"(self_remove_proposal|gsma_rcs_e2ee_feature|export_key_generation|"
                     r"non_domain_separated_hpke_encrypt_decrypt|last_resort_key_package_ext|replace_proposal|arbitrary|ffi|serde|test_util|benchmark_util|"
                     r"benchmark_pq_crypto|by_ref_proposal_no_out_of_order|verif)\")")


def candidates(path, rel):
    src = open(path).read().split("\n")
    out = []
    skip_until = -1
    for i, line in enumerate(src):
        if re.search(r"#\[cfg\((all\()?test", line):
            nxt = " ".join(src[i + 1:i + 3])
            if re.search(r"\bmod\s+\w+\s*\{", nxt):
                break  # test module: the rest of the file is test code in this code base
            skip_until = max(skip_until, i + 2)  # a single test-only item / import
        if OFF_CFG.search(line):
            skip_until = max(skip_until, i + 8)  # code compiled out under the default features: mutants there are equivalent
        if i <= skip_until:
            continue
        st = line.strip()
        if not st or st.startswith("//") or st.startswith("#[") or "verif" in line or st.startswith("use ") or "error(" in line:
            continue
        for (pat, rep, name) in OPS:
            for m in re.finditer(pat, line):
                new = line[:m.start()] + re.sub(pat, rep, line[m.start():], count=1)
                if new != line:
                    out.append((rel, i, name, line, new))
    return out


def crate_of(rel):
    return rel.split("/")[0]


def unit_tests(crate):
    extra = " --lib" if crate == "mls-rs" else ""
    feat = " --features x509" if crate == "mls-rs-crypto-rustcrypto" else ""
    rc, out = sh(f"cd {REPO} && cargo test -p {crate}{extra}{feat} --offline 2>&1 | grep -E 'test result|error(\\[|: could not)' | head -20", timeout=900)
    if out == "TIMEOUT":
        return "killed-by-tests", ["timeout: the unit tests hang"]
    lines = out.strip().splitlines()
    if any("could not compile" in l or "error[" in l for l in lines) or not any("test result" in l for l in lines):
        return "compile-error", lines
    failed = sum(int(x) for l in lines for x in re.findall(r"(\d+) failed", l))
    return ("pass" if failed <= 1 else "killed-by-tests"), lines


def main():
    ap = argparse.ArgumentParser()
    ap.add_argument("--n", type=int, default=100)
    ap.add_argument("--seed", type=int, default=1)
    ap.add_argument("--out", default="/root/work/mv/out.jsonl")
    ap.add_argument("--files", default="")
    ap.add_argument("--skip", default="", help="jsonl of an earlier campaign: lines already tried are not repeated")
    a = ap.parse_args()
    rng = random.Random(a.seed)
    pf = prop_files()
    cands = []
    for rel, props in sorted(pf.items()):
        if a.files and not re.search(a.files, rel):
            continue
        path = os.path.join(REPO, rel)
        if os.path.exists(path) and rel.endswith(".rs"):
            cands += [(c, props) for c in candidates(path, rel)]
    rng.shuffle(cands)
    skip = set()
    for sf in [x for x in a.skip.split(",") if x and os.path.exists(x)]:
        for l in open(sf):
            r = json.loads(l)
            skip.add((r["file"], r["line"]))
    print(f"{len(cands)} candidate mutants in {len(pf)} files", flush=True)
    done = 0
    seen_lines = set()
    with open(a.out, "a") as fo:
        for (rel, i, name, old, new), props in cands:
            if done >= a.n:
                break
            if (rel, i) in seen_lines or (rel, i + 1) in skip:
                continue
            seen_lines.add((rel, i))
            path = os.path.join(REPO, rel)
            src = open(path).read().split("\n")
            if src[i] != old:
                continue
            src[i] = new
            open(path, "w").write("\n".join(src))
            rec = {"file": rel, "line": i + 1, "op": name, "old": old.strip(), "new": new.strip(), "props": props}
            t0 = time.time()
            try:
                verdict, lines = unit_tests(crate_of(rel))
                rec["unit_tests"] = verdict
                if verdict == "pass":
                    checks = {}
                    for p in props:
                        rc, out = sh(f"cd {V} && ./check {p} --tier quick", timeout=2400)
                        viol = [l for l in out.splitlines() if l.startswith("VIOLATION")]
                        kinds = []
                        for l in viol:
                            m = re.search(r"replay=(\S+)", l)
                            if m and os.path.exists(m.group(1)):
                                try:
                                    kinds.append(json.load(open(m.group(1))).get("kind"))
                                except Exception:
                                    pass
                        checks[p] = {"rc": rc, "kinds": kinds}
                    rec["checks"] = checks
                    rec["caught"] = any(c["rc"] != 0 for c in checks.values())
                    done += 1
            finally:
                src[i] = old
                open(path, "w").write("\n".join(src))
            rec["s"] = round(time.time() - t0)
            fo.write(json.dumps(rec) + "\n")
            fo.flush()
            print(json.dumps({k: rec[k] for k in ("file", "line", "op", "unit_tests") if k in rec} | {"caught": rec.get("caught")}), flush=True)


if __name__ == "__main__":
    main()
