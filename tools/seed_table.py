#!/usr/bin/env python3
"""Regenerate the table of DESIGN.md section 14 from /verif/seeded/results.json and the seeds' meta.json."""
import json, os, re
V = "/verif"
res = json.load(open(os.path.join(V, "seeded", "results.json")))
rows = ["| seed | property | what the change does | compiles / tests unchanged | own check | other checks that report it | how it was caught |", "|---|---|---|---|---|---|---|"]
for sid in sorted(res):
    r = res[sid]
    meta = {}
    mp = os.path.join(V, "seeded", sid, "meta.json")
    if os.path.exists(mp):
        try:
            meta = json.load(open(mp))
        except Exception:
            pass
    summ = (meta.get("summary") or meta.get("mechanism") or "").replace("|", "/").replace("\n", " ")
    summ = summ[:230] + ("…" if len(summ) > 230 else "")
    if not r.get("applies", True):
        rows.append(f"| {sid} | {r['property']} | {summ} | patch no longer applies (code changed by a later fix) | – | – | – |")
        continue
    own = r["checks"].get(r["property"], {})
    others = [p for p, c in r["checks"].items() if p != r["property"] and c["rc"] != 0]
    kinds = sorted(set(own.get("kinds", [])))
    okc = "yes" if r.get("compiles") else "?"
    tf = r.get("tests_failed", 0)
    rows.append(f"| {sid} | {r['property']} | {summ} | {okc} / {'yes' if tf <= len(r.get('crates', [1])) else 'NO'} | {'**caught**' if own.get('rc') else 'missed'} | {', '.join(others) or '–'} | {', '.join(kinds) or '–'} |")
n = len([1 for r in res.values() if r.get("applies", True)])
c_own = len([1 for r in res.values() if r.get("caught_by_own")])
c_any = len([1 for r in res.values() if r.get("caught")])
table = "\n".join(rows) + f"\n\n{n} seeds evaluated: {c_own} reported by the property's own check, {c_any} by at least one check.\n"
p = os.path.join(V, "DESIGN.md")
s = open(p).read()
if "SEED_TABLE_PLACEHOLDER" in s:
    s = s.replace("SEED_TABLE_PLACEHOLDER", "<!-- seed table start -->\n" + table + "<!-- seed table end -->")
else:
    s = re.sub(r"<!-- seed table start -->.*<!-- seed table end -->", lambda m: "<!-- seed table start -->\n" + table + "<!-- seed table end -->", s, flags=re.S)
open(p, "w").write(s)
print(table[-300:])
