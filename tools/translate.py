#!/usr/bin/env python3
"""Rust -> Lean translator.  Regenerates /verif/lean/MlsVerif/Gen/*.lean from the /repo working tree:

  Gen/Pipelines.lean   step lists (may-fail / mutates) of the member operations named in PIPELINES, in source
                       order, for the atomicity theorems of C04 / C15 (Props/C04.lean)
  Gen/Tables.lean      constants the models depend on (limits, label strings, discriminants)
  Gen/Schemas.lean     wire/state schemas of every `#[derive(MlsSize/MlsEncode/MlsDecode)]` item that the
                       translator can resolve (C12)
  Gen/Codecs.lean      codec expressions (derive layout + hand models of Model/CodecCustom.lean) of the items that are
                       not plain schemas (C12); Gen/codecs.txt: their names with the WIRE / STATE flag

The output directory is /verif/lean/MlsVerif/Gen unless the environment variable VERIF_OUT names another one.

A construct the translator cannot parse is an error (exit 1), never a guess.  gen_manifest.json records the
source hashes and the item lists."""
import hashlib, json, os, re, sys

REPO = os.environ.get("VERIF_REPO", "/repo")
OUT = os.environ.get("VERIF_OUT", "/verif/lean/MlsVerif/Gen")

# ------------------------------------------------------------------------------------------------------------
# helpers


def read(path):
    return open(os.path.join(REPO, path)).read()


def strip_comments(src):
    src = re.sub(r"/\*.*?\*/", "", src, flags=re.S)
    out = []
    for line in src.splitlines():
        # keep strings intact enough: only cut `//` that is not inside a string literal
        m = re.search(r'(?<!:)//', line)
        if m and line[:m.start()].count('"') % 2 == 0:
            line = line[:m.start()]
        out.append(line)
    return "\n".join(out)


def fn_body(src, name, nth=0):
    """Body text (between the outermost braces) of the nth `fn name(`."""
    idxs = [m.start() for m in re.finditer(r"\bfn\s+" + re.escape(name) + r"\s*[<(]", src)]
    if len(idxs) <= nth:
        raise SystemExit(f"translate: fn {name} (#{nth}) not found")
    i = src.index("{", src.index(")", idxs[nth]) if False else idxs[nth])
    # find the opening brace of the body: first `{` after the parameter list closes at depth 0
    depth = 0
    j = idxs[nth]
    while True:
        c = src[j]
        if c == "(":
            depth += 1
        elif c == ")":
            depth -= 1
            if depth == 0:
                break
        j += 1
    i = src.index("{", j)
    depth = 0
    k = i
    while True:
        c = src[k]
        if c == "{":
            depth += 1
        elif c == "}":
            depth -= 1
            if depth == 0:
                return src[i + 1:k]
        k += 1


# ------------------------------------------------------------------------------------------------------------
# pipelines

# callees that mutate the member behind a call (field they touch); a `?` on such a call is a `both` step
MUTATING_CALLS = {
    "insert_past_epoch": "state_repo.pending_inserts",
    "decryption_key": "epoch_secrets.secret_tree",
    "update_key_schedule": "epoch-state",
    "apply_detached_commit": "epoch-state",
    "apply_pending_commit": "epoch-state",
}

PIPELINES = [
    # (lean name, file, fn, nth occurrence, receiver prefix)
    ("update_key_schedule", "mls-rs/src/group/mod.rs", "update_key_schedule", 0),
    ("group_apply_update_path", "mls-rs/src/group/mod.rs", "apply_update_path", 0),
    ("apply_detached_commit", "mls-rs/src/group/mod.rs", "apply_detached_commit", 0),
    ("apply_pending_commit", "mls-rs/src/group/mod.rs", "apply_pending_commit", 0),
    ("process_commit", "mls-rs/src/group/message_processor.rs", "process_commit", 0),
    ("write_to_storage", "mls-rs/src/group/state_repo.rs", "write_to_storage", 0),
    ("state_repo_insert", "mls-rs/src/group/state_repo.rs", "insert", 0),
    ("ciphertext_open", "mls-rs/src/group/ciphertext_processor.rs", "open", 0),
]

MUT_RE = re.compile(
    r"(self(?:\.group_state_mut\(\))?(?:\.\w+)+)\s*(?:=(?!=)|\.clear\(\)|\.push(?:_back)?\(|\.insert\(|\.remove\(|\.pop\(\))"
    r"|core::mem::take\(&mut\s+(self(?:\.\w+)+)\)")


def pipeline_steps(body):
    """Events in textual order.  Statement granularity: split on `;` at any depth (good enough: an
    expression statement with `?` and a mutation on the same statement becomes one `both` step)."""
    steps = []
    for stmt in body.split(";"):
        s = " ".join(stmt.split())
        if not s:
            continue
        fall = "?" in re.sub(r'"[^"]*"', "", s) or re.search(r"\breturn\s+Err\(", s) is not None \
            or re.search(r"\bErr\(MlsError::", s) is not None and s.rstrip().endswith(")")
        muts = []
        for m in MUT_RE.finditer(s):
            f = m.group(1) or m.group(2)
            f = f.replace("self.group_state_mut().", "state.").replace("self.", "")
            # `let x = self.a.b` style reads are not matched (needs `=` after the path); `==` excluded
            muts.append(f)
        call_mut = None
        for callee, field in MUTATING_CALLS.items():
            if re.search(r"\bself\s*\.\s*" + callee + r"\s*\(", s) or re.search(r"\.\s*" + callee + r"\s*\(", s) and "self" in s:
                call_mut = (callee, field)
        label = re.sub(r"[^A-Za-z0-9_ .:()]", "", s)[:60]
        if call_mut and fall:
            steps.append(("both", call_mut[0], call_mut[1]))
        elif call_mut:
            steps.append(("mutate", call_mut[1]))
        elif muts and fall:
            # e.g. `self.x = f()?` : the right-hand side fails before the assignment
            steps.append(("both", label, muts[0]))
            for f in muts[1:]:
                steps.append(("mutate", f))
        elif muts:
            for f in muts:
                steps.append(("mutate", f))
        elif fall:
            steps.append(("fallible", label))
    return steps


def gen_pipelines(manifest):
    out = ["/- GENERATED by tools/translate.py from the Rust sources; do not edit. -/",
           "import MlsVerif.Model.Pipeline", "namespace MlsVerif.Gen.Pipelines", "open MlsVerif.Pipeline", ""]
    names = []
    for name, path, fn, nth in PIPELINES:
        src = strip_comments(read(path))
        body = fn_body(src, fn, nth)
        steps = pipeline_steps(body)
        if not steps:
            raise SystemExit(f"translate: no steps extracted from {fn} in {path}")
        out.append(f"/-- `{fn}` in `{path}` -/")
        out.append(f"def {name} : List Step := [")
        lines = []
        for st in steps:
            if st[0] == "fallible":
                lines.append(f'  .fallible "{st[1]}"')
            elif st[0] == "mutate":
                lines.append(f'  .mutate "{st[1]}"')
            else:
                lines.append(f'  .both "{st[1]}" "{st[2]}"')
        out.append(",\n".join(lines))
        out.append("]\n")
        names.append(name)
        manifest["pipelines"][name] = {"file": path, "fn": fn, "steps": len(steps),
                                       "mutations": [s[-1] for s in steps if s[0] != "fallible"]}
    out.append("def all : List (String × List Step) := [" + ", ".join(f'("{n}", {n})' for n in names) + "]")
    out.append("end MlsVerif.Gen.Pipelines")
    return "\n".join(out) + "\n"


# ------------------------------------------------------------------------------------------------------------
# tables


def const_int(src, name):
    m = re.search(r"\b" + name + r"\s*:\s*\w+\s*=\s*([^;]+);", src)
    if not m:
        raise SystemExit(f"translate: constant {name} not found")
    e = m.group(1).strip()
    e = re.sub(r"\(1\s*<<\s*(\d+)\)", lambda k: str(1 << int(k.group(1))), e)
    e = re.sub(r"1\s*<<\s*(\d+)", lambda k: str(1 << int(k.group(1))), e)
    if not re.fullmatch(r"[\d\s+\-*()]+", e):
        raise SystemExit(f"translate: cannot evaluate constant {name} = {e}")
    return int(eval(e))


def gen_tables(manifest):
    node = strip_comments(read("mls-rs/src/tree_kem/node.rs"))
    st = strip_comments(read("mls-rs/src/group/secret_tree.rs"))
    mem = strip_comments(read("mls-rs/src/storage_provider/in_memory/group_state_storage.rs"))
    varint = strip_comments(read("mls-rs-codec/src/varint.rs"))
    ks = strip_comments(read("mls-rs/src/group/key_schedule.rs"))
    vals = {
        "maxLeafIndex": const_int(node, "MAX_LEAF_INDEX"),
        "maxRatchetBackHistory": const_int(st, "MAX_RATCHET_BACK_HISTORY"),
        "defaultEpochRetention": const_int(mem, "DEFAULT_EPOCH_RETENTION_LIMIT"),
    }
    m = re.search(r"MAX:\s*VarInt\s*=\s*VarInt\(\(1\s*<<\s*(\d+)\)\s*-\s*1\)", varint)
    if not m:
        raise SystemExit("translate: VarInt::MAX not found")
    vals["varintMax"] = (1 << int(m.group(1))) - 1
    labels = sorted(set(re.findall(r'b"([a-z ]+)"', ks)))
    # the prefix every label gets: `[b"MLS 1.0 ", label].concat()`, possibly through a constant
    prefix = re.search(r'\[b"(MLS 1\.0 )",\s*label\]', ks)
    if not prefix:
        cands = set(re.findall(r'b"(MLS \d\.\d )"', ks))
        if len(cands) != 1 or not re.search(r"\[\s*[\w:]+\s*,\s*label\s*\]\s*\.concat\(\)", ks):
            raise SystemExit("translate: label prefix not found")
        prefix = re.match(r"(.*)", cands.pop())
    labels = [l for l in labels if l + " " != prefix.group(1)]
    stl = sorted(set(re.findall(r'b"([a-z]+)"', st)))
    out = ["/- GENERATED by tools/translate.py from the Rust sources; do not edit. -/", "namespace MlsVerif.Gen.Tables", ""]
    for k, v in vals.items():
        out.append(f"def {k} : Nat := {v}")
    out.append(f'def labelPrefix : String := "{prefix.group(1)}"')
    out.append("def keyScheduleLabels : List String := [" + ", ".join(f'"{l}"' for l in labels) + "]")
    out.append("def secretTreeLabels : List String := [" + ", ".join(f'"{l}"' for l in stl) + "]")
    out.append("end MlsVerif.Gen.Tables")
    manifest["tables"] = dict(vals, labelPrefix=prefix.group(1), keyScheduleLabels=labels, secretTreeLabels=stl)
    return "\n".join(out) + "\n"


# ------------------------------------------------------------------------------------------------------------
# framing: which fields of a wire structure are covered by what is signed / MACed / used as AAD


def struct_fields(src, name):
    m = re.search(r"\bstruct\s+" + re.escape(name) + r"\b[^{;(]*\{", src)
    if not m:
        raise SystemExit(f"translate: struct {name} not found")
    i = m.end()
    depth = 1
    k = i
    while depth:
        c = src[k]
        depth += c == "{"
        depth -= c == "}"
        k += 1
    body = src[i:k - 1]
    body = re.sub(r"#\[[^\]]*\]", "", body)          # attributes
    fields = []
    for part in re.split(r",\s*\n", body):
        mm = re.match(r"\s*(?:pub(?:\([a-z]+\))?\s+)?(\w+)\s*:", part)
        if mm:
            fields.append(mm.group(1))
    if not fields:
        raise SystemExit(f"translate: no fields parsed for struct {name}")
    return fields


def encode_order(src, ty):
    """field order of a hand-written `impl MlsEncode for ty`: sequence of `self.<field>` uses in mls_encode"""
    m = re.search(r"impl(?:<[^>]*>)?\s+MlsEncode\s+for\s+" + re.escape(ty) + r"\b", src)
    if not m:
        raise SystemExit(f"translate: impl MlsEncode for {ty} not found")
    body = fn_body(src[m.start():], "mls_encode")
    out = []
    for f in re.findall(r"self\.(\w+)", body):
        if f not in out:
            out.append(f)
    return out


def gen_framing(manifest):
    fr = strip_comments(read("mls-rs/src/group/framing.rs"))
    ms = strip_comments(read("mls-rs/src/group/message_signature.rs"))
    mt = strip_comments(read("mls-rs/src/group/membership_tag.rs"))
    sd = strip_comments(read("mls-rs/src/group/ciphertext_processor/sender_data_key.rs"))
    gi = strip_comments(read("mls-rs/src/group/group_info.rs"))
    kp = strip_comments(read("mls-rs/src/key_package/mod.rs"))
    ln = strip_comments(read("mls-rs/src/tree_kem/leaf_node.rs"))
    lists = {
        "framedContent": struct_fields(fr, "FramedContent"),
        "publicMessage": struct_fields(fr, "PublicMessage"),
        "authData": struct_fields(ms, "FramedContentAuthData"),
        "tbs": encode_order(ms, "AuthenticatedContentTBS"),
        "tbm": struct_fields(mt, "AuthenticatedContentTBM"),
        "privateMessage": struct_fields(fr, "PrivateMessage"),
        "privateContentAad": struct_fields(fr, "PrivateContentAAD"),
        "senderDataAad": struct_fields(sd, "SenderDataAAD"),
        "senderData": struct_fields(sd, "SenderData"),
        "groupInfo": struct_fields(gi, "GroupInfo"),
        "groupInfoTbs": struct_fields(gi, "SignableGroupInfo"),
        "keyPackage": struct_fields(kp, "KeyPackage"),
        "keyPackageTbs": struct_fields(kp, "KeyPackageData"),
        "leafNode": struct_fields(ln, "LeafNode"),
        "leafNodeTbs": encode_order(ln, "LeafNodeTBS"),
    }
    names = sorted({f for l in lists.values() for f in l})
    code = {n: i + 1 for i, n in enumerate(names)}
    out = ["/- GENERATED by tools/translate.py from the Rust sources; do not edit.",
           "   Field lists of the wire structures and of what is signed / MACed / used as AEAD associated data.",
           "   Field names are numbered (alphabetically over all names below):"]
    out += [f"     {code[n]:3d} = {n}" for n in names]
    out += ["-/", "namespace MlsVerif.Gen.Framing", ""]
    for k, l in lists.items():
        out.append(f"/-- {', '.join(l)} -/")
        out.append(f"def {k} : List Nat := [" + ", ".join(str(code[f]) for f in l) + "]")
    for n in ["signature", "confirmation_tag", "membership_tag", "content", "auth", "encrypted_sender_data", "ciphertext",
              "group_id", "epoch", "content_type", "authenticated_data", "content_tbs", "context", "wire_format", "protocol_version",
              "leaf_index"]:
        if n not in code:
            raise SystemExit(f"translate: expected field name {n} not present")
        out.append(f"def f_{n} : Nat := {code[n]}")
    out.append("end MlsVerif.Gen.Framing")
    manifest["framing"] = lists
    return "\n".join(out) + "\n"


# ------------------------------------------------------------------------------------------------------------


def write_if_changed(path, text):
    if os.path.exists(path) and open(path).read() == text:
        return False
    with open(path, "w") as f:
        f.write(text)
    return True


def main():
    os.makedirs(OUT, exist_ok=True)
    manifest = {"pipelines": {}, "tables": {}, "sources": {}}
    files = sorted({p[1] for p in PIPELINES} | {"mls-rs/src/tree_kem/node.rs", "mls-rs/src/group/secret_tree.rs",
                                                 "mls-rs/src/storage_provider/in_memory/group_state_storage.rs",
                                                 "mls-rs-codec/src/varint.rs", "mls-rs/src/group/key_schedule.rs"})
    for f in files:
        manifest["sources"][f] = hashlib.sha256(read(f).encode()).hexdigest()[:16]
    changed = []
    status = {}

    def gen(name, f):
        """One generator = one Lean file.  A generator that cannot read the source as it is now leaves the previous file in
        place (so that everything that does not depend on it still builds) and is reported in `status`; a check whose property
        modules import that file then counts the tie as broken, the other checks are not affected."""
        try:
            text = f()
            if write_if_changed(os.path.join(OUT, name + ".lean"), text):
                changed.append(name)
            status[name] = "ok"
        except SystemExit as e:
            status[name] = "error: " + str(e)
        except Exception as e:  # noqa: BLE001
            status[name] = "error: " + repr(e)[:300]

    gen("Pipelines", lambda: gen_pipelines(manifest))
    gen("Tables", lambda: gen_tables(manifest))
    gen("Framing", lambda: gen_framing(manifest))
    schemas = os.path.join(os.path.dirname(os.path.abspath(__file__)), "translate_schemas.py")
    if os.path.exists(schemas):
        import importlib.util
        spec = importlib.util.spec_from_file_location("translate_schemas", schemas)
        mod = importlib.util.module_from_spec(spec)
        spec.loader.exec_module(mod)
        gen("Schemas", lambda: mod.generate(REPO, manifest))
        if status.get("Schemas") == "ok":
            write_if_changed(os.path.join(OUT, "schemas.txt"), manifest.pop("_schemas_txt", ""))
            gen("Codecs", lambda: manifest.pop("_codecs_lean", ""))
            write_if_changed(os.path.join(OUT, "codecs.txt"), manifest.pop("_codecs_txt", ""))
        else:
            status["Codecs"] = status["Schemas"]
        for k in [k for k in manifest if k.startswith("_")]:
            manifest.pop(k)
    manifest["status"] = status
    json.dump(manifest, open(os.path.join(OUT, "gen_manifest.json"), "w"), indent=1)
    failed = {k: v for k, v in status.items() if v != "ok"}
    print("translate: regenerated", changed or "nothing (unchanged)", ("FAILED " + json.dumps(failed)) if failed else "")
    sys.exit(3 if failed else 0)


if __name__ == "__main__":
    main()
