//! C12: the wire codec round-trips, reports exact lengths and never panics on any bytes.
//!
//! Stream for the model (`mlsmodel c12`): `dec <Type> <hex>` -> `ok <consumed> <size> same|diff [<value>]` | `err`
//! (`decx` = the implementation rejected and the type contains a node whose Rust decoder is stricter than the derive
//! layout: the model's verdict is not compared).  Inputs per type: encodings of structured random values (generated from
//! the schema the translator extracted, or for the `V*` test types by encoding random Rust values, whose value text is
//! compared too), mutations of them (truncation, bit flips, special bytes, non-minimal / oversized / invalid length
//! prefixes, junk tail) and random bytes.
//!
//! Direct oracle on every decode (also for the types with hand-written codecs, harvested from real group histories):
//! no panic, consumed <= input, encoded length == bytes written, wire types re-encode to exactly the bytes consumed,
//! produced values round-trip exactly and consume everything, peak allocation bounded by a fixed multiple of the input.
//!
//! Termination ("total", "bounded"): every single codec call (decode / size / encode) runs under a wall-clock deadline
//! (`--deadline_s`, default 20; `Shared::timed` + `spawn_watchdog`): a call that does not return is reported with type, phase
//! and input, the rows written so far are flushed, the summary is printed and the process ends.  Independently of any clock,
//! section (0b) counts element decodes of the generic containers with instrumented element types (`tick`): the number of
//! element decodes is bounded by the input length, also for zero-size elements and huge declared lengths.
use crate::c12types::*;
use crate::hist::*;
use crate::util::{hex, Opts, Rng, QA};
use crate::world::*;
use mls_rs::external_client::ExternalClient;
use mls_rs::identity::basic::BasicIdentityProvider;
use mls_rs::mls_rs_codec::{MlsDecode, MlsEncode, MlsSize};
use mls_rs::group::ExportedTree;
use mls_rs::MlsMessage;
use mls_rs_core::group::GroupStateStorage;
use mls_rs_crypto_rustcrypto::RustCryptoProvider;
use std::collections::{BTreeMap, BTreeSet, HashMap};
use std::sync::atomic::Ordering::Relaxed;
use std::sync::{Arc, Mutex, MutexGuard};
use std::time::{Duration, Instant};

// ---------------------------------------------------------------------------------------------------------------------
// schema (text form written by tools/translate_schemas.py)

#[derive(Clone, Debug)]
pub enum Sch {
    U(usize),
    Bool,
    Fixed(usize),
    Bytes,
    Varint,
    Str,
    Vec(Box<Sch>),
    Opt(Box<Sch>),
    Struct(Vec<Sch>),
    Enum(usize, Vec<(u64, Option<Sch>)>),
    Map(Box<Sch>, Box<Sch>),
}

fn tokens(s: &str) -> Vec<String> {
    let mut out = vec![];
    let cs: Vec<char> = s.chars().collect();
    let mut i = 0;
    while i < cs.len() {
        let c = cs[i];
        if c.is_whitespace() {
            i += 1;
        } else if "[](),".contains(c) {
            out.push(c.to_string());
            i += 1;
        } else {
            let st = i;
            while i < cs.len() && !cs[i].is_whitespace() && !"[](),".contains(cs[i]) {
                i += 1;
            }
            out.push(cs[st..i].iter().collect());
        }
    }
    out
}

struct P {
    t: Vec<String>,
    i: usize,
}

impl P {
    fn next(&mut self) -> String {
        self.i += 1;
        self.t[self.i - 1].clone()
    }
    fn peek(&self) -> &str {
        self.t.get(self.i).map(|s| s.as_str()).unwrap_or("")
    }
    fn expect(&mut self, s: &str) {
        let n = self.next();
        assert_eq!(n, s, "schema syntax at token {}", self.i);
    }
    fn num(&mut self) -> u64 {
        self.next().parse().expect("number")
    }
    fn arg(&mut self) -> Sch {
        if self.peek() == "(" {
            self.next();
            let s = self.schema();
            self.expect(")");
            s
        } else {
            self.schema()
        }
    }
    fn schema(&mut self) -> Sch {
        let h = self.next();
        match h.as_str() {
            ".u" => Sch::U(self.num() as usize),
            ".bool" => Sch::Bool,
            ".fixed" => Sch::Fixed(self.num() as usize),
            ".bytes" => Sch::Bytes,
            ".varint" => Sch::Varint,
            ".str" => Sch::Str,
            ".vec" => Sch::Vec(Box::new(self.arg())),
            ".opt" => Sch::Opt(Box::new(self.arg())),
            ".map" => {
                let k = self.arg();
                let v = self.arg();
                Sch::Map(Box::new(k), Box::new(v))
            }
            ".struct" => {
                self.expect("[");
                let mut fs = vec![];
                while self.peek() != "]" {
                    fs.push(self.schema());
                    if self.peek() == "," {
                        self.next();
                    }
                }
                self.expect("]");
                Sch::Struct(fs)
            }
            ".enum" => {
                let w = self.num() as usize;
                self.expect("[");
                let mut cases = vec![];
                while self.peek() != "]" {
                    self.expect("(");
                    let d = self.num();
                    self.expect(",");
                    let p = if self.peek() == "none" {
                        self.next();
                        None
                    } else {
                        self.expect("some");
                        Some(self.arg())
                    };
                    self.expect(")");
                    cases.push((d, p));
                    if self.peek() == "," {
                        self.next();
                    }
                }
                self.expect("]");
                Sch::Enum(w, cases)
            }
            other => panic!("unknown schema head {other}"),
        }
    }
}

pub fn load_schemas(path: &str) -> Vec<(String, bool, Sch)> {
    let txt = std::fs::read_to_string(path).unwrap_or_else(|e| panic!("{path}: {e}"));
    txt.lines()
        .filter(|l| !l.trim().is_empty())
        .map(|l| {
            let mut it = l.splitn(3, '\t');
            let name = it.next().unwrap().to_string();
            let refined = it.next().unwrap() == "1";
            let mut p = P { t: tokens(it.next().unwrap()), i: 0 };
            let s = p.schema();
            assert_eq!(p.i, p.t.len(), "trailing tokens in schema of {name}");
            (name, refined, s)
        })
        .collect()
}

// ---------------------------------------------------------------------------------------------------------------------
// structured input generator (an input generator only: whatever it produces is judged by the implementation and the model)

pub fn varint(n: u64) -> Vec<u8> {
    if n < 64 {
        vec![n as u8]
    } else if n < 16384 {
        vec![0x40 | (n >> 8) as u8, n as u8]
    } else {
        vec![0x80 | (n >> 24) as u8, (n >> 16) as u8, (n >> 8) as u8, n as u8]
    }
}

fn prefixed(mut payload: Vec<u8>) -> Vec<u8> {
    let mut out = varint(payload.len() as u64);
    out.append(&mut payload);
    out
}

fn gen_len(rng: &mut Rng, depth: usize) -> usize {
    match rng.below(if depth > 2 { 10 } else { 40 }) {
        0 => 0,
        1..=5 => rng.range(1, 8) as usize,
        6 | 7 => rng.range(9, 40) as usize,
        8 => 63,
        9 => 64,
        10 => 65,
        11 => 16383,
        12 => 16384,
        _ => rng.range(0, 20) as usize,
    }
}

pub fn gen(s: &Sch, rng: &mut Rng, depth: usize) -> Vec<u8> {
    match s {
        Sch::U(n) => match rng.below(4) {
            0 => vec![0; *n],
            1 => vec![0xff; *n],
            2 => {
                let mut v = vec![0; *n];
                v[*n - 1] = rng.below(4) as u8;
                v
            }
            _ => rng.bytes(*n),
        },
        Sch::Bool => vec![rng.below(2) as u8],
        Sch::Fixed(n) => rng.bytes(*n),
        Sch::Bytes => {
            let l = gen_len(rng, depth);
            prefixed(rng.bytes(l))
        }
        Sch::Varint => varint(match rng.below(5) {
            0 => 0,
            1 => 63,
            2 => 64,
            3 => 16384,
            _ => rng.below(1 << 30),
        }),
        Sch::Str => {
            let l = rng.below(12) as usize;
            let st: String = (0..l).map(|_| *rng.pick(&['a', 'Z', '0', ' ', 'é', '€', '𝄞', '\u{0}'])).collect();
            prefixed(st.into_bytes())
        }
        Sch::Vec(e) => {
            let k = if depth > 3 { rng.below(2) } else { rng.below(5) };
            let mut p = vec![];
            for _ in 0..k {
                p.extend(gen(e, rng, depth + 1));
            }
            prefixed(p)
        }
        Sch::Opt(e) => {
            if rng.chance(1, 2) {
                vec![0]
            } else {
                let mut v = vec![1];
                v.extend(gen(e, rng, depth + 1));
                v
            }
        }
        Sch::Struct(fs) => fs.iter().flat_map(|f| gen(f, rng, depth + 1)).collect(),
        Sch::Enum(w, cases) => {
            let (d, p) = rng.pick(cases).clone();
            let mut v: Vec<u8> = (0..*w).rev().map(|i| (d >> (8 * i)) as u8).collect();
            if let Some(p) = p {
                v.extend(gen(&p, rng, depth + 1));
            }
            v
        }
        Sch::Map(k, v) => {
            let n = rng.below(4);
            let mut entries: Vec<(Vec<u8>, Vec<u8>)> = vec![];
            for _ in 0..n {
                let kb = gen(k, rng, depth + 1);
                if rng.chance(9, 10) && entries.iter().any(|(x, _)| *x == kb) {
                    continue; // mostly distinct keys; sometimes a duplicate (must be rejected)
                }
                entries.push((kb, gen(v, rng, depth + 1)));
            }
            if rng.chance(2, 3) {
                entries.sort();
            }
            prefixed(entries.into_iter().flat_map(|(a, b)| [a, b].concat()).collect())
        }
    }
}

const SPECIAL: [u8; 14] = [0x00, 0x01, 0x02, 0x03, 0x3f, 0x40, 0x41, 0x7f, 0x80, 0xbf, 0xc0, 0xfe, 0xff, 0x10];

/// one mutated variant of `b`, with a label for the input statistics
pub fn mutate(b: &[u8], rng: &mut Rng) -> (&'static str, Vec<u8>) {
    let mut v = b.to_vec();
    let pos = |rng: &mut Rng, len: usize| if len == 0 { 0 } else { rng.below(len as u64) as usize };
    match rng.below(12) {
        0 => {
            let p = pos(rng, v.len() + 1);
            v.truncate(p);
            ("truncate", v)
        }
        1 | 2 if !v.is_empty() => {
            let p = pos(rng, v.len());
            v[p] ^= 1 << rng.below(8);
            ("bitflip", v)
        }
        3 if !v.is_empty() => {
            let p = pos(rng, v.len());
            v[p] = *rng.pick(&SPECIAL);
            ("special-byte", v)
        }
        4 => {
            let p = pos(rng, v.len() + 1);
            v.insert(p, *rng.pick(&SPECIAL));
            ("insert", v)
        }
        5 if !v.is_empty() => {
            let p = pos(rng, v.len());
            v.remove(p);
            ("delete", v)
        }
        6 if !v.is_empty() => {
            // a one-byte length / varint rewritten in a longer (non-minimal) form
            let cand: Vec<usize> = (0..v.len()).filter(|i| v[*i] < 0x40).collect();
            if cand.is_empty() {
                return ("unchanged", v);
            }
            let p = *rng.pick(&cand);
            let x = v[p];
            if rng.chance(1, 2) {
                v.splice(p..p + 1, [0x40, x]);
            } else {
                v.splice(p..p + 1, [0x80, 0, 0, x]);
            }
            ("non-minimal-varint", v)
        }
        7 if !v.is_empty() => {
            let p = pos(rng, v.len());
            const BIG: [&[u8]; 4] = [&[0xbf, 0xff, 0xff, 0xff], &[0x7f, 0xff], &[0x3f], &[0x80, 0x01, 0x00, 0x00]];
            let big: &[u8] = BIG[rng.below(4) as usize];
            v.splice(p..p + 1, big.iter().copied());
            ("oversized-length", v)
        }
        8 if !v.is_empty() => {
            let p = pos(rng, v.len());
            v[p] = 0xc0 | (rng.below(64) as u8);
            ("invalid-varint-prefix", v)
        }
        9 => {
            let n = rng.range(1, 6) as usize;
            v.extend(rng.bytes(n));
            ("junk-tail", v)
        }
        10 if v.len() > 2 => {
            let a = pos(rng, v.len());
            let l = rng.range(1, 8).min((v.len() - a) as u64) as usize;
            let chunk: Vec<u8> = v[a..a + l].to_vec();
            let p = pos(rng, v.len());
            v.splice(p..p, chunk);
            ("duplicate-chunk", v)
        }
        _ => {
            if !v.is_empty() {
                let p = pos(rng, v.len());
                v[p] = rng.next() as u8;
            }
            ("random-byte", v)
        }
    }
}

// ---------------------------------------------------------------------------------------------------------------------
// value text (the same format is printed by Driver/C12.lean)

pub trait ToVal {
    fn val(&self) -> String;
}
macro_rules! nat_val {
    ($($t:ty),*) => { $( impl ToVal for $t { fn val(&self) -> String { format!("n{}", self) } } )* };
}
nat_val!(u8, u16, u32, u64, u128);
impl ToVal for bool {
    fn val(&self) -> String {
        format!("t{}", *self as u8)
    }
}
fn xhex(b: &[u8]) -> String {
    let mut s = String::from("x");
    for x in b {
        s.push_str(&format!("{x:02x}"));
    }
    s
}
/// `Vec<u8>` through byte_vec, arrays and strings are byte strings
pub struct B<'a>(pub &'a [u8]);
impl ToVal for B<'_> {
    fn val(&self) -> String {
        xhex(self.0)
    }
}
impl ToVal for Vec<u8> {
    fn val(&self) -> String {
        xhex(self)
    }
}
impl ToVal for String {
    fn val(&self) -> String {
        xhex(self.as_bytes())
    }
}
fn list<T: ToVal>(xs: &[T]) -> String {
    format!("l[{}]", xs.iter().map(|x| x.val()).collect::<Vec<_>>().join(","))
}
impl ToVal for Vec<Vec<u8>> {
    fn val(&self) -> String {
        list(self)
    }
}
impl ToVal for Vec<u16> {
    fn val(&self) -> String {
        list(self)
    }
}
impl<T: ToVal> ToVal for Option<T> {
    fn val(&self) -> String {
        match self {
            None => "N".into(),
            Some(x) => format!("S{}", x.val()),
        }
    }
}
fn tuple(fs: &[String]) -> String {
    format!("T[{}]", fs.join(","))
}
impl ToVal for VInts {
    fn val(&self) -> String {
        tuple(&[self.a.val(), self.b.val(), self.c.val(), self.d.val(), self.e.val(), self.f.val()])
    }
}
impl ToVal for VChoice {
    fn val(&self) -> String {
        match self {
            VChoice::Unit => "V0".into(),
            VChoice::Num(n) => format!("V1:{}", n.val()),
            VChoice::Bytes(b) => format!("V7:{}", xhex(b)),
            VChoice::Pair(p) => format!("V200:{}", p.val()),
        }
    }
}
impl ToVal for VWide {
    fn val(&self) -> String {
        match self {
            VWide::A => "V1".into(),
            VWide::B(o) => format!("V258:{}", o.val()),
            VWide::C(v) => format!("V65535:{}", v.val()),
        }
    }
}
impl ToVal for VNest {
    fn val(&self) -> String {
        tuple(&[xhex(&self.fixed), xhex(&self.bytes), list(&self.list), self.opt.val(), self.lol.val(), self.text.val(), self.tail.val()])
    }
}
impl ToVal for VMaps {
    fn val(&self) -> String {
        let mut hk: Vec<&u16> = self.h.keys().collect();
        hk.sort();
        let h = format!("M[{}]", hk.iter().map(|k| format!("{}={}", k.val(), self.h[k].val())).collect::<Vec<_>>().join(","));
        let b = format!("M[{}]", self.b.iter().map(|(k, v)| format!("{}={}", xhex(k), v.val())).collect::<Vec<_>>().join(","));
        tuple(&[h, b, self.inner.val()])
    }
}
impl ToVal for VWrap {
    fn val(&self) -> String {
        tuple(&[list(&self.0)])
    }
}
impl ToVal for VEmpty {
    fn val(&self) -> String {
        "T[]".into()
    }
}
impl ToVal for VZeroElems {
    fn val(&self) -> String {
        let zs = format!("l[{}]", self.zs.iter().map(|_| "x".to_string()).collect::<Vec<_>>().join(","));
        tuple(&[zs, list(&self.es)])
    }
}

// random values of the test types (encoded by the real derive code)
fn r_ints(r: &mut Rng) -> VInts {
    VInts { a: r.next() as u8, b: r.next() as u16, c: r.next() as u32, d: r.next(), e: ((r.next() as u128) << 64) | r.next() as u128, f: r.chance(1, 2) }
}
fn r_bytes(r: &mut Rng) -> Vec<u8> {
    let l = gen_len(r, 1);
    r.bytes(l)
}
fn r_choice(r: &mut Rng) -> VChoice {
    match r.below(4) {
        0 => VChoice::Unit,
        1 => VChoice::Num(r.next() as u32),
        2 => VChoice::Bytes(r_bytes(r)),
        _ => VChoice::Pair(r_ints(r)),
    }
}
fn r_wide(r: &mut Rng) -> VWide {
    match r.below(3) {
        0 => VWide::A,
        1 => VWide::B(if r.chance(1, 2) { None } else { Some(r.next() as u8) }),
        _ => VWide::C((0..r.below(5)).map(|_| r.next() as u16).collect()),
    }
}
fn r_nest(r: &mut Rng) -> VNest {
    VNest {
        fixed: [r.next() as u8, r.next() as u8, r.next() as u8],
        bytes: r_bytes(r),
        list: (0..r.below(4)).map(|_| r_choice(r)).collect(),
        opt: if r.chance(1, 3) { None } else { Some(r_wide(r)) },
        lol: (0..r.below(4)).map(|_| { let l = r.below(5) as usize; r.bytes(l) }).collect(),
        text: (0..r.below(8)).map(|_| *r.pick(&['a', 'ß', '€', '𝄞', '0'])).collect(),
        tail: match r.below(3) {
            0 => None,
            1 => Some(None),
            _ => Some(Some(r.next() as u8)),
        },
    }
}
fn r_maps(r: &mut Rng) -> VMaps {
    let mut h = HashMap::new();
    for _ in 0..r.below(5) {
        h.insert(r.below(6) as u16 * 257, r_choice(r));
    }
    let mut b = BTreeMap::new();
    for _ in 0..r.below(5) {
        let l = r.below(3) as usize;
        b.insert(r.bytes(l), r.next() as u8);
    }
    VMaps { h, b, inner: r_nest(r) }
}

// ---------------------------------------------------------------------------------------------------------------------
// probes

/// which call of a probe is running, for the watchdog (the marker of the hook, so that there is one place to look at)
fn phase(p: u8) {
    mls_rs::verif::codec::PHASE.store(p, Relaxed);
}

fn probe_plain<T: MlsDecode + MlsEncode + MlsSize>(bytes: &[u8]) -> String {
    let mut r = bytes;
    phase(1);
    match T::mls_decode(&mut r) {
        Err(_) => "err".into(),
        Ok(v) => {
            let consumed = bytes.len() - r.len();
            phase(2);
            let size = v.mls_encoded_len();
            phase(3);
            match v.mls_encode_to_vec() {
                Ok(re) => format!("ok {consumed} {size} {}", if re.as_slice() == &bytes[..consumed] { "same" } else { "diff" }),
                Err(_) => format!("ok {consumed} {size} encerr"),
            }
        }
    }
}

fn probe_v<T: MlsDecode + MlsEncode + MlsSize + ToVal>(bytes: &[u8]) -> String {
    let mut r = bytes;
    phase(1);
    match T::mls_decode(&mut r) {
        Err(_) => "err".into(),
        Ok(v) => {
            let consumed = bytes.len() - r.len();
            phase(2);
            let size = v.mls_encoded_len();
            phase(3);
            match v.mls_encode_to_vec() {
                Ok(re) => format!("ok {consumed} {size} {} {}", if re.as_slice() == &bytes[..consumed] { "same" } else { "diff" }, v.val()),
                Err(_) => format!("ok {consumed} {size} encerr"),
            }
        }
    }
}

macro_rules! table {
    ($f:ident, $name:expr, $bytes:expr, $( $n:literal => $t:ty ),* $(,)?) => {
        match $name { $( $n => Some($f::<$t>($bytes)), )* _ => None }
    };
}

pub fn probe(name: &str, bytes: &[u8]) -> Option<String> {
    use mls_rs_core as c;
    if let Some(r) = table!(probe_v, name, bytes,
        "VInts" => VInts, "VChoice" => VChoice, "VWide" => VWide, "VNest" => VNest, "VMaps" => VMaps, "VWrap" => VWrap,
        "VEmpty" => VEmpty, "VZeroElems" => VZeroElems)
    {
        return Some(r);
    }
    if let Some(r) = table!(probe_plain, name, bytes,
        "ProtocolVersion" => c::protocol_version::ProtocolVersion,
        "CipherSuite" => c::crypto::CipherSuite,
        "HpkePublicKey" => c::crypto::HpkePublicKey,
        "HpkeSecretKey" => c::crypto::HpkeSecretKey,
        "SignaturePublicKey" => c::crypto::SignaturePublicKey,
        "SignatureSecretKey" => c::crypto::SignatureSecretKey,
        "BasicCredential" => c::identity::BasicCredential,
        "CustomCredential" => c::identity::CustomCredential,
        "CredentialType" => c::identity::CredentialType,
        "DerCertificate" => c::identity::DerCertificate,
        "CertificateChain" => c::identity::CertificateChain,
        "ExtensionType" => c::extension::ExtensionType,
        "Extension" => c::extension::Extension,
        "ProposalType" => c::group::ProposalType,
        "ExternalPskId" => c::psk::ExternalPskId,
        "PreSharedKey" => c::psk::PreSharedKey,
        "KeyPackageData" => c::key_package::KeyPackageData,
        "MlsTime" => c::time::MlsTime,
    ) {
        return Some(r);
    }
    mls_rs::verif::codec::probe(name, bytes)
}

// ---------------------------------------------------------------------------------------------------------------------
// harvesting real values (types with hand-written codecs included)

struct Corpus {
    /// (type name, bytes of a value the library produced)
    items: Vec<(&'static str, Vec<u8>)>,
}

fn harvest(seed: u64, corpus: &mut Corpus, notes: &mut Vec<String>) {
    let mkc = |s: &Setup, hd: &Handles, id, sk| mk_client(s, hd, id, sk);
    let mut prof = Profile::default_mix();
    prof.p_reload = 0;
    let mut hist = Hist {
        w: new_world(Default::default(), &crate::util::scratch("c12")),
        rng: Rng::new(seed),
        prof,
        rep: Report::default(),
        mk: &mkc,
        next_name: 0,
        pending_bad_caps: 0,
        bad_kp_ids: vec![],
                forgers: vec![],
                zombies: vec![],
        tree_qa: None,
        filter_qa: None,
        tap: None,
        kps: vec![],
        last_commit_epoch_ok: true,
    };
    hist.run();
    for m in &hist.w.msgs {
        if let Ok(b) = m.msg.to_bytes() {
            corpus.items.push(("MlsMessage", b.clone()));
            // the payload behind version(2) and wire format(2)
            if b.len() > 4 {
                let wf = u16::from_be_bytes([b[2], b[3]]);
                match wf {
                    1 => corpus.items.push(("PublicMessage", b[4..].to_vec())),
                    2 => corpus.items.push(("PrivateMessage", b[4..].to_vec())),
                    _ => {}
                }
            }
        }
    }
    let members: Vec<usize> = (0..hist.w.members.len()).filter(|i| hist.w.members[*i].group.is_some()).collect();
    // a ratchet with skipped (out-of-order) generations: the last of three application messages is delivered alone, so the
    // receivers' stored state holds the keys of the two skipped ones
    if members.len() >= 2 {
        let (s, rest) = (members[0], &members[1..]);
        let mut last = None;
        for _ in 0..3 {
            if let (_, Some(m)) = hist.w.with_group(s, |g| g.encrypt_application_message(b"skip", vec![])) {
                last = Some(m);
            }
        }
        if let Some(m) = last {
            for &r in rest.iter().take(3) {
                let mm = m.clone();
                hist.w.with_group(r, |g| g.process_incoming_message(mm));
            }
        }
    }
    for &i in members.iter().take(4) {
        let kp = hist.w.members[i].client.generate_key_package_message(Default::default(), Default::default(), None);
        if let Ok(kp) = kp {
            let b = kp.to_bytes().unwrap();
            corpus.items.push(("KeyPackage", b[4..].to_vec()));
            corpus.items.push(("MlsMessage", b));
        }
        let g = hist.w.members[i].group.as_mut().unwrap();
        corpus.items.push(("NodeVec", g.export_tree().to_bytes().unwrap()));
        if let Ok(gi) = g.group_info_message_allowing_ext_commit(true) {
            let b = gi.to_bytes().unwrap();
            corpus.items.push(("GroupInfo", b[4..].to_vec()));
            corpus.items.push(("MlsMessage", b));
            let ext = ExternalClient::builder().crypto_provider(RustCryptoProvider::default()).identity_provider(BasicIdentityProvider).build();
            if let Ok(eg) = ext.observe_group(gi, None, None) {
                corpus.items.push(("ExternalSnapshot", eg.snapshot().to_bytes().unwrap()));
            }
        }
        for (n, b) in [("GroupContext", g.context().mls_encode_to_vec().unwrap())] {
            corpus.items.push((n, b));
        }
        let gid = g.group_id().to_vec();
        let ep = g.current_epoch();
        if g.write_to_storage().is_ok() {
            if let Ok(Some(st)) = hist.w.members[i].h.store.state(&gid) {
                corpus.items.push(("Snapshot", st.to_vec()));
            }
            for e in ep.saturating_sub(3)..ep {
                if let Ok(Some(pe)) = hist.w.members[i].h.store.epoch(&gid, e) {
                    corpus.items.push(("PriorEpoch", pe.to_vec()));
                }
            }
        }
    }
    // proposals as the members cache them
    for &i in members.iter().take(3) {
        for (_, prop, _) in hist.w.members[i].group.as_ref().unwrap().verif_cached_proposals_in_bundle_order() {
            if let Ok(b) = prop.mls_encode_to_vec() {
                corpus.items.push(("Proposal", b));
            }
        }
    }
    // a Welcome and detached commit secrets
    if let Some(&a) = members.first() {
        let o = hist.new_member();
        if let Some(kp) = hist.gen_kp(o) {
            let g = hist.w.members[a].group.as_mut().unwrap();
            if let Ok(b) = g.commit_builder().add_member(kp).and_then(|b| b.build_detached()) {
                let (out, secrets) = b;
                corpus.items.push(("PendingCommitSnapshot", secrets.to_bytes().unwrap()));
                corpus.items.push(("MlsMessage", out.commit_message.to_bytes().unwrap()));
                for w in &out.welcome_messages {
                    let wb = w.to_bytes().unwrap();
                    corpus.items.push(("Welcome", wb[4..].to_vec()));
                    corpus.items.push(("MlsMessage", wb));
                }
            } else {
                notes.push("detached commit failed".into());
            }
        }
    }
    let _ = std::fs::remove_dir_all(&crate::util::scratch("c12"));
}

/// state (never sent on the wire) containing hash maps: re-encoding may permute entries
const UNORDERED_STATE: [&str; 4] = ["Snapshot", "ExternalSnapshot", "PriorEpoch", "PendingCommitSnapshot"];

/// refined decoders that have their own model (Model/CodecCustom): compared exactly, no `decx`
const EXACT_REFINED: [&str; 2] = ["LeafIndex", "ExtensionList"];

/// wire types: whatever decodes must re-encode to exactly the bytes consumed
const STRICT: [&str; 17] = [
    "MlsMessage", "PublicMessage", "PrivateMessage", "KeyPackage", "GroupInfo", "Welcome", "NodeVec", "GroupContext", "LeafNode", "Proposal", "Commit", "UpdatePath",
    // wire structs that only travel encrypted or as MAC / AAD input
    "GroupSecrets", "SenderData", "MembershipTag", "SenderDataAAD", "PrivateContentAAD",
];

// ---------------------------------------------------------------------------------------------------------------------

struct Stats {
    fails: Vec<String>,
    inputs: BTreeMap<String, u64>,
    outcomes: BTreeMap<String, u64>,
    accepted_by_type: BTreeMap<String, (u64, u64)>,
    max_ratio_milli: u64,
    max_ratio_case: String,
    cases: u64,
    modelled: BTreeSet<String>,
    /// schema types without a decode probe, `name(reason)`
    unprobed: Vec<String>,
    codec_rows: BTreeMap<String, u64>,
    by_type: BTreeMap<String, u64>,
    notes: Vec<String>,
    /// the slowest single codec call (information only; the deadline is the oracle)
    slowest: (Duration, String),
    /// work-bound oracle: cases, largest number of element decodes, largest ratio element decodes / input bytes (milli)
    work: (u64, u64, u64),
}

impl Stats {
    fn fail(&mut self, s: String) {
        if self.fails.len() < 200 {
            self.fails.push(s);
        }
    }
}

// ---------------------------------------------------------------------------------------------------------------------
// shared run state and the per-call deadline
//
// The state the summary is printed from lives behind mutexes that the main thread takes only BETWEEN codec calls, never
// during one, so that the watchdog thread can add the failure line, flush the rows and print the summary while the main
// thread is stuck inside a call.

/// the codec call that is running now
struct Call {
    active: bool,
    name: String,
    kind: String,
    /// `None`: a probe (decode, then size, then encode: the hook's phase marker says which one); `Some`: a single call
    phase: Option<&'static str>,
    /// the input bytes, or (for an encode of a value that was not decoded from bytes) a description of the value
    input: Vec<u8>,
    input_is_text: bool,
    start: Instant,
    /// the deadline of this call
    limit: Duration,
}

struct Shared {
    dir: String,
    deadline: Duration,
    st: Mutex<Stats>,
    qa: Mutex<QA>,
    call: Mutex<Call>,
}

fn lock<T>(m: &Mutex<T>) -> MutexGuard<'_, T> {
    m.lock().unwrap_or_else(|e| e.into_inner())
}

impl Shared {
    /// never hold this guard across `timed`
    fn st(&self) -> MutexGuard<'_, Stats> {
        lock(&self.st)
    }
    fn put(&self, q: &str, a: &str) {
        lock(&self.qa).put(q, a);
    }
    fn begin(&self, name: &str, kind: &str, phase: Option<&'static str>, input: &[u8], input_is_text: bool) {
        let mut c = lock(&self.call);
        c.name.clear();
        c.name.push_str(name);
        c.kind.clear();
        c.kind.push_str(kind);
        c.phase = phase;
        c.input.clear();
        c.input.extend_from_slice(input);
        c.input_is_text = input_is_text;
        mls_rs::verif::codec::PHASE.store(0, Relaxed);
        c.limit = self.deadline;
        c.start = Instant::now();
        c.active = true;
    }
    fn end(&self) {
        let (dt, what) = {
            let mut c = lock(&self.call);
            c.active = false;
            let dt = c.start.elapsed();
            (dt, if dt > Duration::from_millis(2) && c.kind != "harvest" { Some(format!("{} {} len={}", c.name, c.kind, c.input.len())) } else { None })
        };
        if let Some(what) = what {
            let mut st = self.st();
            if dt > st.slowest.0 {
                st.slowest = (dt, what);
            }
        }
    }
    /// one codec call (or one probe = decode + size + encode of one input) under the deadline; `f` must not unwind
    fn timed<T>(&self, name: &str, kind: &str, phase: Option<&'static str>, bytes: &[u8], f: impl FnOnce() -> T) -> T {
        self.begin(name, kind, phase, bytes, false);
        let r = f();
        self.end();
        r
    }
    /// A whole group history (thousands of codec calls inside the library, plus key generation, signatures and HPKE) under ten
    /// times the deadline: a codec call that hangs in there has no input the harness knows, but the run still ends with a
    /// failure line instead of a timeout of the whole check.
    fn timed_history<T>(&self, seed: u64, f: impl FnOnce() -> T) -> T {
        self.begin("(group history)", "harvest", Some("generation"), format!("history seed {seed} (keys are fresh random: not reproducible byte for byte)").as_bytes(), true);
        lock(&self.call).limit = self.deadline * 10;
        let r = f();
        self.end();
        r
    }
    /// the same for the encode / size of a value that does not come from bytes (`what` describes it)
    fn timed_value<T>(&self, name: &str, kind: &str, phase: &'static str, what: &str, f: impl FnOnce() -> T) -> T {
        self.begin(name, kind, Some(phase), what.as_bytes(), true);
        let r = f();
        self.end();
        r
    }
}

/// CPU seconds the main thread has used so far (Linux; information for the failure line only)
fn main_thread_cpu_s() -> Option<f64> {
    let pid = std::process::id();
    let s = std::fs::read_to_string(format!("/proc/self/task/{pid}/stat")).ok()?;
    let rest = &s[s.rfind(')')? + 1..];
    let f: Vec<&str> = rest.split_whitespace().collect();
    // after "pid (comm)": state is field 3, utime 14, stime 15 (1-based)
    let ut: f64 = f.get(11)?.parse().ok()?;
    let stime: f64 = f.get(12)?.parse().ok()?;
    Some((ut + stime) / 100.0)
}

/// The watchdog: wakes up every 50 ms and looks at the call that is running.  Only the wall time of ONE call counts (the start
/// is taken when the call begins, nothing is accumulated), so a slow or loaded machine that stretches the whole run does not
/// trigger it; a decode of at most 40 kB that needs more than the deadline (default 20 s) does.  A running call cannot be
/// cancelled, so the run ends here: failure line, rows flushed (both files complete lines, same count), summary, exit.
fn spawn_watchdog(sh: Arc<Shared>) {
    std::thread::spawn(move || loop {
        std::thread::sleep(Duration::from_millis(50));
        let c = lock(&sh.call);
        if !c.active {
            continue;
        }
        let dt = c.start.elapsed();
        if dt <= c.limit {
            continue;
        }
        let phase = c.phase.unwrap_or(match mls_rs::verif::codec::PHASE.load(Relaxed) {
            2 => "size",
            3 => "encode",
            _ => "decode",
        });
        let input = if c.input_is_text { String::from_utf8_lossy(&c.input).into_owned() } else { hex(&c.input) };
        let cpu = main_thread_cpu_s().map(|x| format!("{x:.1}")).unwrap_or("?".into());
        let line = format!(
            "deadline: {phase} of {} did not return within {} s ({} input, {} bytes; main thread cpu {cpu} s of the run): {input}",
            c.name,
            c.limit.as_secs_f64(),
            c.kind,
            c.input.len()
        );
        // the main thread is inside the call and holds neither lock (see `Shared::st`); do not wait forever all the same
        let rows = {
            let t0 = Instant::now();
            loop {
                if let Ok(mut qa) = sh.qa.try_lock() {
                    break qa.flush();
                }
                if t0.elapsed() > Duration::from_secs(2) {
                    break 0;
                }
                std::thread::sleep(Duration::from_millis(10));
            }
        };
        let t0 = Instant::now();
        loop {
            if let Ok(mut st) = sh.st.try_lock() {
                st.fails.push(line.clone());
                st.notes.push(format!("run stopped by the per-call deadline in {phase} of {}", c.name));
                print_summary(&st, rows);
                write_failures(&sh.dir, &st.fails);
                break;
            }
            if t0.elapsed() > Duration::from_secs(2) {
                println!("rows {rows}");
                println!("notes run stopped by the per-call deadline in {phase} of {} (statistics not available)", c.name);
                println!("oracle_failures 1");
                write_failures(&sh.dir, &[line.clone()]);
                break;
            }
            std::thread::sleep(Duration::from_millis(10));
        }
        use std::io::Write;
        let _ = std::io::stdout().flush();
        // the exit code of a run that found failures: they are reported through `oracle_failures` and `c12.failures`
        std::process::exit(0);
    });
}

fn write_failures(dir: &str, fails: &[String]) {
    std::fs::write(format!("{dir}/c12.failures"), fails.join("\n")).unwrap();
    std::fs::write(format!("{dir}/c12.samples"), "").unwrap();
}

fn kv(m: &BTreeMap<String, u64>) -> String {
    m.iter().map(|(k, v)| format!("{k}={v}")).collect::<Vec<_>>().join(",")
}

fn print_summary(st: &Stats, rows: u64) {
    println!("rows {rows}");
    println!("cases {}", st.cases);
    println!("modelled_types {}", st.modelled.len());
    println!("schema_types_without_probe {}", st.unprobed.join(","));
    println!("inputs {}", kv(&st.inputs));
    println!("outcomes {}", kv(&st.outcomes));
    println!("codec_model_rows {}", kv(&st.codec_rows));
    println!("produced_values {}", kv(&st.by_type));
    let low: Vec<String> = st.accepted_by_type.iter().filter(|(_, (a, n))| *n > 50 && *a * 10 < *n).map(|(k, (a, n))| format!("{k}={a}/{n}")).collect();
    println!("low_acceptance_types {}", low.join(","));
    println!("max_alloc_per_input_byte {}.{:03} ({})", st.max_ratio_milli / 1000, st.max_ratio_milli % 1000, st.max_ratio_case);
    println!("work_bound cases={},max_element_decodes={},max_element_decodes_per_input_byte={}.{:03}", st.work.0, st.work.1, st.work.2 / 1000, st.work.2 % 1000);
    println!("slowest_call {:.3}s ({})", st.slowest.0.as_secs_f64(), st.slowest.1);
    println!("notes {}", st.notes.join(";"));
    println!("oracle_failures {}", st.fails.len());
}

/// run one decode under the panic guard, the allocation meter and the deadline
fn guarded_probe(name: &str, bytes: &[u8], sh: &Shared, kind: &str) -> String {
    let (r, peak) = sh.timed(name, kind, None, bytes, || {
        crate::alloc_meter::set_case(name, bytes);
        let base = crate::alloc_meter::start();
        let r = std::panic::catch_unwind(|| probe(name, bytes));
        (r, crate::alloc_meter::peak_since(base))
    });
    let mut st = sh.st();
    let st = &mut *st;
    st.cases += 1;
    *st.inputs.entry(kind.to_string()).or_default() += 1;
    let ans = match r {
        Err(_) => {
            st.fail(format!("decoding {name} panics on {kind} input {}", hex(bytes)));
            "panic".to_string()
        }
        Ok(None) => "unknown-type".to_string(),
        Ok(Some(a)) => a,
    };
    // allocation bound: a fixed multiple of the input size (decoded in-memory values are larger than the wire form,
    // e.g. a blank tree node is one byte on the wire; an unchecked length field would exceed any such multiple)
    let bound = 4096 * bytes.len() + (256 << 10);
    if peak > bound {
        st.fail(format!("decoding {name} allocated {peak} bytes for {} input bytes ({kind}): {}", bytes.len(), hex(&bytes[..bytes.len().min(64)])));
    }
    let ratio = (peak as u64 * 1000) / (bytes.len().max(16) as u64);
    if ratio > st.max_ratio_milli {
        st.max_ratio_milli = ratio;
        st.max_ratio_case = format!("{name} {kind} len={} peak={peak}", bytes.len());
    }
    let e = st.accepted_by_type.entry(name.to_string()).or_default();
    e.1 += 1;
    if ans.starts_with("ok") {
        e.0 += 1;
    }
    *st.outcomes.entry(ans.split(' ').enumerate().filter(|(i, _)| *i == 0 || *i == 3).map(|(_, s)| s).collect::<Vec<_>>().join("-")).or_default() += 1;
    // generic oracle on the answer
    let f: Vec<&str> = ans.split(' ').collect();
    if f[0] == "ok" {
        let consumed: usize = f[1].parse().unwrap_or(usize::MAX);
        let size: usize = f[2].parse().unwrap_or(usize::MAX);
        if consumed > bytes.len() {
            st.fail(format!("{name}: consumed {consumed} of {} bytes", bytes.len()));
        }
        match f[3] {
            "same" => {
                if size != consumed {
                    st.fail(format!("{name}: mls_encoded_len {size} but {consumed} bytes written ({kind}): {}", hex(bytes)));
                }
            }
            "diff" => {
                if STRICT.contains(&name) {
                    st.fail(format!("{name}: accepted bytes that do not re-encode to themselves ({kind}): {}", hex(bytes)));
                }
            }
            other => st.fail(format!("{name}: decoded value cannot be encoded ({other}, {kind}): {}", hex(bytes))),
        }
    }
    ans
}

/// a row for a type of the generated codec table; for state types with unordered maps the same/diff field is not compared
fn put_codec_row(sh: &Shared, name: &str, bytes: &[u8], ans: &str) {
    if UNORDERED_STATE.contains(&name) {
        sh.put(&format!("deccu {name} {}", hex(bytes)), &ans.replace(" same", " any").replace(" diff", " any"));
    } else {
        sh.put(&format!("decc {name} {}", hex(bytes)), ans);
    }
    *sh.st().codec_rows.entry(name.to_string()).or_default() += 1;
}

// ---------------------------------------------------------------------------------------------------------------------
// work bound without a clock: element types that count their decodes
//
// What the real codec does (mls-rs-codec vec.rs / map.rs / iter.rs): the declared byte length L of a vector is checked against
// the remaining input first (`mls_decode_split_on_collection`), the elements are decoded from exactly these L bytes, and an
// element decode that consumes nothing ends the decode with `InvalidContent`.  So every successful element decode costs at
// least one input byte: n input bytes can produce at most n elements, a declared length of 0 gives 0 elements, and elements
// of size 0 (`[u8; 0]`, an empty struct) can only ever appear in the empty vector; a huge declared length with a short input is
// `UnexpectedEOF` before any element is looked at.  The oracle pins this down on the generic containers with element types
// that count how often they are decoded.  They also give up (error) beyond a limit far above the bound, so that a decoder that
// would spin on zero-size elements fails here at once and deterministically, not by the deadline.
mod tick {
    use mls_rs::mls_rs_codec::{self, Error, MlsDecode, MlsEncode, MlsSize};
    use std::sync::atomic::{AtomicU64, Ordering::Relaxed};
    pub static TICKS: AtomicU64 = AtomicU64::new(0);
    pub static LIMIT: AtomicU64 = AtomicU64::new(u64::MAX);
    fn tick() -> Result<(), Error> {
        if TICKS.fetch_add(1, Relaxed) >= LIMIT.load(Relaxed) {
            Err(Error::Custom(77))
        } else {
            Ok(())
        }
    }
    /// an element of encoded size 0
    #[derive(Clone, Debug, PartialEq, Eq, Hash, PartialOrd, Ord)]
    pub struct Z;
    impl MlsSize for Z {
        fn mls_encoded_len(&self) -> usize {
            0
        }
    }
    impl MlsEncode for Z {
        fn mls_encode(&self, _: &mut Vec<u8>) -> Result<(), Error> {
            Ok(())
        }
    }
    impl MlsDecode for Z {
        fn mls_decode(_: &mut &[u8]) -> Result<Self, Error> {
            tick()?;
            Ok(Z)
        }
    }
    /// an element of encoded size 1
    #[derive(Clone, Debug, PartialEq, Eq, Hash, PartialOrd, Ord)]
    pub struct B1(pub u8);
    impl MlsSize for B1 {
        fn mls_encoded_len(&self) -> usize {
            1
        }
    }
    impl MlsEncode for B1 {
        fn mls_encode(&self, w: &mut Vec<u8>) -> Result<(), Error> {
            w.push(self.0);
            Ok(())
        }
    }
    impl MlsDecode for B1 {
        fn mls_decode(r: &mut &[u8]) -> Result<Self, Error> {
            tick()?;
            u8::mls_decode(r).map(B1)
        }
    }
    /// a derived struct of size 0 with three counted fields
    #[derive(Clone, Debug, PartialEq, MlsSize, MlsEncode, MlsDecode)]
    pub struct Z3 {
        pub a: Z,
        pub b: Z,
        pub c: Z,
    }
}

/// decode `bytes` as `T` and count the element decodes: at most `2 * len + 4` (in fact `len + 1` for single elements; the
/// struct of three zero-size fields needs three for its one failing attempt); a successful decode must also round-trip
/// (maps: to the same length; they accept their entries in any order and write them sorted)
fn work_case<T: MlsDecode + MlsEncode + MlsSize>(label: &str, bytes: &[u8], sh: &Shared) {
    let canon = !label.contains("Map<");
    let n = bytes.len() as u64;
    tick::TICKS.store(0, Relaxed);
    tick::LIMIT.store(4 * n + 64, Relaxed);
    let r = sh.timed(label, "work-bound", None, bytes, || {
        std::panic::catch_unwind(|| {
            let mut rd = bytes;
            phase(1);
            let v = T::mls_decode(&mut rd).ok()?;
            let consumed = bytes.len() - rd.len();
            phase(2);
            let size = v.mls_encoded_len();
            phase(3);
            let re = v.mls_encode_to_vec().ok();
            Some((consumed, size, re.as_deref() == Some(&bytes[..consumed])))
        })
    });
    let ticks = tick::TICKS.load(Relaxed);
    tick::LIMIT.store(u64::MAX, Relaxed);
    let mut st = sh.st();
    st.cases += 1;
    st.work.0 += 1;
    st.work.1 = st.work.1.max(ticks);
    st.work.2 = st.work.2.max(ticks * 1000 / n.max(1));
    if ticks > 2 * n + 4 {
        st.fail(format!("decoding {label} performed {ticks} element decodes (stopped there) for {n} input bytes: {}", hex(&bytes[..bytes.len().min(64)])));
    }
    match r {
        Err(_) => st.fail(format!("decoding {label} panics on {}", hex(&bytes[..bytes.len().min(64)]))),
        Ok(Some((consumed, size, same))) => {
            if consumed > bytes.len() || size != consumed || (canon && !same) {
                st.fail(format!("{label}: decoded but consumed {consumed}, size {size}, re-encodes to the same bytes: {same}: {}", hex(&bytes[..bytes.len().min(64)])));
            }
        }
        Ok(None) => {}
    }
}

fn work_bound(rng: &mut Rng, sh: &Shared) {
    use tick::{B1, Z, Z3};
    // inputs: a declared length L (boundaries of the variable-length integer, far beyond the input) over fillings of L bytes
    // (or fewer), nested headers, and mutations of these
    let mut inputs: Vec<Vec<u8>> = vec![vec![], vec![0], vec![0, 0], vec![1], vec![1, 0], vec![1, 0xff], vec![2, 1, 0xff], vec![2, 0, 0], vec![3, 1, 0, 0]];
    for l in [1usize, 2, 3, 5, 63, 64, 65, 1000, 16383, 16384, 39990] {
        for fill in 0..5 {
            let mut b = varint(l as u64);
            match fill {
                0 => b.extend(std::iter::repeat(0u8).take(l)),
                1 => b.extend(std::iter::repeat(1u8).take(l)),
                2 => b.extend(std::iter::repeat(0xffu8).take(l)),
                3 => b.extend((0..l).map(|i| i as u8)),
                // declared length beyond the input
                _ => b.extend(std::iter::repeat(0u8).take(l.min(7) - 1)),
            }
            inputs.push(b);
        }
    }
    for huge in [&[0xbf, 0xff, 0xff, 0xff][..], &[0x80, 0x01, 0x00, 0x00], &[0x7f, 0xff], &[0xbf, 0xff, 0xff, 0xff, 0, 0, 0, 0], &[0x80, 0x00, 0x40, 0x00, 1, 1, 1]] {
        inputs.push(huge.to_vec());
    }
    // vectors of empty vectors / of options: many elements of one byte each
    for k in [1usize, 7, 63, 64, 5000] {
        inputs.push(prefixed(vec![0u8; k]));
        inputs.push(prefixed(vec![1u8; k]));
        inputs.push(prefixed((0..k).flat_map(|i| [1u8, i as u8]).collect()));
    }
    let base = inputs.len();
    for i in 0..300 {
        let src = inputs[i % base].clone();
        if src.len() > 200 {
            continue;
        }
        let (_, m) = mutate(&src, rng);
        inputs.push(m);
    }
    for _ in 0..100 {
        let l = rng.below(12) as usize;
        inputs.push(rng.bytes(l));
    }
    for b in &inputs {
        work_case::<Vec<Z>>("Vec<Z0>", b, sh);
        work_case::<Vec<Z3>>("Vec<Z0x3>", b, sh);
        work_case::<Vec<Vec<Z>>>("Vec<Vec<Z0>>", b, sh);
        work_case::<Vec<Option<Z>>>("Vec<Option<Z0>>", b, sh);
        work_case::<Option<Vec<Z>>>("Option<Vec<Z0>>", b, sh);
        work_case::<Vec<B1>>("Vec<B1>", b, sh);
        work_case::<Vec<Vec<B1>>>("Vec<Vec<B1>>", b, sh);
        work_case::<Vec<[u8; 0]>>("Vec<[u8;0]>", b, sh);
        work_case::<Vec<VEmpty>>("Vec<VEmpty>", b, sh);
        work_case::<BTreeMap<Z, Z>>("BTreeMap<Z0,Z0>", b, sh);
        work_case::<BTreeMap<B1, Z>>("BTreeMap<B1,Z0>", b, sh);
        work_case::<HashMap<B1, Vec<Z>>>("HashMap<B1,Vec<Z0>>", b, sh);
        work_case::<HashMap<Z, B1>>("HashMap<Z0,B1>", b, sh);
    }
}

// ---------------------------------------------------------------------------------------------------------------------

/// Schema types that cannot have a decode probe, with the reason.  Encode-only types are inputs of hashes, signatures, KDFs and
/// AEAD contexts (`MlsSize + MlsEncode` only, mostly with borrowed fields): nothing in the library ever decodes them.
const NO_DECODE: [(&str, &str); 16] = [
    ("ComponentOperationLabel", "encode-only; borrowed fields; label of the safe-application component operations"),
    ("EncryptContext", "encode-only; borrowed fields; HPKE info of EncryptWithLabel"),
    ("ExtensionsVec", "test-only type; cfg(test) mod tests of mls-rs-core extension/list.rs; encode-only"),
    ("InterimTranscriptHashInput", "encode-only; borrowed field; local to InterimTranscriptHash::create; bytes compared through the th/thp rows"),
    ("Label", "encode-only; borrowed fields; KDFLabel; bytes compared through the C13 ewl/ks rows"),
    ("PSKLabel", "encode-only; borrowed field; bytes compared through the C13/C18 psk rows"),
    ("ParentHashInput", "encode-only; borrowed fields; parent-hash input"),
    ("ParentNodeTreeHashInput", "encode-only; borrowed fields; tree-hash input"),
    ("RefHashInput", "encode-only; borrowed fields; input of key-package and proposal references"),
    ("SignContent", "encode-only; input of SignWithLabel"),
    ("SignableGroupInfo", "encode-only; borrowed fields; to-be-signed GroupInfo"),
    ("TestEncryptable", "test-only type; cfg(test) mod test_utils of tree_kem/hpke_encryption.rs"),
    ("TestExtension", "test-only type; cfg(test) mod test_utils of mls-rs extension.rs"),
    ("TestExtensionA", "test-only type; cfg(test) mod tests of mls-rs-core extension/list.rs"),
    ("TestExtensionB", "test-only type; cfg(test) mod tests of mls-rs-core extension/list.rs"),
    ("TestExtensionC", "test-only type; cfg(test) mod tests of mls-rs-core extension/list.rs"),
];

/// deterministic inputs for the type with vectors of zero-size elements (compared with the model like every other row)
fn zero_elem_inputs() -> Vec<Vec<u8>> {
    let mut v: Vec<Vec<u8>> = vec![vec![0, 0], vec![1, 0xff, 0], vec![0, 1, 0xff], vec![0, 1], vec![1, 0], vec![0xbf, 0xff, 0xff, 0xff], vec![0, 0xbf, 0xff, 0xff, 0xff], vec![0x40, 0x00, 0], vec![0, 0x80, 0, 0, 0]];
    for l in [63usize, 64, 16384] {
        let mut a = varint(l as u64);
        a.extend(std::iter::repeat(0u8).take(l));
        a.push(0);
        v.push(a.clone());
        let mut b = vec![0u8];
        b.extend(&a[..a.len() - 1]);
        v.push(b);
    }
    v
}

pub fn run(o: &Opts) -> i32 {
    crate::util::quiet_panics();
    let dir = o.str("out", "/verif/work/c12");
    std::fs::create_dir_all(&dir).ok();
    let mut rng = Rng::new(o.seed());
    let schemas = load_schemas(&o.str("schemas", "/verif/lean/MlsVerif/Gen/schemas.txt"));
    let per_type = o.u64("per_type", if o.thorough() { 3000 } else { 220 });
    // types the translator resolved to a codec record (hand-written codecs composed with derived ones): compared exactly (`decc`)
    let codec_names: BTreeSet<String> = std::fs::read_to_string(o.str("codecs", "/verif/lean/MlsVerif/Gen/codecs.txt"))
        .unwrap_or_default()
        .lines()
        .filter_map(|l| l.split('\t').next().map(|x| x.to_string()))
        .filter(|x| !x.is_empty())
        .collect();
    let st = Stats {
        fails: vec![],
        inputs: Default::default(),
        outcomes: Default::default(),
        accepted_by_type: Default::default(),
        max_ratio_milli: 0,
        max_ratio_case: String::new(),
        cases: 0,
        modelled: Default::default(),
        unprobed: vec![],
        codec_rows: Default::default(),
        by_type: Default::default(),
        notes: vec![],
        slowest: (Duration::ZERO, String::new()),
        work: (0, 0, 0),
    };
    // a deadline for every single codec call (wall time of that call alone)
    let deadline = Duration::from_millis(o.u64("deadline_ms", o.u64("deadline_s", 20) * 1000).max(1));
    let sh = Arc::new(Shared {
        dir: dir.clone(),
        deadline,
        st: Mutex::new(st),
        qa: Mutex::new(QA::create(&dir, "c12")),
        call: Mutex::new(Call { active: false, name: String::new(), kind: String::new(), phase: None, input: Vec::with_capacity(1 << 16), input_is_text: false, start: Instant::now(), limit: deadline }),
    });
    // a failures file from an earlier run must not survive a run that is killed from outside
    let _ = std::fs::remove_file(format!("{dir}/c12.failures"));
    spawn_watchdog(sh.clone());
    let sh: &Shared = &sh;

    // ---- (0) the variable-length integer itself: range check + encoding of length headers, decoding of raw bytes ----------
    {
        use mls_rs::mls_rs_codec::{MlsDecode, MlsEncode, VarInt};
        let mut ns: Vec<u32> = vec![0, 1, 62, 63, 64, 65, 16382, 16383, 16384, 16385, (1 << 30) - 2, (1 << 30) - 1, 1 << 30, (1 << 30) + 1, u32::MAX - 1, u32::MAX];
        for _ in 0..200 {
            let bits = rng.below(33);
            ns.push(if bits == 0 { 0 } else { (rng.below(1u64 << bits) as u32) | (1u32 << (bits - 1).min(31)) });
        }
        for n in ns {
            let ans = sh.timed_value("VarInt", "varint", "encode", &format!("{n}"), || match VarInt::try_from(n) {
                Ok(v) => v.mls_encode_to_vec().map(|b| hex(&b)).unwrap_or("err".into()),
                Err(_) => "err".into(),
            });
            sh.put(&format!("vi {n}"), &ans);
        }
        let mut raws: Vec<Vec<u8>> = vec![vec![0x3f], vec![0x40, 0x3f], vec![0x40, 0x40], vec![0x7f, 0xff], vec![0x80, 0, 0x3f, 0xff], vec![0x80, 0, 0x40, 0], vec![0xbf, 0xff, 0xff, 0xff], vec![0xc0], vec![0xff, 0xff, 0xff, 0xff], vec![0x7f], vec![0x80, 0, 0]];
        for _ in 0..300 {
            let len = 1 + rng.below(5) as usize;
            let mut b = rng.bytes(len);
            if rng.chance(1, 2) {
                // bias towards short values in long encodings (minimum-length rule)
                for x in b.iter_mut().skip(1).take(2) {
                    if rng.chance(1, 2) {
                        *x = 0;
                    }
                }
                b[0] &= 0xc0 | (rng.below(2) as u8);
            }
            raws.push(b);
        }
        for b in raws {
            let ans = sh.timed("VarInt", "varint", Some("decode"), &b, || {
                let mut rd: &[u8] = &b;
                match VarInt::mls_decode(&mut rd) {
                    Ok(v) => format!("{} {}", u32::from(v), b.len() - rd.len()),
                    Err(_) => "err".into(),
                }
            });
            sh.put(&format!("vd {}", hex(&b)), &ans);
        }
    }

    // ---- (0b) work bound without a clock: element decodes of the generic containers are bounded by the input length --------
    // (its own generator state, so that the inputs of the other sections do not depend on it)
    work_bound(&mut Rng::new(o.seed() ^ 0x776f726b), sh);

    // ---- (1) types with a generated schema: implementation vs model --------------------------------------------------
    for (name, refined, sch) in &schemas {
        if probe(name, &[]).is_none() {
            let reason = NO_DECODE.iter().find(|(n, _)| n == name).map(|(_, r)| *r);
            if reason.is_none() {
                sh.st().notes.push(format!("schema type {name} has no decode probe and no recorded reason: add it to the probe table of verif::codec"));
            }
            sh.st().unprobed.push(format!("{name}({})", reason.unwrap_or("UNCLASSIFIED: no probe and no recorded reason")));
            continue;
        }
        sh.st().modelled.insert(name.clone());
        let is_v = name.starts_with('V');
        if name == "VZeroElems" {
            for bytes in zero_elem_inputs() {
                let ans = guarded_probe(name, &bytes, sh, "zero-size-elements");
                if ans != "panic" {
                    sh.put(&format!("dec {name} {}", hex(&bytes)), &ans);
                }
            }
        }
        for k in 0..per_type {
            let (kind, bytes): (String, Vec<u8>) = match k % 10 {
                0..=3 => {
                    // a valid encoding: for the test types the real encoder of a random value, otherwise the schema generator
                    let b = if is_v && k % 2 == 0 {
                        fn enc<T: MlsEncode + std::fmt::Debug>(sh: &Shared, name: &str, v: T) -> Vec<u8> {
                            sh.timed_value(name, "valid", "encode", &format!("{v:?}"), || v.mls_encode_to_vec().unwrap())
                        }
                        match name.as_str() {
                            "VInts" => enc(sh, name, r_ints(&mut rng)),
                            "VChoice" => enc(sh, name, r_choice(&mut rng)),
                            "VWide" => enc(sh, name, r_wide(&mut rng)),
                            "VNest" => enc(sh, name, r_nest(&mut rng)),
                            "VMaps" => enc(sh, name, r_maps(&mut rng)),
                            "VWrap" => enc(sh, name, VWrap((0..rng.below(3)).map(|_| r_nest(&mut rng)).collect())),
                            "VEmpty" => enc(sh, name, VEmpty {}),
                            _ => enc(sh, name, VZeroElems { zs: vec![], es: vec![] }),
                        }
                    } else {
                        gen(sch, &mut rng, 0)
                    };
                    ("valid".into(), b)
                }
                4..=7 => {
                    let b = gen(sch, &mut rng, 0);
                    let (l, v) = mutate(&b, &mut rng);
                    (l.into(), v)
                }
                8 => {
                    let b = gen(sch, &mut rng, 0);
                    let (_, v) = mutate(&b, &mut rng);
                    let (_, v) = mutate(&v, &mut rng);
                    ("double-mutation".into(), v)
                }
                _ => {
                    let l = rng.below(24) as usize;
                    ("random".into(), rng.bytes(l))
                }
            };
            if bytes.len() > 40000 {
                continue;
            }
            let ans = guarded_probe(name, &bytes, sh, &kind);
            if kind == "valid" && !ans.starts_with("ok") && !*refined {
                // not a failure by itself (the generator is only an input generator) but the model must agree
            }
            if ans == "panic" {
                continue;
            }
            let verb = if codec_names.contains(name) { "decc" } else if *refined && ans == "err" && !EXACT_REFINED.contains(&name.as_str()) { "decx" } else { "dec" };
            sh.put(&format!("{verb} {name} {}", hex(&bytes)), &ans);
        }
    }

    // ---- (2) values the library produced (hand-written codecs included): exact round trip; mutations: oracle only ----
    let mut corpus = Corpus { items: vec![] };
    let mut notes = vec![];
    let hn = o.u64("histories", if o.thorough() { 12 } else { 3 });
    for _ in 0..hn {
        let seed = rng.next();
        sh.timed_history(seed, || harvest(seed, &mut corpus, &mut notes));
    }
    sh.st().notes.append(&mut notes);
    let modelled: BTreeSet<String> = sh.st().modelled.clone();
    let muts = o.u64("mutations", if o.thorough() { 60 } else { 12 });
    let mut seen: BTreeSet<Vec<u8>> = BTreeSet::new();
    for (name, bytes) in &corpus.items {
        if !seen.insert([name.as_bytes(), &bytes[..]].concat()) {
            continue;
        }
        *sh.st().by_type.entry(name.to_string()).or_default() += 1;
        let ans = guarded_probe(name, bytes, sh, "produced");
        let want = format!("ok {} {} same", bytes.len(), bytes.len());
        // stored state holds unordered maps (ratchet history, proposal cache, tree index) whose iteration order is not part of the
        // value: the round trip returns the same value and the same number of bytes, not necessarily the same byte order
        let want_unordered = format!("ok {} {} diff", bytes.len(), bytes.len());
        if ans != want && !(UNORDERED_STATE.contains(name) && ans == want_unordered) {
            sh.st().fail(format!("{name}: a value the library produced does not round-trip exactly: got `{ans}`, want `{want}`: {}", hex(&bytes[..bytes.len().min(80)])));
        }
        let in_codecs = codec_names.contains(*name);
        if in_codecs {
            put_codec_row(sh, name, bytes, &ans);
        } else if modelled.contains(*name) {
            sh.put(&format!("dec {name} {}", hex(bytes)), &ans);
        }
        for _ in 0..muts {
            let (l, v) = mutate(bytes, &mut rng);
            let ans = guarded_probe(name, &v, sh, l);
            if in_codecs && ans != "panic" {
                put_codec_row(sh, name, &v, &ans);
            } else if modelled.contains(*name) && ans != "panic" {
                let refined = schemas.iter().any(|(n, r, _)| n == name && *r);
                let verb = if refined && ans == "err" && !EXACT_REFINED.contains(name) { "decx" } else { "dec" };
                sh.put(&format!("{verb} {name} {}", hex(&v)), &ans);
            }
        }
        // the public entry points of the observe_at list
        match *name {
            "MlsMessage" => {
                let r = sh.timed("MlsMessage", "produced", Some("from_bytes/to_bytes"), bytes, || std::panic::catch_unwind(|| MlsMessage::from_bytes(bytes).and_then(|m| m.to_bytes())));
                if !matches!(&r, Ok(Ok(b)) if b == bytes) {
                    sh.st().fail(format!("MlsMessage::from_bytes/to_bytes is not the identity on a produced message: {}", hex(&bytes[..bytes.len().min(80)])));
                }
            }
            "NodeVec" => {
                let r = sh.timed("ExportedTree", "produced", Some("from_bytes/to_bytes"), bytes, || std::panic::catch_unwind(|| ExportedTree::from_bytes(bytes).and_then(|m| m.to_bytes())));
                if !matches!(&r, Ok(Ok(b)) if b == bytes) {
                    sh.st().fail("ExportedTree::from_bytes/to_bytes is not the identity on an exported tree".into());
                }
            }
            "PendingCommitSnapshot" => {
                let r = sh.timed("CommitSecrets", "produced", Some("from_bytes/to_bytes"), bytes, || std::panic::catch_unwind(|| mls_rs::group::CommitSecrets::from_bytes(bytes).and_then(|m| m.to_bytes())));
                if !matches!(&r, Ok(Ok(b)) if b == bytes) {
                    sh.st().fail("CommitSecrets::from_bytes/to_bytes is not the identity".into());
                }
            }
            "ExternalSnapshot" => {
                let r = sh.timed("ExternalSnapshot", "produced", Some("from_bytes/to_bytes"), bytes, || std::panic::catch_unwind(|| mls_rs::external_client::ExternalSnapshot::from_bytes(bytes).and_then(|m| m.to_bytes())));
                if !matches!(&r, Ok(Ok(b)) if b == bytes) {
                    sh.st().fail("ExternalSnapshot::from_bytes/to_bytes is not the identity".into());
                }
            }
            _ => {}
        }
    }
    // every proposal type value 0..10 and two custom ones with short random payloads (reserved / defined / custom types)
    if codec_names.contains("Proposal") {
        for t in (0u16..=10).chain([0xf000u16, 0xffff]) {
            for _ in 0..6 {
                let mut b = t.to_be_bytes().to_vec();
                let l = rng.below(14) as usize;
                if rng.chance(2, 3) {
                    // a well-formed opaque payload (what a custom proposal carries)
                    b.extend(prefixed(rng.bytes(l)));
                } else {
                    b.extend(rng.bytes(l));
                }
                let ans = guarded_probe("Proposal", &b, sh, "proposal-type-sweep");
                if ans != "panic" {
                    put_codec_row(sh, "Proposal", &b, &ans);
                }
            }
        }
    }
    // the encode side of the same rule: a custom proposal built through the public API with every type value 0..10 and two
    // custom ones — whatever the encoder produces must decode to the same value and re-encode to the same bytes, and a reserved
    // type (the values of the defined proposal types) must be refused by the encoder, not produce bytes nobody can read
    {
        use mls_rs::group::proposal::{CustomProposal, Proposal, ProposalType};
        use mls_rs::mls_rs_codec::{MlsDecode, MlsEncode};
        for t in (0u16..=10).chain([0xf000u16, 0xffff]) {
            let data = rng.bytes(5);
            let p = Proposal::Custom(CustomProposal::new(ProposalType::from(t), data.clone()));
            sh.st().cases += 1;
            let what = format!("custom proposal of type {t} with data {}", hex(&data));
            match sh.timed_value("Proposal", "custom-proposal-encode", "encode", &what, || std::panic::catch_unwind(|| p.mls_encode_to_vec())) {
                Err(_) => sh.st().fail(format!("encoding a custom proposal of type {t} panics")),
                Ok(Err(_)) => {
                    *sh.st().outcomes.entry("custom-encode:refused".into()).or_default() += 1;
                }
                Ok(Ok(b)) => {
                    *sh.st().outcomes.entry("custom-encode:ok".into()).or_default() += 1;
                    let back = sh.timed("Proposal", "custom-proposal-encode", Some("decode + encode"), &b, || {
                        std::panic::catch_unwind(|| Proposal::mls_decode(&mut &*b).map(|q| (q == p, q.mls_encode_to_vec().ok().as_deref() == Some(&b[..]))))
                    });
                    match back {
                        Ok(Ok((true, true))) => {}
                        Ok(Ok(_)) => sh.st().fail(format!("a custom proposal of type {t} decodes to a different proposal")),
                        Ok(Err(_)) => sh.st().fail(format!("the encoder produced a custom proposal of type {t} that the decoder refuses")),
                        Err(_) => sh.st().fail(format!("decoding the encoding of a custom proposal of type {t} panics")),
                    }
                    let ans = guarded_probe("Proposal", &b, sh, "custom-proposal-encode");
                    if ans != "panic" && codec_names.contains("Proposal") {
                        // (not counted in codec_model_rows, as before)
                        sh.put(&format!("decc Proposal {}", hex(&b)), &ans);
                    }
                }
            }
        }
    }
    // the same for credentials: a custom credential built through the public API with the type values of the defined credential
    // types (basic = 1, x509 = 2), 0 and real custom values — whatever the encoder produces must decode to the same value
    {
        use mls_rs::identity::{Credential, CredentialType, CustomCredential};
        use mls_rs::mls_rs_codec::{MlsDecode, MlsEncode};
        for t in [0u16, 1, 2, 3, 0xf000, 0xffff] {
            for data in [vec![], vec![5u8], vec![1u8, 0], rng.bytes(7)] {
                let c = Credential::Custom(CustomCredential::new(CredentialType::new(t), data.clone()));
                sh.st().cases += 1;
                let what = format!("custom credential of type {t} with data {}", hex(&data));
                match sh.timed_value("Credential", "custom-credential-encode", "encode", &what, || std::panic::catch_unwind(|| c.mls_encode_to_vec())) {
                    Err(_) => sh.st().fail(format!("encoding a custom credential of type {t} panics")),
                    Ok(Err(_)) => {
                        *sh.st().outcomes.entry("custom-credential-encode:refused".into()).or_default() += 1;
                    }
                    Ok(Ok(b)) => {
                        *sh.st().outcomes.entry("custom-credential-encode:ok".into()).or_default() += 1;
                        let back = sh.timed("Credential", "custom-credential-encode", Some("decode + encode"), &b, || {
                            std::panic::catch_unwind(|| Credential::mls_decode(&mut &*b).map(|q| (q == c, q.mls_encode_to_vec().ok().as_deref() == Some(&b[..]))))
                        });
                        match back {
                            Ok(Ok((true, true))) => {}
                            Ok(Ok(_)) => sh.st().fail(format!("a custom credential of type {t} (data {}) decodes to a different credential", hex(&data))),
                            Ok(Err(_)) => sh.st().fail(format!("the encoder produced a custom credential of type {t} (data {}) that the decoder refuses", hex(&data))),
                            Err(_) => sh.st().fail(format!("decoding the encoding of a custom credential of type {t} (data {}) panics", hex(&data))),
                        }
                    }
                }
            }
        }
    }
    let rows = lock(&sh.qa).flush();
    let st = sh.st();
    print_summary(&st, rows);
    write_failures(&dir, &st.fails);
    0
}
