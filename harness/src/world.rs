//! The world harness: several real clients/groups driven in-process, with instrumented providers,
//! an explicit message pool, and direct oracles of the properties evaluated on the real members.
use crate::providers::*;
use crate::util::{hex, Rng};
use mls_rs::client_builder::MlsConfig;
use mls_rs::error::MlsError;
use mls_rs::group::proposal::Proposal;
use mls_rs::group::{CommitEffect, ExportedTree, Node, ReceivedMessage};
use mls_rs::identity::basic::BasicCredential;
use mls_rs::identity::SigningIdentity;
use mls_rs::mls_rules::{CommitOptions, DefaultMlsRules, EncryptionOptions};
use mls_rs::psk::{ExternalPskId, PreSharedKey};
use mls_rs::storage_provider::in_memory::{
    InMemoryGroupStateStorage, InMemoryKeyPackageStorage, InMemoryPreSharedKeyStorage,
};
use mls_rs::{CipherSuite, CipherSuiteProvider, Client, CryptoProvider, Group, MlsMessage};
use mls_rs_crypto_rustcrypto::RustCryptoProvider;
use std::collections::BTreeMap;
use std::sync::{Arc, Mutex};

pub type Crypto = RecProvider<crate::anyprov::AnyProvider>;

#[derive(Clone, Debug)]
pub struct Setup {
    pub name: String,
    pub suite: u16,
    pub sqlite: bool,
    pub retention: usize,
    pub tree_ext: bool,
    pub single_welcome: bool,
    pub path_required: bool,
    pub enc_ctl: bool,
    /// 0 = RustCrypto (default), 1 = OpenSSL, 2 = AWS-LC
    pub provider: u8,
    /// this client publishes invalid key packages (hist offender kind 6): 0 = no, 1 = a default proposal type listed in the
    /// capabilities, 2 = a default extension type listed, 3 = expired lifetime, 4 = a client of another cipher suite
    pub bad_caps: u8,
}

impl Setup {
    pub fn new(name: &str) -> Self {
        Setup {
            name: name.into(),
            suite: 1,
            sqlite: false,
            retention: 3,
            tree_ext: true,
            single_welcome: true,
            path_required: false,
            enc_ctl: false,
            provider: 0,
            bad_caps: 0,
        }
    }
}

/// Shared handles of one member's providers (kept by the harness so it can inject faults and peek).
#[derive(Clone)]
pub struct Handles {
    pub fault: SharedFault,
    pub store: VStore,
    pub kp: VKp,
    pub psk: VPsk,
    pub idp: VId,
    pub crypto: Crypto,
    pub sqlite_path: Option<std::path::PathBuf>,
}

pub fn handles(s: &Setup, log: &SharedCryptoLog, scratch: &str) -> Handles {
    let fault: SharedFault = Default::default();
    let mut sqlite_path = None;
    let backend = if s.sqlite {
        #[cfg(feature = "sqlite")]
        {
            use mls_rs_provider_sqlite::{connection_strategy::FileConnectionStrategy, SqLiteDataStorageEngine};
            std::fs::create_dir_all(scratch).ok();
            let p = std::path::Path::new(scratch).join(format!("{}-{}.db", s.name, std::process::id()));
            let _ = std::fs::remove_file(&p);
            let eng = SqLiteDataStorageEngine::new(FileConnectionStrategy::new(&p)).expect("sqlite engine");
            sqlite_path = Some(p);
            StoreBackend::Sql(eng.group_state_storage().expect("sqlite storage").with_max_epoch_retention(s.retention as u64))
        }
        #[cfg(not(feature = "sqlite"))]
        {
            let _ = scratch;
            StoreBackend::Mem(InMemoryGroupStateStorage::new().with_max_epoch_retention(s.retention).unwrap())
        }
    } else {
        let _ = scratch;
        StoreBackend::Mem(InMemoryGroupStateStorage::new().with_max_epoch_retention(s.retention).unwrap())
    };
    Handles {
        store: VStore { backend, fault: fault.clone() },
        kp: VKp { inner: InMemoryKeyPackageStorage::new(), fault: fault.clone() },
        psk: VPsk { inner: Arc::new(Mutex::new(InMemoryPreSharedKeyStorage::default())), fault: fault.clone() },
        idp: VId { fault: fault.clone(), rejected: Default::default() },
        crypto: RecProvider { inner: crate::anyprov::AnyProvider::by_index(s.provider), log: log.clone() },
        fault,
        sqlite_path,
    }
}

pub fn mk_client(
    s: &Setup,
    h: &Handles,
    id: SigningIdentity,
    sk: mls_rs::crypto::SignatureSecretKey,
) -> Client<impl MlsConfig> {
    let rules = DefaultMlsRules::new()
        .with_commit_options(
            CommitOptions::new()
                .with_ratchet_tree_extension(s.tree_ext)
                .with_single_welcome_message(s.single_welcome)
                .with_path_required(s.path_required)
                .with_allow_external_commit(true),
        )
        .with_encryption_options(EncryptionOptions::new(s.enc_ctl, mls_rs::client_builder::PaddingMode::None));
    Client::builder()
        .crypto_provider(h.crypto.clone())
        .identity_provider(h.idp.clone())
        .group_state_storage(h.store.clone())
        .key_package_repo(h.kp.clone())
        .psk_store(h.psk.clone())
        .mls_rules(rules)
        .signing_identity(id, sk, CipherSuite::from(s.suite))
        .build()
}

pub fn err_class(e: &MlsError) -> String {
    let d = format!("{e:?}");
    let head: String = d.chars().take_while(|c| c.is_alphanumeric()).collect();
    if d.contains("injected fault") {
        return format!("Fault:{head}");
    }
    head
}

#[derive(Clone, Debug, PartialEq)]
pub enum Res {
    Ok,
    Err(String),
    Panic(String),
}

impl Res {
    pub fn ok(&self) -> bool {
        matches!(self, Res::Ok)
    }
    pub fn s(&self) -> String {
        match self {
            Res::Ok => "ok".into(),
            Res::Err(e) => format!("err:{e}"),
            Res::Panic(p) => format!("panic:{}", p.replace(' ', "_").chars().take(60).collect::<String>()),
        }
    }
}

#[derive(Clone)]
pub struct Msg {
    pub kind: &'static str, // proposal | commit | app | welcome | groupinfo | kp
    pub from: String,
    pub epoch: u64,
    pub msg: MlsMessage,
    pub tree: Option<Vec<u8>>, // exported tree going with a welcome / group info when not in extension
    pub note: String,
}

pub struct Member<C: MlsConfig> {
    pub setup: Setup,
    pub h: Handles,
    pub client: Client<C>,
    pub group: Option<Group<C>>,
    pub identity: Vec<u8>,
    /// retained groups of this member after it was removed (for C02)
    pub ghosts: Vec<Group<C>>,
    /// the member has persisted this group at least once (its storage holds prior-epoch records)
    pub wrote: bool,
}

/// First-appearance numbering of byte strings (keys, secrets) for canonical printing.
#[derive(Default)]
pub struct Stamps {
    pub map: BTreeMap<Vec<u8>, usize>,
}

impl Stamps {
    pub fn of(&mut self, b: &[u8]) -> usize {
        let n = self.map.len() + 1;
        *self.map.entry(b.to_vec()).or_insert(n)
    }
    pub fn known(&self, b: &[u8]) -> Option<usize> {
        self.map.get(b).copied()
    }
}

pub struct World<C: MlsConfig> {
    pub members: Vec<Member<C>>,
    pub msgs: Vec<Msg>,
    pub crypto_log: SharedCryptoLog,
    pub stamps: Stamps,
    pub oplog: Vec<String>,
    pub scratch: String,
    pub psks: BTreeMap<Vec<u8>, Vec<u8>>,
    /// identities every member's application refuses (revoked after their key package was proposed)
    pub rejected: Vec<Vec<u8>>,
    /// the group was re-initialised by a commit: the history ends
    pub ended: bool,
    /// per member: (tree string, tree-hash cache entries) as of the previous commit, for the cache-coherence rows (C08)
    pub hash_caches: BTreeMap<usize, (String, Vec<Vec<u8>>)>,
    /// per member: the parent-hash layer (stored parent_hash of every parent, Commit source of every leaf) as of the previous commit
    pub ph_layers: BTreeMap<usize, Vec<Option<Vec<u8>>>>,
    /// rows of the composed group model (`mlsmodel group`: g.init / g.commit / g.classes / g.slots) of this history
    pub group_rows: Vec<(String, String)>,
    /// every leaf stamp given to the group model so far (its canonical printing treats all other stamps as model-made)
    pub group_known: std::collections::BTreeSet<usize>,
    /// identities of current members that every application refuses for the rest of this round only (offender kind 10)
    pub temp_rejected: Vec<Vec<u8>>,
    /// init keys of the key packages the last commit added (C02: Welcome recipients)
    pub last_add_init_keys: Vec<Vec<u8>>,
}

/// Abstract view of one tree node, numbers from `Stamps`.
#[derive(Clone, Debug, PartialEq, Eq)]
pub enum ANode {
    Blank,
    Leaf { ident: usize, hpke: usize, sig: usize },
    Parent { key: usize, unmerged: Vec<u32> },
}

pub fn abstract_nodes(nodes: &[Option<Node>], st: &mut Stamps) -> Vec<ANode> {
    nodes
        .iter()
        .map(|n| match n {
            None => ANode::Blank,
            Some(Node::Leaf(l)) => ANode::Leaf {
                ident: st.of(
                    &l.signing_identity
                        .credential
                        .as_basic()
                        .map(|b| b.identifier.clone())
                        .unwrap_or_default(),
                ),
                hpke: st.of(&l.public_key),
                sig: st.of(&l.signing_identity.signature_key),
            },
            Some(Node::Parent(p)) => ANode::Parent {
                key: st.of(&p.public_key),
                unmerged: p.unmerged_leaves.iter().map(|l| **l).collect(),
            },
        })
        .collect()
}

/// the parent-hash layer of a node vector: `None` for a blank node or a leaf whose source is not a commit
pub fn ph_layer(nodes: &[Option<Node>]) -> Vec<Option<Vec<u8>>> {
    nodes
        .iter()
        .map(|n| match n {
            None => None,
            Some(Node::Parent(p)) => Some(p.parent_hash.to_vec()),
            Some(Node::Leaf(l)) => match &l.leaf_node_source {
                mls_rs::group::LeafNodeSource::Commit(ph) => Some(ph.to_vec()),
                _ => None,
            },
        })
        .collect()
}

pub fn tree_str(t: &[ANode]) -> String {
    if t.is_empty() {
        return "-".into();
    }
    t.iter()
        .map(|n| match n {
            ANode::Blank => "_".to_string(),
            ANode::Leaf { ident, hpke, sig } => format!("L:{ident}:{hpke}:{sig}"),
            ANode::Parent { key, unmerged } => format!(
                "P:{key}:{}",
                if unmerged.is_empty() {
                    "-".to_string()
                } else {
                    unmerged.iter().map(|u| u.to_string()).collect::<Vec<_>>().join(".")
                }
            ),
        })
        .collect::<Vec<_>>()
        .join("|")
}

impl<C: MlsConfig> World<C> {
    pub fn idx(&self, name: &str) -> usize {
        self.members.iter().position(|m| m.setup.name == name).expect("member exists")
    }

    pub fn group(&self, i: usize) -> &Group<C> {
        self.members[i].group.as_ref().expect("has group")
    }

    pub fn log(&mut self, s: String) {
        self.oplog.push(s);
    }

    pub fn push_msg(&mut self, kind: &'static str, from: &str, epoch: u64, msg: MlsMessage, note: &str) -> usize {
        self.msgs.push(Msg { kind, from: from.into(), epoch, msg, tree: None, note: note.into() });
        self.msgs.len() - 1
    }

    /// Run an operation on a member's group, catching panics.
    pub fn with_group<T>(
        &mut self,
        i: usize,
        f: impl FnOnce(&mut Group<C>) -> Result<T, MlsError>,
    ) -> (Res, Option<T>) {
        let g = self.members[i].group.as_mut().expect("has group");
        let r = std::panic::catch_unwind(std::panic::AssertUnwindSafe(|| f(g)));
        match r {
            Ok(Ok(t)) => (Res::Ok, Some(t)),
            Ok(Err(e)) => (Res::Err(err_class(&e)), None),
            Err(p) => {
                let s = if let Some(s) = p.downcast_ref::<&str>() {
                    s.to_string()
                } else if let Some(s) = p.downcast_ref::<String>() {
                    s.clone()
                } else {
                    "panic".into()
                };
                (Res::Panic(s), None)
            }
        }
    }

    pub fn components(&self, i: usize) -> Vec<(String, Vec<u8>)> {
        self.group(i).verif_components()
    }

    /// Names of the components that differ between two component lists.
    pub fn changed(a: &[(String, Vec<u8>)], b: &[(String, Vec<u8>)]) -> Vec<String> {
        a.iter().zip(b.iter()).filter(|(x, y)| x.1 != y.1).map(|(x, _)| x.0.clone()).collect()
    }

    pub fn exported_tree_bytes(&self, i: usize) -> Vec<u8> {
        self.group(i).export_tree().to_bytes().unwrap()
    }

    pub fn anodes(&mut self, i: usize) -> Vec<ANode> {
        let nodes: Vec<Option<Node>> = self.members[i].group.as_ref().unwrap().verif_nodes().iter().cloned().collect();
        abstract_nodes(&nodes, &mut self.stamps)
    }

    pub fn priv_bits(&self, i: usize) -> (u32, Vec<bool>) {
        let (idx, keys) = self.group(i).verif_private_tree();
        (idx, keys.iter().map(|k| k.is_some()).collect())
    }

    // ---- fault control ---------------------------------------------------------------------
    pub fn fault_reset(&self, i: usize) {
        let mut f = self.members[i].h.fault.lock().unwrap();
        f.counter = 0;
        f.fail_at.clear();
        f.log.clear();
        f.faults_fired.clear();
    }
    pub fn fault_arm(&self, i: usize, at: Vec<u64>) {
        let mut f = self.members[i].h.fault.lock().unwrap();
        f.counter = 0;
        f.fail_at = at;
        f.log.clear();
        f.faults_fired.clear();
    }
    pub fn fault_log(&self, i: usize) -> Vec<String> {
        self.members[i].h.fault.lock().unwrap().log.clone()
    }
    pub fn fault_fired(&self, i: usize) -> Vec<String> {
        self.members[i].h.fault.lock().unwrap().faults_fired.clone()
    }
}

/// Agreement oracle (C01): all listed members hold the same context, tree, authenticator and exports.
pub fn agreement<C: MlsConfig>(w: &World<C>, who: &[usize]) -> Result<(), String> {
    if who.len() < 2 {
        return Ok(());
    }
    let base = who[0];
    let g0 = w.group(base);
    let ctx0 = mls_rs::mls_rs_codec::MlsEncode::mls_encode_to_vec(g0.context()).unwrap();
    let tree0 = w.exported_tree_bytes(base);
    let auth0 = g0.epoch_authenticator().map(|s| s.as_bytes().to_vec()).map_err(|e| format!("authenticator: {e:?}"))?;
    let exp0 = g0.export_secret(b"verif", b"ctx", 32).map(|s| s.as_bytes().to_vec()).map_err(|e| format!("export: {e:?}"))?;
    let roster0: Vec<(u32, Vec<u8>)> = g0.roster().members_iter().map(|m| (m.index, m.signing_identity.signature_key.to_vec())).collect();
    for &i in &who[1..] {
        let g = w.group(i);
        let n = &w.members[i].setup.name;
        let b = &w.members[base].setup.name;
        if mls_rs::mls_rs_codec::MlsEncode::mls_encode_to_vec(g.context()).unwrap() != ctx0 {
            return Err(format!("group context of {n} differs from {b} (epochs {} vs {})", g.current_epoch(), g0.current_epoch()));
        }
        if w.exported_tree_bytes(i) != tree0 {
            return Err(format!("exported tree of {n} differs from {b}"));
        }
        if g.epoch_authenticator().map(|s| s.as_bytes().to_vec()).ok() != Some(auth0.clone()) {
            return Err(format!("epoch authenticator of {n} differs from {b}"));
        }
        if g.export_secret(b"verif", b"ctx", 32).map(|s| s.as_bytes().to_vec()).ok() != Some(exp0.clone()) {
            return Err(format!("exported secret of {n} differs from {b}"));
        }
        let r: Vec<(u32, Vec<u8>)> = g.roster().members_iter().map(|m| (m.index, m.signing_identity.signature_key.to_vec())).collect();
        if r != roster0 {
            return Err(format!("roster of {n} differs from {b}"));
        }
    }
    Ok(())
}

pub fn new_world<C: MlsConfig>(log: SharedCryptoLog, scratch: &str) -> World<C> {
    World {
        members: vec![],
        msgs: vec![],
        crypto_log: log,
        stamps: Default::default(),
        oplog: vec![],
        scratch: scratch.into(),
        psks: Default::default(),
        rejected: vec![],
        ended: false,
        hash_caches: Default::default(),
        ph_layers: Default::default(),
        group_rows: vec![],
        group_known: Default::default(),
        temp_rejected: vec![],
        last_add_init_keys: vec![],
    }
}

pub fn make_identity(name: &str, suite: u16) -> (SigningIdentity, mls_rs::crypto::SignatureSecretKey) {
    // RustCrypto for the suites it has, OpenSSL (all seven) otherwise
    let cs = crate::anyprov::AnyProvider::by_index(0)
        .cipher_suite_provider(CipherSuite::from(suite))
        .or_else(|| crate::anyprov::AnyProvider::by_index(1).cipher_suite_provider(CipherSuite::from(suite)))
        .expect("suite");
    let (sk, pk) = cs.signature_key_generate().unwrap();
    (SigningIdentity::new(BasicCredential::new(name.as_bytes().to_vec()).into_credential(), pk), sk)
}

pub fn proposal_kind(p: &Proposal) -> &'static str {
    match p {
        Proposal::Add(_) => "add",
        Proposal::Update(_) => "update",
        Proposal::Remove(_) => "remove",
        Proposal::Psk(_) => "psk",
        Proposal::ReInit(_) => "reinit",
        Proposal::ExternalInit(_) => "extinit",
        Proposal::GroupContextExtensions(_) => "gce",
        Proposal::Custom(_) => "custom",
        #[allow(unreachable_patterns)]
        _ => "other",
    }
}

pub fn received_summary(r: &ReceivedMessage) -> String {
    match r {
        ReceivedMessage::ApplicationMessage(a) => format!("app from={} len={}", a.sender_index, a.data().len()),
        ReceivedMessage::Commit(c) => match &c.effect {
            CommitEffect::NewEpoch(n) => format!(
                "commit from={} new_epoch={} applied=[{}] unused=[{}]",
                c.committer,
                n.epoch,
                n.applied_proposals.iter().map(|p| proposal_kind(&p.proposal)).collect::<Vec<_>>().join(","),
                n.unused_proposals.iter().map(|p| proposal_kind(&p.proposal)).collect::<Vec<_>>().join(",")
            ),
            CommitEffect::Removed { .. } => format!("commit from={} removed", c.committer),
            CommitEffect::ReInit(_) => format!("commit from={} reinit", c.committer),
        },
        ReceivedMessage::Proposal(p) => format!("proposal {}", proposal_kind(&p.proposal)),
        ReceivedMessage::GroupInfo(_) => "groupinfo".into(),
        ReceivedMessage::Welcome => "welcome".into(),
        ReceivedMessage::KeyPackage(_) => "keypackage".into(),
    }
}

pub fn ext_psk_id(id: &[u8]) -> ExternalPskId {
    ExternalPskId::new(id.to_vec())
}

pub fn psk_value(v: &[u8]) -> PreSharedKey {
    PreSharedKey::new(v.to_vec())
}

pub fn tree_of(bytes: &[u8]) -> ExportedTree<'static> {
    ExportedTree::from_bytes(bytes).expect("exported tree re-decodes")
}

#[allow(dead_code)]
pub fn hexs(b: &[u8]) -> String {
    hex(&b[..b.len().min(8)])
}

#[allow(dead_code)]
pub fn pick_some<T: Clone>(rng: &mut Rng, xs: &[T]) -> Option<T> {
    if xs.is_empty() {
        None
    } else {
        Some(rng.pick(xs).clone())
    }
}
