//! Instrumented providers used by the world harness.  They wrap the real providers and only add
//! logging and fault injection; the library itself is untouched.
use mls_rs::crypto::{
    HpkeCiphertext, HpkePublicKey, HpkeSecretKey, SignaturePublicKey, SignatureSecretKey,
};
use mls_rs::error::IntoAnyError;
use mls_rs::identity::basic::BasicIdentityProvider;
use mls_rs::identity::SigningIdentity;
use mls_rs::storage_provider::in_memory::{
    InMemoryGroupStateStorage, InMemoryKeyPackageStorage, InMemoryPreSharedKeyStorage,
};
use mls_rs::time::MlsTime;
use mls_rs::{CipherSuite, CipherSuiteProvider, CryptoProvider, ExtensionList};
use mls_rs_core::crypto::HpkePsk;
use mls_rs_core::group::{EpochRecord, GroupState, GroupStateStorage};
use mls_rs_core::identity::{CredentialType, IdentityProvider, MemberValidationContext};
use mls_rs_core::key_package::{KeyPackageData, KeyPackageStorage};
use mls_rs_core::psk::{ExternalPskId, PreSharedKey, PreSharedKeyStorage};
use std::sync::{Arc, Mutex};
use zeroize::Zeroizing;

// ---------------------------------------------------------------------------------------------
// crypto: recording wrapper

#[derive(Default)]
pub struct CryptoLog {
    /// (remote public key, info) of every `hpke_seal`
    pub hpke_seals: Vec<(Vec<u8>, Vec<u8>)>,
    /// (key, nonce) of every `aead_seal`
    pub aead_seals: Vec<(Vec<u8>, Vec<u8>)>,
    /// every successful `aead_seal` with what the provider was given and what it returned (C05: classification of the seals
    /// into message content / sender data / welcome by the AAD, generation and reuse guard from the sender-data plaintext)
    pub seal_recs: Vec<SealRec>,
    pub enabled: bool,
    /// a malicious member's provider: the next `kem_generate` returns this public key (with a fresh secret)
    pub force_kem_pub: Option<Vec<u8>>,
}

/// One `aead_seal` call: key, nonce as passed (for message content: ratchet nonce XOR reuse guard), AAD, length and the first
/// 16 bytes of the plaintext (the 12-byte sender data is logged completely), the returned ciphertext.
#[derive(Clone, Debug)]
pub struct SealRec {
    pub key: Vec<u8>,
    pub nonce: Vec<u8>,
    pub aad: Option<Vec<u8>>,
    pub pt_len: usize,
    pub pt_head: Vec<u8>,
    pub ct: Vec<u8>,
}

pub type SharedCryptoLog = Arc<Mutex<CryptoLog>>;

#[derive(Clone)]
pub struct RecProvider<P: CryptoProvider + Clone> {
    pub inner: P,
    pub log: SharedCryptoLog,
}

#[derive(Clone)]
pub struct RecCs<C: CipherSuiteProvider + Clone> {
    pub inner: C,
    pub log: SharedCryptoLog,
}

impl<P: CryptoProvider + Clone> CryptoProvider for RecProvider<P> {
    type CipherSuiteProvider = RecCs<P::CipherSuiteProvider>;

    fn supported_cipher_suites(&self) -> Vec<CipherSuite> {
        self.inner.supported_cipher_suites()
    }

    fn cipher_suite_provider(&self, cs: CipherSuite) -> Option<Self::CipherSuiteProvider> {
        self.inner.cipher_suite_provider(cs).map(|inner| RecCs { inner, log: self.log.clone() })
    }
}

impl<C: CipherSuiteProvider + Clone> CipherSuiteProvider for RecCs<C> {
    type Error = C::Error;
    type HpkeContextS = C::HpkeContextS;
    type HpkeContextR = C::HpkeContextR;

    fn cipher_suite(&self) -> CipherSuite {
        self.inner.cipher_suite()
    }
    fn hash(&self, data: &[u8]) -> Result<Vec<u8>, Self::Error> {
        self.inner.hash(data)
    }
    fn mac(&self, key: &[u8], data: &[u8]) -> Result<Vec<u8>, Self::Error> {
        self.inner.mac(key, data)
    }
    fn aead_seal(&self, key: &[u8], data: &[u8], aad: Option<&[u8]>, nonce: &[u8]) -> Result<Vec<u8>, Self::Error> {
        {
            let mut l = self.log.lock().unwrap();
            if l.enabled {
                l.aead_seals.push((key.to_vec(), nonce.to_vec()));
            }
        }
        let r = self.inner.aead_seal(key, data, aad, nonce);
        if let Ok(ct) = &r {
            let mut l = self.log.lock().unwrap();
            if l.enabled {
                l.seal_recs.push(SealRec {
                    key: key.to_vec(),
                    nonce: nonce.to_vec(),
                    aad: aad.map(|a| a.to_vec()),
                    pt_len: data.len(),
                    pt_head: data[..data.len().min(16)].to_vec(),
                    ct: ct.clone(),
                });
            }
        }
        r
    }
    fn aead_open(&self, key: &[u8], ct: &[u8], aad: Option<&[u8]>, nonce: &[u8]) -> Result<Zeroizing<Vec<u8>>, Self::Error> {
        self.inner.aead_open(key, ct, aad, nonce)
    }
    fn aead_key_size(&self) -> usize {
        self.inner.aead_key_size()
    }
    fn aead_nonce_size(&self) -> usize {
        self.inner.aead_nonce_size()
    }
    fn kdf_extract(&self, salt: &[u8], ikm: &[u8]) -> Result<Zeroizing<Vec<u8>>, Self::Error> {
        self.inner.kdf_extract(salt, ikm)
    }
    fn kdf_expand(&self, prk: &[u8], info: &[u8], len: usize) -> Result<Zeroizing<Vec<u8>>, Self::Error> {
        self.inner.kdf_expand(prk, info, len)
    }
    fn kdf_extract_size(&self) -> usize {
        self.inner.kdf_extract_size()
    }
    fn hpke_seal(&self, remote_key: &HpkePublicKey, info: &[u8], aad: Option<&[u8]>, pt: &[u8]) -> Result<HpkeCiphertext, Self::Error> {
        {
            let mut l = self.log.lock().unwrap();
            if l.enabled {
                l.hpke_seals.push((remote_key.to_vec(), info.to_vec()));
            }
        }
        self.inner.hpke_seal(remote_key, info, aad, pt)
    }
    fn hpke_seal_psk(&self, remote_key: &HpkePublicKey, info: &[u8], aad: Option<&[u8]>, pt: &[u8], psk: HpkePsk<'_>) -> Result<HpkeCiphertext, Self::Error> {
        self.inner.hpke_seal_psk(remote_key, info, aad, pt, psk)
    }
    fn hpke_open(&self, ct: &HpkeCiphertext, sk: &HpkeSecretKey, pk: &HpkePublicKey, info: &[u8], aad: Option<&[u8]>) -> Result<Zeroizing<Vec<u8>>, Self::Error> {
        self.inner.hpke_open(ct, sk, pk, info, aad)
    }
    fn hpke_open_psk(&self, ct: &HpkeCiphertext, sk: &HpkeSecretKey, pk: &HpkePublicKey, info: &[u8], aad: Option<&[u8]>, psk: HpkePsk<'_>) -> Result<Zeroizing<Vec<u8>>, Self::Error> {
        self.inner.hpke_open_psk(ct, sk, pk, info, aad, psk)
    }
    fn hpke_setup_s(&self, remote_key: &HpkePublicKey, info: &[u8]) -> Result<(Vec<u8>, Self::HpkeContextS), Self::Error> {
        self.inner.hpke_setup_s(remote_key, info)
    }
    fn hpke_setup_r(&self, kem_output: &[u8], sk: &HpkeSecretKey, pk: &HpkePublicKey, info: &[u8]) -> Result<Self::HpkeContextR, Self::Error> {
        self.inner.hpke_setup_r(kem_output, sk, pk, info)
    }
    fn kem_derive(&self, ikm: &[u8]) -> Result<(HpkeSecretKey, HpkePublicKey), Self::Error> {
        self.inner.kem_derive(ikm)
    }
    fn kem_generate(&self) -> Result<(HpkeSecretKey, HpkePublicKey), Self::Error> {
        let forced = self.log.lock().unwrap().force_kem_pub.take();
        let (sk, pk) = self.inner.kem_generate()?;
        Ok((sk, forced.map(HpkePublicKey::from).unwrap_or(pk)))
    }
    fn kem_public_key_validate(&self, key: &HpkePublicKey) -> Result<(), Self::Error> {
        self.inner.kem_public_key_validate(key)
    }
    fn random_bytes(&self, out: &mut [u8]) -> Result<(), Self::Error> {
        self.inner.random_bytes(out)
    }
    fn signature_key_generate(&self) -> Result<(SignatureSecretKey, SignaturePublicKey), Self::Error> {
        self.inner.signature_key_generate()
    }
    fn signature_key_derive_public(&self, sk: &SignatureSecretKey) -> Result<SignaturePublicKey, Self::Error> {
        self.inner.signature_key_derive_public(sk)
    }
    fn sign(&self, sk: &SignatureSecretKey, data: &[u8]) -> Result<Vec<u8>, Self::Error> {
        self.inner.sign(sk, data)
    }
    fn verify(&self, pk: &SignaturePublicKey, sig: &[u8], data: &[u8]) -> Result<(), Self::Error> {
        self.inner.verify(pk, sig, data)
    }
}

// ---------------------------------------------------------------------------------------------
// fault control shared by the storage-like providers

#[derive(Debug)]
pub struct Injected(pub String);
impl std::fmt::Display for Injected {
    fn fmt(&self, f: &mut std::fmt::Formatter<'_>) -> std::fmt::Result {
        write!(f, "injected fault at {}", self.0)
    }
}
impl std::error::Error for Injected {}
impl IntoAnyError for Injected {
    fn into_dyn_error(self) -> Result<Box<dyn std::error::Error + Send + Sync>, Self> {
        Ok(Box::new(self))
    }
}

/// Counts every provider call of one member (`<provider>.<method>`), logs it, and fails the calls whose
/// running number (per member, all providers together) is in `fail_at`.
#[derive(Default)]
pub struct FaultCtl {
    pub counter: u64,
    pub fail_at: Vec<u64>,
    pub log: Vec<String>,
    pub faults_fired: Vec<String>,
    /// if set, only calls whose name starts with one of these are counted (others pass untouched)
    pub counted_prefixes: Vec<String>,
}

pub type SharedFault = Arc<Mutex<FaultCtl>>;

pub fn tick(f: &SharedFault, name: &str) -> Result<(), Injected> {
    let mut c = f.lock().unwrap();
    if !c.counted_prefixes.is_empty() && !c.counted_prefixes.iter().any(|p| name.starts_with(p.as_str())) {
        return Ok(());
    }
    c.counter += 1;
    let n = c.counter;
    c.log.push(format!("{n}:{name}"));
    if c.fail_at.contains(&n) {
        c.faults_fired.push(format!("{n}:{name}"));
        return Err(Injected(format!("{n}:{name}")));
    }
    Ok(())
}

// ---------------------------------------------------------------------------------------------
// group state storage: in-memory or SQLite behind one type

#[derive(Clone)]
pub enum StoreBackend {
    Mem(InMemoryGroupStateStorage),
    #[cfg(feature = "sqlite")]
    Sql(mls_rs_provider_sqlite::storage::SqLiteGroupStateStorage),
}

#[derive(Clone)]
pub struct VStore {
    pub backend: StoreBackend,
    pub fault: SharedFault,
}

fn any<E: IntoAnyError>(e: E) -> Injected {
    Injected(format!("backend: {:?}", e.into_any_error()))
}

impl GroupStateStorage for VStore {
    type Error = Injected;

    fn state(&self, group_id: &[u8]) -> Result<Option<Zeroizing<Vec<u8>>>, Self::Error> {
        tick(&self.fault, "storage.state")?;
        match &self.backend {
            StoreBackend::Mem(m) => m.state(group_id).map_err(any),
            #[cfg(feature = "sqlite")]
            StoreBackend::Sql(s) => s.state(group_id).map_err(any),
        }
    }

    fn epoch(&self, group_id: &[u8], epoch_id: u64) -> Result<Option<Zeroizing<Vec<u8>>>, Self::Error> {
        tick(&self.fault, "storage.epoch")?;
        match &self.backend {
            StoreBackend::Mem(m) => m.epoch(group_id, epoch_id).map_err(any),
            #[cfg(feature = "sqlite")]
            StoreBackend::Sql(s) => s.epoch(group_id, epoch_id).map_err(any),
        }
    }

    fn write(&mut self, state: GroupState, inserts: Vec<EpochRecord>, updates: Vec<EpochRecord>) -> Result<(), Self::Error> {
        {
            let ins: Vec<u64> = inserts.iter().map(|e| e.id).collect();
            let upd: Vec<u64> = updates.iter().map(|e| e.id).collect();
            tick(&self.fault, &format!("storage.write ins={ins:?} upd={upd:?}"))?;
        }
        match &mut self.backend {
            StoreBackend::Mem(m) => m.write(state, inserts, updates).map_err(any),
            #[cfg(feature = "sqlite")]
            StoreBackend::Sql(s) => s.write(state, inserts, updates).map_err(any),
        }
    }

    fn max_epoch_id(&self, group_id: &[u8]) -> Result<Option<u64>, Self::Error> {
        tick(&self.fault, "storage.max_epoch_id")?;
        match &self.backend {
            StoreBackend::Mem(m) => m.max_epoch_id(group_id).map_err(any),
            #[cfg(feature = "sqlite")]
            StoreBackend::Sql(s) => s.max_epoch_id(group_id).map_err(any),
        }
    }
}

impl VStore {
    /// reads that bypass fault counting (used by observations)
    pub fn peek_state(&self, gid: &[u8]) -> Option<Vec<u8>> {
        match &self.backend {
            StoreBackend::Mem(m) => m.state(gid).ok().flatten().map(|z| z.to_vec()),
            #[cfg(feature = "sqlite")]
            StoreBackend::Sql(s) => s.state(gid).ok().flatten().map(|z| z.to_vec()),
        }
    }
    pub fn peek_epoch(&self, gid: &[u8], id: u64) -> Option<Vec<u8>> {
        match &self.backend {
            StoreBackend::Mem(m) => m.epoch(gid, id).ok().flatten().map(|z| z.to_vec()),
            #[cfg(feature = "sqlite")]
            StoreBackend::Sql(s) => s.epoch(gid, id).ok().flatten().map(|z| z.to_vec()),
        }
    }
    pub fn peek_max(&self, gid: &[u8]) -> Option<u64> {
        match &self.backend {
            StoreBackend::Mem(m) => m.max_epoch_id(gid).ok().flatten(),
            #[cfg(feature = "sqlite")]
            StoreBackend::Sql(s) => s.max_epoch_id(gid).ok().flatten(),
        }
    }
}

// ---------------------------------------------------------------------------------------------
// key package storage

#[derive(Clone)]
pub struct VKp {
    pub inner: InMemoryKeyPackageStorage,
    pub fault: SharedFault,
}

impl KeyPackageStorage for VKp {
    type Error = Injected;
    fn delete(&mut self, id: &[u8]) -> Result<(), Self::Error> {
        tick(&self.fault, "kp.delete")?;
        self.inner.delete(id);
        Ok(())
    }
    fn insert(&mut self, id: Vec<u8>, pkg: KeyPackageData) -> Result<(), Self::Error> {
        tick(&self.fault, "kp.insert")?;
        self.inner.insert(id, pkg);
        Ok(())
    }
    fn get(&self, id: &[u8]) -> Result<Option<KeyPackageData>, Self::Error> {
        tick(&self.fault, "kp.get")?;
        Ok(self.inner.get(id))
    }
}

// ---------------------------------------------------------------------------------------------
// PSK storage

#[derive(Clone)]
pub struct VPsk {
    pub inner: Arc<Mutex<InMemoryPreSharedKeyStorage>>,
    pub fault: SharedFault,
}

impl PreSharedKeyStorage for VPsk {
    type Error = Injected;
    fn get(&self, id: &ExternalPskId) -> Result<Option<PreSharedKey>, Self::Error> {
        tick(&self.fault, "psk.get")?;
        Ok(self.inner.lock().unwrap().get(id))
    }
}

// ---------------------------------------------------------------------------------------------
// identity provider: basic credentials + rejection list + faults

#[derive(Clone)]
pub struct VId {
    pub fault: SharedFault,
    /// identities (basic credential bytes) this member's application refuses
    pub rejected: Arc<Mutex<Vec<Vec<u8>>>>,
}

impl IdentityProvider for VId {
    type Error = Injected;

    fn validate_member(&self, id: &SigningIdentity, t: Option<MlsTime>, ctx: MemberValidationContext<'_>) -> Result<(), Self::Error> {
        tick(&self.fault, "id.validate_member")?;
        if let Some(b) = id.credential.as_basic() {
            if self.rejected.lock().unwrap().iter().any(|r| r == &b.identifier) {
                return Err(Injected("identity rejected by application".into()));
            }
        }
        BasicIdentityProvider.validate_member(id, t, ctx).map_err(any)
    }

    fn validate_external_sender(&self, id: &SigningIdentity, t: Option<MlsTime>, ext: Option<&ExtensionList>) -> Result<(), Self::Error> {
        tick(&self.fault, "id.validate_external_sender")?;
        BasicIdentityProvider.validate_external_sender(id, t, ext).map_err(any)
    }

    fn identity(&self, id: &SigningIdentity, ext: &ExtensionList) -> Result<Vec<u8>, Self::Error> {
        tick(&self.fault, "id.identity")?;
        BasicIdentityProvider.identity(id, ext).map_err(any)
    }

    fn valid_successor(&self, a: &SigningIdentity, b: &SigningIdentity, ext: &ExtensionList) -> Result<bool, Self::Error> {
        tick(&self.fault, "id.valid_successor")?;
        BasicIdentityProvider.valid_successor(a, b, ext).map_err(any)
    }

    fn supported_types(&self) -> Vec<CredentialType> {
        BasicIdentityProvider.supported_types()
    }
}
