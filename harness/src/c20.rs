//! C20: tables of the real tree-math functions (through the `verif::tree_math` hook), one query per
//! line, to be compared with the Lean model `MlsVerif.TreeMath` (which is proved equal to the
//! recursive RFC 9420 Appendix C specification).  A direct oracle (recursive definition, written
//! independently here) is evaluated too, so a differing row is also classified on the Rust side.
use crate::util::{guarded, quiet_panics, Opts, Rng, QA};
use mls_rs::verif::tree_math as tm;

fn opt(v: Option<u32>) -> String {
    v.map(|x| x.to_string()).unwrap_or("-".into())
}

fn pairs(v: &[(u32, u32)]) -> String {
    if v.is_empty() {
        return "-".into();
    }
    v.iter().map(|(a, b)| format!("{a}:{b}")).collect::<Vec<_>>().join(",")
}

/// Independent recursive oracle: perfect tree of height k at offset o (in-order numbering).
/// Returns (parent, sibling) of x, or None if x is the root of the whole tree.
fn spec_parent_sibling(k: u32, x: u64) -> Option<(u64, u64)> {
    fn go(k: u32, o: u64, x: u64) -> Option<(u64, u64)> {
        // root of this subtree: o + 2^k - 1
        let r = o + (1u64 << k) - 1;
        if x == r || k == 0 {
            return None;
        }
        let lroot = o + (1u64 << (k - 1)) - 1;
        let rroot = r + 1 + (1u64 << (k - 1)) - 1;
        if x == lroot {
            Some((r, rroot))
        } else if x == rroot {
            Some((r, lroot))
        } else if x < r {
            go(k - 1, o, x)
        } else {
            go(k - 1, r + 1, x)
        }
    }
    go(k, 0, x)
}

fn spec_path(k: u32, x: u64) -> Vec<(u64, u64)> {
    let mut out = vec![];
    let mut cur = x;
    while let Some((p, s)) = spec_parent_sibling(k, cur) {
        out.push((p, s));
        cur = p;
    }
    out
}

pub fn run(o: &Opts) -> i32 {
    quiet_panics();
    let dir = o.str("out", "/verif/work/c20");
    let mut qa = QA::create(&dir, "c20");
    let mut oracle_fail: Vec<String> = vec![];
    let kmax_exh = o.u64("kmax", if o.thorough() { 12 } else { 12 }) as u32;
    let lca_leaves = o.u64("lca_leaves", if o.thorough() { 1024 } else { 256 }) as u32;
    let samples = o.u64("samples", if o.thorough() { 3_000_000 } else { 100_000 });
    let mut rng = Rng::new(o.seed());

    let mut row = |qa: &mut QA, k: u32, x: u32, check_oracle: bool, oracle_fail: &mut Vec<String>| {
        let n: u32 = 1 << k;
        let r = tm::root(n);
        let in_tree = tm::is_in_tree(x, r);
        qa.put(&format!("intree {x} {r}"), &format!("{}", in_tree as u8));
        qa.put(&format!("leaf {x}"), &format!("{}", tm::is_leaf(x) as u8));
        let ps = guarded(move || tm::parent_sibling(x, n));
        let ps_s = match &ps {
            Ok(Some((p, s))) => format!("{p} {s}"),
            Ok(None) => "none".into(),
            Err(_) => "panic".into(),
        };
        qa.put(&format!("ps {x} {n}"), &ps_s);
        let l = guarded(move || tm::left_unchecked(x)).ok();
        let rr = guarded(move || tm::right_unchecked(x)).ok();
        qa.put(&format!("lr {x}"), &format!("{} {}", opt(l), opt(rr)));
        let dc = guarded(move || tm::direct_copath(x, n));
        let dc_s = match &dc {
            Ok(v) => pairs(v),
            Err(_) => "panic".into(),
        };
        qa.put(&format!("dc {x} {n}"), &dc_s);
        let st = guarded(move || tm::subtree(x));
        let st_s = match st {
            Ok((a, b)) => format!("{a} {b}"),
            Err(_) => "panic".into(),
        };
        qa.put(&format!("sub {x}"), &st_s);
        if check_oracle {
            let total = (1u64 << (k + 1)) - 1;
            let xin = (x as u64) < total;
            if in_tree != xin {
                oracle_fail.push(format!("intree k={k} x={x} rust={in_tree} spec={xin}"));
            }
            if xin {
                let sp = spec_parent_sibling(k, x as u64);
                let got = ps.clone().ok().flatten().map(|(p, s)| (p as u64, s as u64));
                if sp != got {
                    oracle_fail.push(format!("ps k={k} x={x} rust={got:?} spec={sp:?}"));
                }
                let spp = spec_path(k, x as u64);
                let gotp: Vec<(u64, u64)> =
                    dc.clone().unwrap_or_default().iter().map(|(a, b)| (*a as u64, *b as u64)).collect();
                if spp != gotp {
                    oracle_fail.push(format!("dc k={k} x={x} rust={gotp:?} spec={spp:?}"));
                }
            } else if dc.clone().map(|v| !v.is_empty()).unwrap_or(true) {
                oracle_fail.push(format!("dc-outside k={k} x={x} rust={dc_s}"));
            }
        }
    };

    // exhaustive part: every k <= kmax, every node in the tree and three indices beyond it
    for k in 0..=kmax_exh {
        let n: u32 = 1 << k;
        qa.put(&format!("root {n}"), &format!("{}", tm::root(n)));
        let total = (1u32 << (k + 1)) - 1;
        for x in 0..total + 3 {
            row(&mut qa, k, x, true, &mut oracle_fail);
        }
        let bfs = tm::bfs_top_down(n as usize);
        qa.put(
            &format!("bfs {n}"),
            &bfs.iter().map(|x| x.to_string()).collect::<Vec<_>>().join(","),
        );
    }
    // all leaf pairs (the LCA level does not depend on the tree size)
    for i in 0..lca_leaves {
        for j in 0..lca_leaves {
            qa.put(&format!("lca {i} {j}"), &format!("{}", tm::leaf_lca_level(i, j)));
        }
    }
    // node-count -> leaf-count, index validation bound, leaf index bound
    for len in 0..2100usize {
        qa.put(&format!("tlc {len}"), &format!("{}", tm::total_leaf_count(len)));
    }
    for v in [0u32, 1, 2, (1 << 24) - 2, (1 << 24) - 1, 1 << 24, (1 << 24) + 1, u32::MAX] {
        qa.put(&format!("lio {v}"), &format!("{}", tm::leaf_index_ok(v) as u8));
    }
    // sampled part: sizes up to the 2^24 leaf limit
    for _ in 0..samples {
        let k = rng.range(0, 24) as u32;
        let total = (1u64 << (k + 1)) - 1;
        let x = if rng.chance(1, 20) { total + rng.below(3) } else { rng.below(total) } as u32;
        row(&mut qa, k, x, true, &mut oracle_fail);
        let a = rng.below(1 << 24) as u32;
        let b = if rng.chance(1, 2) { a ^ (1 << rng.below(24)) } else { rng.below(1 << 24) as u32 };
        qa.put(&format!("lca {a} {b}"), &format!("{}", tm::leaf_lca_level(a, b)));
    }
    let n = qa.finish();
    std::fs::write(format!("{dir}/c20.oracle"), oracle_fail.join("\n")).unwrap();
    println!("rows {n}");
    println!("oracle_failures {}", oracle_fail.len());
    0
}
