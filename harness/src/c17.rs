//! C17: re-init and branch.  Old groups with random shapes (interior blank leaves, re-keyed members); the
//! successor / branch is created for an equal, subset, superset or foreign member set; every old member tries
//! to join.  Oracle: creation and join succeed exactly when the property says; after the re-init commit the
//! old group refuses commits; an outsider without the old state cannot join.  `sub` rows feed the Lean
//! model `Resumption.checkSubgroup` with the identity lists.
use crate::providers::SharedCryptoLog;
use crate::util::{Opts, Rng, QA};
use crate::world::*;
use mls_rs::client_builder::MlsConfig;
use mls_rs::group::ReceivedMessage;
use mls_rs::{CipherSuite, Client, Group, MlsMessage, ProtocolVersion};

struct Out {
    fails: Vec<String>,
    cases: u64,
    cover: std::collections::BTreeSet<String>,
    samples: Vec<String>,
}

type Mk<'a, C> = &'a dyn Fn(&Setup, &Handles, mls_rs::identity::SigningIdentity, mls_rs::crypto::SignatureSecretKey) -> Client<C>;

fn new_client<C: MlsConfig>(w: &mut World<C>, mk: Mk<C>, name: &str) -> usize {
    let s = Setup::new(name);
    let h = handles(&s, &w.crypto_log, &w.scratch);
    let (id, sk) = make_identity(&s.name, s.suite);
    let client = mk(&s, &h, id, sk);
    w.members.push(Member { identity: s.name.as_bytes().to_vec(), setup: s, h, client, group: None, ghosts: vec![], wrote: false });
    w.members.len() - 1
}

fn rcv_join_ok<C: MlsConfig>(rc: Option<mls_rs::group::ReinitClient<C>>, wm: &MlsMessage) -> bool {
    match rc {
        Some(rc) => rc.join(wm, None, None).is_ok(),
        None => false,
    }
}

const JOIN_CLASSES: [&str; 7] = ["ok", "NotASubgroup", "ProtocolVersionMismatch", "CipherSuiteMismatch", "InitialEpochNotOne", "GroupIdMismatch", "ReInitExtensionsMismatch"];

/// `join` row of the model (`Resumption.joinChecks`): expected version/suite/group id/extensions against the joined group's
/// version/suite/epoch/group id/extensions (ids and extensions as 0 = the announced one, 1 = another one)
fn join_row(qa: &mut QA, kind: &str, old: &[usize], new: &[usize], suite: u16, gg: u8, gx: u8, class: &str) {
    if JOIN_CLASSES.contains(&class) {
        qa.put(&format!("join {kind} {} {} 1 {suite} 0 0 1 {suite} 1 {gg} {gx}", list(old), list(new)), class);
    }
}

/// commit by `c` built with `f`, applied by `c`, processed by every other member that has a group
fn commit_all<C: MlsConfig>(
    w: &mut World<C>,
    c: usize,
    f: impl FnOnce(&mut Group<C>) -> Result<mls_rs::group::CommitOutput, mls_rs::error::MlsError>,
) -> Result<mls_rs::group::CommitOutput, String> {
    let (r, out) = w.with_group(c, f);
    let out = out.ok_or(format!("commit: {}", r.s()))?;
    let (r, _) = w.with_group(c, |g| g.apply_pending_commit());
    if !r.ok() {
        return Err(format!("apply: {}", r.s()));
    }
    for i in 0..w.members.len() {
        if i != c && w.members[i].group.is_some() {
            let m = out.commit_message.clone();
            let (r, o) = w.with_group(i, |g| g.process_incoming_message(m));
            if !r.ok() {
                return Err(format!("member {i} rejects: {}", r.s()));
            }
            if let Some(ReceivedMessage::Commit(d)) = o {
                if matches!(d.effect, mls_rs::group::CommitEffect::Removed { .. }) {
                    w.members[i].group = None;
                }
            }
        }
    }
    Ok(out)
}

fn ids<C: MlsConfig>(w: &mut World<C>, i: usize) -> Vec<usize> {
    let raw: Vec<Vec<u8>> = w
        .group(i)
        .roster()
        .members_iter()
        .map(|m| m.signing_identity.credential.as_basic().map(|b| b.identifier.clone()).unwrap_or_default())
        .collect();
    raw.iter().map(|b| w.stamps.of(b)).collect()
}

fn list(v: &[usize]) -> String {
    if v.is_empty() {
        "-".into()
    } else {
        v.iter().map(|x| x.to_string()).collect::<Vec<_>>().join(",")
    }
}

fn scenario<C: MlsConfig>(rng: &mut Rng, mk: Mk<C>, out: &mut Out, qa: &mut QA, log: SharedCryptoLog) {
    let mut w: World<C> = new_world(log, "/tmp/vharness-scratch-c17");
    // ---- old group: n members, then remove some (interior blanks), maybe re-add / update --------------------
    let n = rng.range(2, 7) as usize;
    for i in 0..n {
        new_client(&mut w, mk, &format!("m{i}"));
    }
    let g = w.members[0].client.create_group(Default::default(), Default::default(), None).unwrap();
    w.members[0].group = Some(g);
    let kps: Vec<MlsMessage> = (1..n).map(|i| w.members[i].client.generate_key_package_message(Default::default(), Default::default(), None).unwrap()).collect();
    let r = commit_all(&mut w, 0, |g| {
        let mut b = g.commit_builder();
        for kp in kps {
            b = b.add_member(kp)?;
        }
        b.build()
    });
    let Ok(o) = r else {
        out.fails.push(format!("setup: {}", r.err().unwrap()));
        return;
    };
    for i in 1..n {
        for wm in &o.welcome_messages {
            if let Ok((g, _)) = w.members[i].client.join_group(None, wm, None) {
                w.members[i].group = Some(g);
                break;
            }
        }
    }
    // removals creating blanks (never the last leaf only: also interior)
    let removals = rng.below(n as u64 / 2 + 1) as usize;
    for _ in 0..removals {
        let alive: Vec<usize> = (1..n).filter(|&i| w.members[i].group.is_some()).collect();
        if alive.len() < 2 {
            break;
        }
        let t = *rng.pick(&alive);
        let tl = w.group(t).current_member_index();
        if let Err(e) = commit_all(&mut w, 0, |g| g.commit_builder().remove_member(tl)?.build()) {
            out.fails.push(format!("setup removal: {e}"));
            return;
        }
    }
    if rng.chance(1, 3) {
        // somebody re-keys (path update)
        let alive: Vec<usize> = (0..n).filter(|&i| w.members[i].group.is_some()).collect();
        let c = *rng.pick(&alive);
        let _ = commit_all(&mut w, c, |g| g.commit(vec![]));
    }
    let alive: Vec<usize> = (0..n).filter(|&i| w.members[i].group.is_some()).collect();
    let blanks = w.group(alive[0]).export_tree().nodes().iter().step_by(2).filter(|x| x.is_none()).count();
    let old_ids = ids(&mut w, alive[0]);
    let kind_reinit = rng.chance(2, 3);
    out.cover.insert(format!("kind={} blanks={} members={}", if kind_reinit { "reinit" } else { "branch" }, blanks.min(2), alive.len().min(4)));
    // ---- choose the successor member set ---------------------------------------------------------------
    let creator = alive[0];
    let others: Vec<usize> = alive[1..].to_vec();
    let mode = rng.below(4); // 0 equal, 1 strict subset, 2 superset (a stranger), 3 replaced identity
    let mut invited: Vec<usize> = others.clone();
    let mut stranger = None;
    match mode {
        1 if !invited.is_empty() => {
            let k = rng.below(invited.len() as u64) as usize;
            invited.remove(k);
        }
        2 => {
            stranger = Some(new_client(&mut w, mk, "stranger"));
        }
        3 if !invited.is_empty() => {
            let k = rng.below(invited.len() as u64) as usize;
            invited.remove(k);
            stranger = Some(new_client(&mut w, mk, "replacement"));
        }
        _ => {}
    }
    let mode_name = ["equal", "subset", "superset", "replaced"][mode as usize];
    out.cover.insert(format!("mode={mode_name}"));
    out.cases += 1;
    if kind_reinit {
        // ---- the re-init commit -----------------------------------------------------------------------
        let new_gid = rng.bytes(8);
        let gid2 = new_gid.clone();
        let r = commit_all(&mut w, creator, |g| {
            g.commit_builder().reinit(Some(gid2), ProtocolVersion::MLS_10, CipherSuite::from(1u16), Default::default())?.build()
        });
        if let Err(e) = r {
            out.fails.push(format!("re-init commit failed: {e}"));
            return;
        }
        // frozen: nobody can commit any more
        for &i in &alive {
            let (r, _) = w.with_group(i, |g| g.commit(vec![]));
            if r.ok() {
                out.fails.push(format!("member {i} could commit in the old group after the re-init commit"));
            }
        }
        // successor: key packages from the invited members' reinit clients
        let mut rcs: Vec<(usize, Option<mls_rs::group::ReinitClient<C>>)> = vec![];
        for &i in &invited {
            match w.group(i).clone().get_reinit_client(None, None) {
                Ok(rc) => rcs.push((i, Some(rc))),
                Err(e) => out.fails.push(format!("member {i} has no reinit client: {}", err_class(&e))),
            }
        }
        let mut kps = vec![];
        for (_, rc) in &rcs {
            kps.push(rc.as_ref().unwrap().generate_key_package(None).unwrap());
        }
        if let Some(s) = stranger {
            kps.push(w.members[s].client.generate_key_package_message(Default::default(), Default::default(), None).unwrap());
        }
        let creator_rc = match w.group(creator).clone().get_reinit_client(None, None) {
            Ok(rc) => rc,
            Err(e) => {
                out.fails.push(format!("creator has no reinit client: {}", err_class(&e)));
                return;
            }
        };
        let res = creator_rc.commit(kps, Default::default(), None);
        let cb = w.members[creator].identity.clone();
        let mut new_ids: Vec<usize> = vec![w.stamps.of(&cb)];
        for &i in &invited {
            { let b = w.members[i].identity.clone(); new_ids.push(w.stamps.of(&b)); }
        }
        if let Some(s) = stranger {
            { let b = w.members[s].identity.clone(); new_ids.push(w.stamps.of(&b)); }
        }
        let expect_ok = mode == 0 || (mode == 1 && invited.len() == others.len());
        let class = match &res {
            Ok(_) => "ok".to_string(),
            Err(e) => err_class(e),
        };
        if class == "ok" || class == "NotASubgroup" {
            qa.put(&format!("sub reinit {} {}", list(&old_ids), list(&new_ids)), if class == "ok" { "ok" } else { "err" });
        }
        match (&res, expect_ok) {
            (Ok(_), false) => out.fails.push(format!("re-init successor with a {mode_name} member set was created")),
            (Err(e), true) => out.fails.push(format!(
                "re-init successor with the same members ({} members, {blanks} blank leaves in the old tree) was refused: {}",
                alive.len(),
                err_class(e)
            )),
            _ => {}
        }
        if let Ok((newg, welcomes)) = res {
            // every invited old member joins through its reinit client
            for (i, rc) in rcs.iter_mut() {
                let rc = rc.take().unwrap();
                let mut ok = false;
                let mut last = String::new();
                for wm in &welcomes {
                    // ReinitClient::join consumes the client; clone the old group for each attempt
                    let rc2 = w.group(*i).clone().get_reinit_client(None, None).unwrap();
                    match rc2.join(wm, None, None) {
                        Ok((g, _)) => {
                            ok = g.epoch_authenticator().ok().map(|s| s.as_bytes().to_vec()) == newg.epoch_authenticator().ok().map(|s| s.as_bytes().to_vec());
                            if !ok {
                                last = "joined but disagrees with the creator".into();
                            }
                            join_row(qa, "reinit", &old_ids, &new_ids, 1, 0, 0, "ok");
                            break;
                        }
                        Err(e) => {
                            last = err_class(&e);
                            join_row(qa, "reinit", &old_ids, &new_ids, 1, 0, 0, &last);
                        }
                    }
                }
                drop(rc);
                if !ok {
                    out.fails.push(format!("old member {i} could not join the re-initialised group: {last}"));
                }
            }
            // a party without the old group's state cannot use the Welcome (plain join lacks the resumption PSK)
            let outsider = new_client(&mut w, mk, "outsider");
            for wm in &welcomes {
                if w.members[outsider].client.join_group(None, wm, None).is_ok() {
                    out.fails.push("an outsider joined the re-initialised group through a Welcome".into());
                }
            }
            // an imposter without the old group's state: it presents the creator's identity with keys of its own, creates a group
            // with the successor's id and adds an old member's re-init key package by an ordinary commit (no PSK at all); the old
            // member's ReinitClient must refuse that Welcome, whose key schedule does not depend on the old group
            if let Some((victim, _)) = rcs.first() {
                let cname = w.members[creator].setup.name.clone();
                let imp = new_client(&mut w, mk, &cname);
                let rcv = w.group(*victim).clone().get_reinit_client(None, None).unwrap();
                let vkp = rcv.generate_key_package(None).unwrap();
                if let Ok(mut ig) = w.members[imp].client.create_group_with_id(new_gid.clone(), Default::default(), Default::default(), None) {
                    if let Ok(co) = ig.commit_builder().add_member(vkp).and_then(|b| b.build()) {
                        let _ = ig.apply_pending_commit();
                        for wm in &co.welcome_messages {
                            out.cases += 1;
                            if rcv_join_ok(w.group(*victim).clone().get_reinit_client(None, None).ok(), wm) {
                                out.fails.push("an old member's ReinitClient joined a successor created by a party without the old group's state (Welcome without the re-init PSK)".into());
                            }
                        }
                        out.cover.insert("imposter-successor".into());
                    }
                }
                drop(rcv);
            }
            // a dishonest old member (it has the resumption secret) creates the successor with parameters other than the ones
            // announced by the ReInit proposal: another group id, other group context extensions. Old members' ReinitClients
            // must refuse those Welcomes (GroupIdMismatch / ReInitExtensionsMismatch), although the PSK is the right one.
            for dev in ["group-id", "extensions"] {
                let mut drc = match w.group(creator).clone().get_reinit_client(None, None) {
                    Ok(x) => x,
                    Err(_) => break,
                };
                match dev {
                    "group-id" => drc.verif_deviate(Some(rng.bytes(8)), None),
                    _ => {
                        let (xid, _) = make_identity("xs", w.members[creator].setup.suite);
                        let mut gce = mls_rs::ExtensionList::new();
                        gce.set_from(mls_rs::extension::built_in::ExternalSendersExt::new(vec![xid])).unwrap();
                        drc.verif_deviate(None, Some(gce))
                    }
                }
                let mut kps2 = vec![];
                for (i, _) in rcs.iter() {
                    kps2.push(w.group(*i).clone().get_reinit_client(None, None).unwrap().generate_key_package(None).unwrap());
                }
                if let Ok((_g2, welcomes2)) = drc.commit(kps2, Default::default(), None) {
                    for (i, _) in rcs.iter() {
                        for wm in &welcomes2 {
                            out.cases += 1;
                            let r = w.group(*i).clone().get_reinit_client(None, None).unwrap().join(wm, None, None);
                            let class = match &r {
                                Ok(_) => "ok".to_string(),
                                Err(e) => err_class(e),
                            };
                            let (gg, gx) = if dev == "group-id" { (1, 0) } else { (0, 1) };
                            join_row(qa, "reinit", &old_ids, &new_ids, 1, gg, gx, &class);
                            if r.is_ok() {
                                out.fails.push(format!("old member {i} joined a successor whose {dev} differs from the one announced by the ReInit proposal"));
                            }
                        }
                    }
                    if !rcs.is_empty() {
                        out.cover.insert(format!("deviating-successor:{dev}"));
                    }
                }
            }
            // an old member using a plain join (without the old group's resumption secret) is refused as well
            if let Some((i, _)) = rcs.first() {
                for wm in &welcomes {
                    if w.members[*i].client.join_group(None, wm, None).is_ok() {
                        out.fails.push("plain join_group accepted a re-init Welcome without the resumption secret".into());
                    }
                }
            }
        }
    } else {
        // ---- branch ---------------------------------------------------------------------------------------
        let mut kps = vec![];
        for &i in &invited {
            kps.push(w.members[i].client.generate_key_package_message(Default::default(), Default::default(), None).unwrap());
        }
        if let Some(s) = stranger {
            kps.push(w.members[s].client.generate_key_package_message(Default::default(), Default::default(), None).unwrap());
        }
        let sub_id = rng.bytes(8);
        let res = w.group(creator).branch(sub_id, kps, None);
        let cb = w.members[creator].identity.clone();
        let mut new_ids: Vec<usize> = vec![w.stamps.of(&cb)];
        for &i in &invited {
            { let b = w.members[i].identity.clone(); new_ids.push(w.stamps.of(&b)); }
        }
        if let Some(s) = stranger {
            { let b = w.members[s].identity.clone(); new_ids.push(w.stamps.of(&b)); }
        }
        let expect_ok = stranger.is_none();
        let class = match &res {
            Ok(_) => "ok".to_string(),
            Err(e) => err_class(e),
        };
        if class == "ok" || class == "NotASubgroup" {
            qa.put(&format!("sub branch {} {}", list(&old_ids), list(&new_ids)), if class == "ok" { "ok" } else { "err" });
        }
        match (&res, expect_ok) {
            (Ok(_), false) => out.fails.push(format!("branch with a {mode_name} member set was created")),
            (Err(e), true) => out.fails.push(format!("branch with a {mode_name} member set was refused: {}", err_class(e))),
            _ => {}
        }
        if let Ok((newg, welcomes)) = res {
            for &i in &invited {
                let mut ok = false;
                let mut last = String::new();
                for wm in &welcomes {
                    match w.group(i).join_subgroup(wm, None, None) {
                        Ok((g, _)) => {
                            ok = g.epoch_authenticator().ok().map(|s| s.as_bytes().to_vec()) == newg.epoch_authenticator().ok().map(|s| s.as_bytes().to_vec());
                            // the branch has a group id of its own: not compared
                            join_row(qa, "branch", &old_ids, &new_ids, 1, 1, 0, "ok");
                            break;
                        }
                        Err(e) => {
                            last = err_class(&e);
                            join_row(qa, "branch", &old_ids, &new_ids, 1, 1, 0, &last);
                        }
                    }
                }
                if !ok {
                    out.fails.push(format!("old member {i} could not join the branch: {last}"));
                }
            }
            let outsider = new_client(&mut w, mk, "outsider");
            for wm in &welcomes {
                if w.members[outsider].client.join_group(None, wm, None).is_ok() {
                    out.fails.push("an outsider joined the branch through a Welcome".into());
                }
            }
        }
    }
    if out.samples.len() < 5 {
        out.samples.push(format!("kind={} old={} blanks={blanks} mode={mode_name}", if kind_reinit { "reinit" } else { "branch" }, list(&old_ids)));
    }
}

pub fn run(o: &Opts) -> i32 {
    crate::util::quiet_panics();
    let dir = o.str("out", "/verif/work/c17");
    let mut rng = Rng::new(o.seed());
    let mut qa = QA::create(&dir, "c17");
    let n = o.u64("scenarios", if o.thorough() { 3000 } else { 200 });
    let mut out = Out { fails: vec![], cases: 0, cover: Default::default(), samples: vec![] };
    let mk = |s: &Setup, hd: &Handles, id, sk| mk_client(s, hd, id, sk);
    for _ in 0..n {
        let mut r = rng.fork();
        scenario(&mut r, &mk, &mut out, &mut qa, Default::default());
    }
    let rows = qa.finish();
    println!("rows {rows}");
    println!("cases {}", out.cases);
    println!("cover {}", out.cover.iter().cloned().collect::<Vec<_>>().join(";"));
    println!("oracle_failures {}", out.fails.len());
    std::fs::write(format!("{dir}/c17.failures"), out.fails.iter().take(200).cloned().collect::<Vec<_>>().join("\n")).unwrap();
    std::fs::write(format!("{dir}/c17.samples"), out.samples.join("\n")).unwrap();
    let _ = std::fs::remove_dir_all("/tmp/vharness-scratch-c17");
    0
}
