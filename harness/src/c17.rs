//! C17: re-init and branch.  Old groups with random shapes (interior blank leaves, re-keyed members); the
//! successor / branch is created for an equal, subset, superset or foreign member set; every old member tries
//! to join.  Oracle: creation and join succeed exactly when the property says; after the re-init commit the
//! old group refuses commits; an outsider without the old state cannot join.  `sub` rows feed the Lean
//! model `Resumption.checkSubgroup` with the identity lists.
//!
//! Mismatched Welcomes: a dishonest old member (hooks `ReinitClient::verif_deviate`, `verif_deviate_params`,
//! `Group::verif_branch_deviating`) creates the successor / branch with another protocol version, another cipher suite, a
//! Welcome epoch other than 1, another group id or other extensions (and combinations); honest old members, with their
//! unmodified `ReinitClient::join` / `join_subgroup`, must refuse.  `join` rows carry the announced and the actual
//! parameters to `Resumption.joinChecks`, which predicts the error class (the order of the checks).
//! Freeze: after the re-init commit every old member refuses to build commits (empty, Add, Remove, PSK, ReInit, by value)
//! and to process commits of a member that ignores the freeze (hook `verif_forget_reinit`), external commits and
//! competing commits of the old epoch; its state stays byte-identical.  `frz` rows feed `Resumption.commitVerdict`.
use crate::providers::SharedCryptoLog;
use crate::util::{Opts, Rng, QA};
use crate::world::*;
use mls_rs::client_builder::MlsConfig;
use mls_rs::crypto::SignatureSecretKey;
use mls_rs::group::ReceivedMessage;
use mls_rs::identity::SigningIdentity;
use mls_rs::{CipherSuite, Client, Group, MlsMessage, ProtocolVersion};
use std::cell::Cell;

/// signing identity and key of every member of the world, by member index (a member's second client, for another cipher
/// suite or protocol version, shares them and the member's key-package storage)
type Keys = Vec<(SigningIdentity, SignatureSecretKey)>;

/// the protocol version the client maker uses for the next client (`None`: the clients know MLS 1.0 only)
type Ver<'a> = Option<&'a Cell<u16>>;

struct Out {
    fails: Vec<String>,
    cases: u64,
    cover: std::collections::BTreeSet<String>,
    samples: Vec<String>,
    /// observations that contradict the property's wording but are not (yet) oracle failures: reported, file `c17.findings`
    findings: Vec<String>,
}

type Mk<'a, C> = &'a dyn Fn(&Setup, &Handles, mls_rs::identity::SigningIdentity, mls_rs::crypto::SignatureSecretKey) -> Client<C>;

fn new_client<C: MlsConfig>(w: &mut World<C>, mk: Mk<C>, keys: &mut Keys, name: &str) -> usize {
    new_client_for(w, mk, keys, None, name, 1, 1)
}

/// a client for the given cipher suite (1 or 3: the same kind of signature key) and protocol version
fn new_client_for<C: MlsConfig>(w: &mut World<C>, mk: Mk<C>, keys: &mut Keys, ver: Ver, name: &str, suite: u16, version: u16) -> usize {
    let mut s = Setup::new(name);
    s.suite = suite;
    let h = handles(&s, &w.crypto_log, &w.scratch);
    let (id, sk) = make_identity(&s.name, s.suite);
    keys.push((id.clone(), sk.clone()));
    if let Some(c) = ver {
        c.set(version);
    }
    let client = mk(&s, &h, id, sk);
    if let Some(c) = ver {
        c.set(1);
    }
    w.members.push(Member { identity: s.name.as_bytes().to_vec(), setup: s, h, client, group: None, ghosts: vec![], wrote: false });
    w.members.len() - 1
}

/// `mk_client` with clients that declare the protocol versions 1 and 2 supported and use `used`.  The crate defines MLS 1.0
/// only (`ProtocolVersion::all`), but a client can be configured with further version numbers
/// (`ClientBuilder::protocol_versions`, `used_protocol_version`): the only way a group of another version can exist at all.
fn mk_client_v(s: &Setup, h: &Handles, id: SigningIdentity, sk: SignatureSecretKey, used: u16) -> Client<impl MlsConfig> {
    use mls_rs::mls_rules::{CommitOptions, DefaultMlsRules, EncryptionOptions};
    let rules = DefaultMlsRules::new()
        .with_commit_options(
            CommitOptions::new()
                .with_ratchet_tree_extension(s.tree_ext)
                .with_single_welcome_message(s.single_welcome)
                .with_path_required(s.path_required)
                .with_allow_external_commit(true),
        )
        .with_encryption_options(EncryptionOptions::new(s.enc_ctl, mls_rs::client_builder::PaddingMode::None));
    Client::builder()
        .crypto_provider(h.crypto.clone())
        .identity_provider(h.idp.clone())
        .group_state_storage(h.store.clone())
        .key_package_repo(h.kp.clone())
        .psk_store(h.psk.clone())
        .mls_rules(rules)
        .protocol_versions([ProtocolVersion::MLS_10, ProtocolVersion::new(2)])
        .used_protocol_version(ProtocolVersion::new(used))
        .signing_identity(id, sk, CipherSuite::from(s.suite))
        .build()
}

fn rcv_join_ok<C: MlsConfig>(rc: Option<mls_rs::group::ReinitClient<C>>, wm: &MlsMessage) -> bool {
    match rc {
        Some(rc) => rc.join(wm, None, None).is_ok(),
        None => false,
    }
}

const JOIN_CLASSES: [&str; 7] = ["ok", "NotASubgroup", "ProtocolVersionMismatch", "CipherSuiteMismatch", "InitialEpochNotOne", "GroupIdMismatch", "ReInitExtensionsMismatch"];

/// `join` row of the model (`Resumption.joinChecks`): expected version/suite/group id/extensions against the joined group's
/// version/suite/epoch/group id/extensions (ids and extensions as 0 = the announced one, 1 = another one)
fn join_row(qa: &mut QA, kind: &str, old: &[usize], new: &[usize], ver: u16, suite: u16, gg: u8, gx: u8, class: &str) {
    join_row_full(qa, kind, old, new, (ver, suite), (ver, suite, 1), gg, gx, class)
}

/// the same row with every dimension: announced (version, suite), actual (version, suite, Welcome epoch)
fn join_row_full(qa: &mut QA, kind: &str, old: &[usize], new: &[usize], exp: (u16, u16), got: (u16, u16, u64), gg: u8, gx: u8, class: &str) {
    if JOIN_CLASSES.contains(&class) {
        qa.put(&format!("join {kind} {} {} {} {} 0 0 {} {} {} {gg} {gx}", list(old), list(new), exp.0, exp.1, got.0, got.1, got.2), class);
    }
}

/// a deviation of a dishonest creator from what was announced (re-init) / from the old group's parameters (branch)
#[derive(Clone, Copy, Default, Debug)]
struct Dev {
    ver: bool,
    suite: bool,
    /// empty commits before the commit that adds the members: the Welcome is for epoch 1 + epochs
    epochs: u32,
    gid: bool,
    ext: bool,
}

impl Dev {
    fn name(&self) -> String {
        let mut v = vec![];
        if self.ver {
            v.push("version");
        }
        if self.suite {
            v.push("suite");
        }
        if self.epochs > 0 {
            v.push("epoch");
        }
        if self.gid {
            v.push("group-id");
        }
        if self.ext {
            v.push("extensions");
        }
        if v.is_empty() {
            "none".into()
        } else {
            v.join("+")
        }
    }
    /// The classes of a correct refusal.  `join` reports the first failing check, so any class of a deviating dimension is
    /// a correct refusal as far as the property goes (the `join` row pins the exact one against the model).  A client that
    /// refused the Welcome's version / suite before building the group (`Unsupported...`) would be equally right.
    fn acceptable(&self, reinit: bool) -> Vec<&'static str> {
        let mut v = vec![];
        if self.ver {
            v.extend(["ProtocolVersionMismatch", "UnsupportedProtocolVersion"]);
        }
        if self.suite {
            v.extend(["CipherSuiteMismatch", "UnsupportedCipherSuite"]);
        }
        if self.epochs > 0 {
            v.push("InitialEpochNotOne");
        }
        if self.gid && reinit {
            v.push("GroupIdMismatch");
        }
        if self.ext {
            v.push("ReInitExtensionsMismatch");
        }
        v
    }
}

/// the deviations tried against one successor: each dimension alone, then two random combinations
fn deviations(xr: &mut Rng, reinit: bool, with_ver: bool) -> Vec<Dev> {
    let mut v = vec![Dev::default()];
    v.push(Dev { epochs: 1 + xr.below(3) as u32, ..Default::default() });
    v.push(Dev { suite: true, ..Default::default() });
    if with_ver {
        v.push(Dev { ver: true, ..Default::default() });
    }
    for _ in 0..2 {
        let d = Dev {
            ver: with_ver && xr.chance(1, 3),
            suite: xr.chance(1, 2),
            epochs: if xr.chance(1, 2) { 1 + xr.below(2) as u32 } else { 0 },
            gid: reinit && xr.chance(1, 3),
            ext: reinit && xr.chance(1, 3),
        };
        if d.ver as u32 + d.suite as u32 + (d.epochs > 0) as u32 + d.gid as u32 + d.ext as u32 >= 2 {
            v.push(d);
        }
    }
    v
}

/// A key package of member `i` for another cipher suite / protocol version: a second client of the member with the same
/// signing identity, key and key-package storage (suites 1 and 3 use the same kinds of keys).
fn alt_kp<C: MlsConfig>(w: &World<C>, mk: Mk<C>, keys: &Keys, ver: Ver, i: usize, suite: u16, version: u16) -> Result<MlsMessage, String> {
    let mut s2 = w.members[i].setup.clone();
    s2.suite = suite;
    if let Some(c) = ver {
        c.set(version);
    }
    let c2 = mk(&s2, &w.members[i].h, keys[i].0.clone(), keys[i].1.clone());
    if let Some(c) = ver {
        c.set(1);
    }
    c2.generate_key_package_message(Default::default(), Default::default(), None).map_err(|e| err_class(&e))
}

fn other_suite(s: u16) -> u16 {
    if s == 1 {
        3
    } else {
        1
    }
}

fn other_version(v: u16) -> u16 {
    if v == 1 {
        2
    } else {
        1
    }
}

const FRZ_CLASSES: [&str; 2] = ["ok", "GroupUsedAfterReInit"];

/// `frz` row of the model (`Resumption.commitVerdict`): is a re-init pending, which entry point (build / process a commit)
fn frz_row(qa: &mut QA, pending: bool, entry: &str, class: &str) {
    if FRZ_CLASSES.contains(&class) {
        qa.put(&format!("frz {} {entry}", pending as u8), class);
    }
}

fn res_class(r: &Res) -> String {
    match r {
        Res::Ok => "ok".into(),
        Res::Err(c) => c.clone(),
        Res::Panic(p) => format!("panic:{p}"),
    }
}

/// The freeze of the old group after the re-init commit was applied by everybody in `alive`: building and processing
/// commits is refused and changes nothing.  `pre`: a copy of one member's group from before the re-init commit.
#[allow(clippy::too_many_arguments)]
fn frozen_checks<C: MlsConfig>(
    w: &mut World<C>,
    xr: &mut Rng,
    out: &mut Out,
    qa: &mut QA,
    alive: &[usize],
    pre: (usize, Group<C>),
    newcomer: usize,
    psk_id: &[u8],
) {
    let fresh_kp = |w: &World<C>| w.members[newcomer].client.generate_key_package_message(Default::default(), Default::default(), None).unwrap();
    // ---- building commits ---------------------------------------------------------------------------
    for &i in alive {
        let me = w.group(i).current_member_index();
        let other_leaf = w.group(i).roster().members_iter().map(|m| m.index).find(|&x| x != me);
        let mut ops: Vec<&str> = vec!["empty", "add", "psk", "reinit", "detached"];
        if other_leaf.is_some() {
            ops.push("remove");
        }
        for op in ops {
            out.cases += 1;
            let before = w.components(i);
            let kp = fresh_kp(w);
            let pid = psk_id.to_vec();
            let gid = xr.bytes(8);
            let (r, _) = w.with_group(i, |g| match op {
                "empty" => g.commit_builder().build().map(|_| ()),
                "add" => g.commit_builder().add_member(kp)?.build().map(|_| ()),
                "remove" => g.commit_builder().remove_member(other_leaf.unwrap())?.build().map(|_| ()),
                "psk" => g.commit_builder().add_external_psk(ext_psk_id(&pid))?.build().map(|_| ()),
                "reinit" => g.commit_builder().reinit(Some(gid), ProtocolVersion::MLS_10, CipherSuite::from(1u16), Default::default())?.build().map(|_| ()),
                _ => g.commit_builder().build_detached().map(|_| ()),
            });
            let class = res_class(&r);
            frz_row(qa, true, "build", &class);
            if r.ok() {
                out.fails.push(format!("member {i} built a commit ({op}) in the old group after the re-init commit"));
                w.with_group(i, |g| {
                    g.clear_pending_commit();
                    Ok(())
                });
            } else if class != "GroupUsedAfterReInit" {
                // the freeze is the only ground for refusing these well-formed commits
                out.fails.push(format!("member {i}: commit ({op}) in the frozen old group refused with an unexpected class: {class}"));
            }
            let after = w.components(i);
            let ch = World::<C>::changed(&before, &after);
            if !ch.is_empty() {
                out.fails.push(format!("member {i}: a refused commit ({op}) in the frozen old group changed its state: {}", ch.join(",")));
            }
            out.cover.insert(format!("frozen-build:{op}"));
        }
    }
    // ---- what else the library allows in a frozen group (observed on copies; the property speaks of commits only) ----
    let i = alive[0];
    let me = w.group(i).current_member_index();
    let other_leaf = w.group(i).roster().members_iter().map(|m| m.index).find(|&x| x != me);
    let kp = fresh_kp(w);
    let obs = |out: &mut Out, op: &str, r: Result<(), mls_rs::error::MlsError>| {
        out.cover.insert(format!("frozen-obs:{op}={}", r.map(|_| "ok".to_string()).unwrap_or_else(|e| err_class(&e))));
    };
    obs(out, "propose_add", w.group(i).clone().propose_add(kp, vec![]).map(|_| ()));
    obs(out, "propose_update", w.group(i).clone().propose_update(vec![]).map(|_| ()));
    if let Some(l) = other_leaf {
        obs(out, "propose_remove", w.group(i).clone().propose_remove(l, vec![]).map(|_| ()));
    }
    obs(out, "propose_external_psk", w.group(i).clone().propose_external_psk(ext_psk_id(psk_id), vec![]).map(|_| ()));
    obs(out, "application_message", w.group(i).clone().encrypt_application_message(b"after re-init", vec![]).map(|_| ()));
    // ---- processing commits -------------------------------------------------------------------------
    let (d, mut pre_group) = pre;
    // a member that ignores the freeze: its copy of the old group at the epoch after the re-init commit goes on committing
    let mut ghost = w.group(d).clone();
    ghost.verif_forget_reinit();
    let d_leaf = ghost.current_member_index();
    let other_leaf = ghost.roster().members_iter().map(|m| m.index).find(|&x| x != d_leaf);
    let mut msgs: Vec<(&str, MlsMessage)> = vec![];
    {
        let mut g = ghost.clone();
        if let Ok(o) = g.commit(vec![]) {
            msgs.push(("member-empty", o.commit_message));
        }
        let mut g = ghost.clone();
        let kp = fresh_kp(w);
        if let Ok(o) = g.commit_builder().add_member(kp).and_then(|b| b.build()) {
            msgs.push(("member-add", o.commit_message));
        }
        if let Some(l) = other_leaf {
            if alive.len() > 2 {
                let mut g = ghost.clone();
                if let Ok(o) = g.commit_builder().remove_member(l).and_then(|b| b.build()) {
                    msgs.push(("member-remove", o.commit_message));
                }
            }
        }
        let mut g = ghost.clone();
        if let Ok(o) = g.commit_builder().add_external_psk(ext_psk_id(psk_id)).and_then(|b| b.build()) {
            msgs.push(("member-psk", o.commit_message));
        }
        // a by-reference proposal of the ghost, then its commit of it
        let mut g = ghost.clone();
        if let Ok(pm) = g.propose_update(vec![]) {
            if let Ok(o) = g.commit(vec![]) {
                msgs.push(("member-byref-proposal", pm));
                msgs.push(("member-byref", o.commit_message));
            }
        }
    }
    // an external commit for the epoch after the re-init commit, from a GroupInfo a (frozen) member hands out
    let gi_from = *xr.pick(alive);
    match w.group(gi_from).group_info_message_allowing_ext_commit(true) {
        Ok(gi) => {
            out.cover.insert("frozen-obs:group_info=ok".into());
            match w.members[newcomer].client.external_commit_builder().and_then(|b| b.build(gi)) {
                Ok((_g, m)) => msgs.push(("external", m)),
                Err(e) => {
                    out.cover.insert(format!("frozen-obs:external_commit_build={}", err_class(&e)));
                }
            }
        }
        Err(e) => {
            out.cover.insert(format!("frozen-obs:group_info={}", err_class(&e)));
        }
    }
    // a competing commit of the epoch the re-init commit was made in (from the copy taken before it was applied)
    if let Ok(o) = pre_group.commit(vec![]) {
        msgs.push(("old-epoch", o.commit_message));
    }
    for (name, m) in &msgs {
        for &i in alive {
            if i == d {
                continue;
            }
            out.cases += 1;
            let before = w.components(i);
            let mm = m.clone();
            let (r, _) = w.with_group(i, |g| g.process_incoming_message(mm));
            let class = res_class(&r);
            let after = w.components(i);
            let ch = World::<C>::changed(&before, &after);
            match *name {
                "member-byref-proposal" => {
                    // a proposal, not a commit: the property does not say; observed only (on the real group: a cached
                    // proposal is the only change an accepted one makes)
                    out.cover.insert(format!("frozen-obs:recv-proposal={class}"));
                    let bad: Vec<&String> = ch.iter().filter(|c| c.as_str() != "proposals").collect();
                    if !bad.is_empty() {
                        out.fails.push(format!("member {i}: a proposal received in the frozen old group changed {bad:?}"));
                    }
                    continue;
                }
                "old-epoch" => {
                    // a message of a past epoch: refused on whatever ground (epoch or freeze)
                    out.cover.insert(format!("frozen-recv:old-epoch={class}"));
                }
                _ => {
                    frz_row(qa, true, "process", &class);
                    if !r.ok() && class != "GroupUsedAfterReInit" {
                        out.fails.push(format!("member {i}: a commit ({name}) received in the frozen old group refused with an unexpected class: {class}"));
                    }
                    out.cover.insert(format!("frozen-recv:{name}"));
                }
            }
            if r.ok() {
                out.fails.push(format!("member {i} processed a commit ({name}) in the old group after the re-init commit"));
            }
            if !ch.is_empty() {
                out.fails.push(format!("member {i}: a refused commit ({name}) received in the frozen old group changed its state: {}", ch.join(",")));
            }
        }
    }
    // receiving side of the same question
    if let Some(&j) = alive.iter().find(|&&j| j != d) {
        if let Ok(am) = ghost.clone().encrypt_application_message(b"from the ghost", vec![]) {
            obs(out, "recv-application", w.group(j).clone().process_incoming_message(am).map(|_| ()));
        }
    }
}

/// commit by `c` built with `f`, applied by `c`, processed by every other member that has a group
fn commit_all<C: MlsConfig>(
    w: &mut World<C>,
    c: usize,
    f: impl FnOnce(&mut Group<C>) -> Result<mls_rs::group::CommitOutput, mls_rs::error::MlsError>,
) -> Result<mls_rs::group::CommitOutput, String> {
    let (r, out) = w.with_group(c, f);
    let out = out.ok_or(format!("commit: {}", r.s()))?;
    let (r, _) = w.with_group(c, |g| g.apply_pending_commit());
    if !r.ok() {
        return Err(format!("apply: {}", r.s()));
    }
    for i in 0..w.members.len() {
        if i != c && w.members[i].group.is_some() {
            let m = out.commit_message.clone();
            let (r, o) = w.with_group(i, |g| g.process_incoming_message(m));
            if !r.ok() {
                return Err(format!("member {i} rejects: {}", r.s()));
            }
            if let Some(ReceivedMessage::Commit(d)) = o {
                if matches!(d.effect, mls_rs::group::CommitEffect::Removed { .. }) {
                    w.members[i].group = None;
                }
            }
        }
    }
    Ok(out)
}

fn ids<C: MlsConfig>(w: &mut World<C>, i: usize) -> Vec<usize> {
    let raw: Vec<Vec<u8>> = w
        .group(i)
        .roster()
        .members_iter()
        .map(|m| m.signing_identity.credential.as_basic().map(|b| b.identifier.clone()).unwrap_or_default())
        .collect();
    raw.iter().map(|b| w.stamps.of(b)).collect()
}

fn list(v: &[usize]) -> String {
    if v.is_empty() {
        "-".into()
    } else {
        v.iter().map(|x| x.to_string()).collect::<Vec<_>>().join(",")
    }
}

fn scenario<C: MlsConfig>(rng: &mut Rng, mk: Mk<C>, ver: Ver, out: &mut Out, qa: &mut QA, log: SharedCryptoLog) {
    let mut w: World<C> = new_world(log, &crate::util::scratch("c17"));
    let mut keys: Keys = vec![];
    // the choices of the mismatch / freeze scenarios come from a stream of their own (derived from the scenario's seed
    // without consuming it): the old-group histories of a given seed stay what they were
    let mut xr = Rng(rng.0 ^ 0xC17C_17C1_7C17_C17C);
    // ---- old group: n members, then remove some (interior blanks), maybe re-add / update --------------------
    let n = rng.range(2, 7) as usize;
    for i in 0..n {
        new_client(&mut w, mk, &mut keys, &format!("m{i}"));
    }
    let g = w.members[0].client.create_group(Default::default(), Default::default(), None).unwrap();
    w.members[0].group = Some(g);
    let kps: Vec<MlsMessage> = (1..n).map(|i| w.members[i].client.generate_key_package_message(Default::default(), Default::default(), None).unwrap()).collect();
    let r = commit_all(&mut w, 0, |g| {
        let mut b = g.commit_builder();
        for kp in kps {
            b = b.add_member(kp)?;
        }
        b.build()
    });
    let Ok(o) = r else {
        out.fails.push(format!("setup: {}", r.err().unwrap()));
        return;
    };
    for i in 1..n {
        for wm in &o.welcome_messages {
            if let Ok((g, _)) = w.members[i].client.join_group(None, wm, None) {
                w.members[i].group = Some(g);
                break;
            }
        }
    }
    // every member's state at the epoch it joined at: stale by the time of the branch if anything was committed since
    let early: Vec<Option<Group<C>>> = (0..n).map(|i| w.members[i].group.clone()).collect();
    // removals creating blanks (never the last leaf only: also interior)
    let removals = rng.below(n as u64 / 2 + 1) as usize;
    for _ in 0..removals {
        let alive: Vec<usize> = (1..n).filter(|&i| w.members[i].group.is_some()).collect();
        if alive.len() < 2 {
            break;
        }
        let t = *rng.pick(&alive);
        let tl = w.group(t).current_member_index();
        if let Err(e) = commit_all(&mut w, 0, |g| g.commit_builder().remove_member(tl)?.build()) {
            out.fails.push(format!("setup removal: {e}"));
            return;
        }
    }
    if rng.chance(1, 3) {
        // somebody re-keys (path update)
        let alive: Vec<usize> = (0..n).filter(|&i| w.members[i].group.is_some()).collect();
        let c = *rng.pick(&alive);
        let _ = commit_all(&mut w, c, |g| g.commit(vec![]));
    }
    let alive: Vec<usize> = (0..n).filter(|&i| w.members[i].group.is_some()).collect();
    let blanks = w.group(alive[0]).export_tree().nodes().iter().step_by(2).filter(|x| x.is_none()).count();
    let old_ids = ids(&mut w, alive[0]);
    let kind_reinit = rng.chance(2, 3);
    out.cover.insert(format!("kind={} blanks={} members={}", if kind_reinit { "reinit" } else { "branch" }, blanks.min(2), alive.len().min(4)));
    // ---- choose the successor member set ---------------------------------------------------------------
    let creator = alive[0];
    let others: Vec<usize> = alive[1..].to_vec();
    let mode = rng.below(4); // 0 equal, 1 strict subset, 2 superset (a stranger), 3 replaced identity
    let mut invited: Vec<usize> = others.clone();
    let mut stranger = None;
    match mode {
        1 if !invited.is_empty() => {
            let k = rng.below(invited.len() as u64) as usize;
            invited.remove(k);
        }
        2 => {
            stranger = Some(new_client(&mut w, mk, &mut keys, "stranger"));
        }
        3 if !invited.is_empty() => {
            let k = rng.below(invited.len() as u64) as usize;
            invited.remove(k);
            stranger = Some(new_client(&mut w, mk, &mut keys, "replacement"));
        }
        _ => {}
    }
    let mode_name = ["equal", "subset", "superset", "replaced"][mode as usize];
    out.cover.insert(format!("mode={mode_name}"));
    out.cases += 1;
    if kind_reinit {
        // ---- the re-init commit -----------------------------------------------------------------------
        let new_gid = rng.bytes(8);
        let gid2 = new_gid.clone();
        // what the ReInit proposal announces: the old suite or another one (1 <-> 3, the members' signature keys fit both),
        // where the clients know a second protocol version: that one half of the time, and sometimes extensions
        let old_suite = w.members[creator].setup.suite;
        let ann_suite: u16 = if xr.chance(1, 2) { old_suite } else { other_suite(old_suite) };
        let ann_ver: u16 = if ver.is_some() && xr.chance(1, 2) { 2 } else { 1 };
        let mut ann_ext = mls_rs::ExtensionList::new();
        if xr.chance(1, 3) {
            let (xid, _) = make_identity("announced-sender", old_suite);
            ann_ext.set_from(mls_rs::extension::built_in::ExternalSendersExt::new(vec![xid])).unwrap();
        }
        out.cover.insert(format!("announced: suite={} version={ann_ver} extensions={}", if ann_suite == old_suite { "same" } else { "other" }, ann_ext.len()));
        // for the freeze checks: a copy of a member's group from before the re-init commit, a newcomer, a PSK everybody has
        let d = *xr.pick(&alive);
        let pre = (d, w.group(d).clone());
        let newcomer = new_client(&mut w, mk, &mut keys, "newcomer");
        let psk_id = xr.bytes(8);
        let psk_val = xr.bytes(32);
        for &i in &alive {
            w.members[i].h.psk.inner.lock().unwrap().insert(ext_psk_id(&psk_id), psk_value(&psk_val));
        }
        let ann_ext2 = ann_ext.clone();
        let r = commit_all(&mut w, creator, |g| {
            g.commit_builder().reinit(Some(gid2), ProtocolVersion::new(ann_ver), CipherSuite::from(ann_suite), ann_ext2)?.build()
        });
        if let Err(e) = r {
            out.fails.push(format!("re-init commit failed: {e}"));
            return;
        }
        // the re-init commit itself was built and processed while no re-init was pending
        frz_row(qa, false, "build", "ok");
        if alive.len() > 1 {
            frz_row(qa, false, "process", "ok");
        }
        // frozen: nobody can commit any more
        for &i in &alive {
            let (r, _) = w.with_group(i, |g| g.commit(vec![]));
            frz_row(qa, true, "build", &res_class(&r));
            if r.ok() {
                out.fails.push(format!("member {i} could commit in the old group after the re-init commit"));
                w.with_group(i, |g| {
                    g.clear_pending_commit();
                    Ok(())
                });
            }
        }
        // the state from before the re-init commit does not give a re-init client (nothing is pending there)
        match pre.1.clone().get_reinit_client(None, None) {
            Ok(_) => out.fails.push(format!("member {} got a re-init client from its state before the re-init commit", pre.0)),
            Err(e) => {
                out.cover.insert(format!("stale-reinit-client={}", err_class(&e)));
            }
        }
        frozen_checks(&mut w, &mut xr, out, qa, &alive, pre, newcomer, &psk_id);
        // successor: key packages from the invited members' reinit clients
        let mut rcs: Vec<(usize, Option<mls_rs::group::ReinitClient<C>>)> = vec![];
        for &i in &invited {
            match w.group(i).clone().get_reinit_client(None, None) {
                Ok(rc) => rcs.push((i, Some(rc))),
                Err(e) => out.fails.push(format!("member {i} has no reinit client: {}", err_class(&e))),
            }
        }
        let mut kps = vec![];
        for (_, rc) in &rcs {
            kps.push(rc.as_ref().unwrap().generate_key_package(None).unwrap());
        }
        if let Some(s) = stranger {
            // (a second client of the stranger for the announced suite and version, where they are not the old ones)
            if (ann_suite, ann_ver) == (old_suite, 1) {
                kps.push(w.members[s].client.generate_key_package_message(Default::default(), Default::default(), None).unwrap());
            } else {
                kps.push(alt_kp(&w, mk, &keys, ver, s, ann_suite, ann_ver).unwrap());
            }
        }
        let creator_rc = match w.group(creator).clone().get_reinit_client(None, None) {
            Ok(rc) => rc,
            Err(e) => {
                out.fails.push(format!("creator has no reinit client: {}", err_class(&e)));
                return;
            }
        };
        let res = creator_rc.commit(kps, Default::default(), None);
        let cb = w.members[creator].identity.clone();
        let mut new_ids: Vec<usize> = vec![w.stamps.of(&cb)];
        for &i in &invited {
            { let b = w.members[i].identity.clone(); new_ids.push(w.stamps.of(&b)); }
        }
        if let Some(s) = stranger {
            { let b = w.members[s].identity.clone(); new_ids.push(w.stamps.of(&b)); }
        }
        let expect_ok = mode == 0 || (mode == 1 && invited.len() == others.len());
        let class = match &res {
            Ok(_) => "ok".to_string(),
            Err(e) => err_class(e),
        };
        if class == "ok" || class == "NotASubgroup" {
            qa.put(&format!("sub reinit {} {}", list(&old_ids), list(&new_ids)), if class == "ok" { "ok" } else { "err" });
        }
        match (&res, expect_ok) {
            (Ok(_), false) => out.fails.push(format!("re-init successor with a {mode_name} member set was created")),
            (Err(e), true) => out.fails.push(format!(
                "re-init successor with the same members ({} members, {blanks} blank leaves in the old tree) was refused: {}",
                alive.len(),
                err_class(e)
            )),
            _ => {}
        }
        if let Ok((newg, welcomes)) = res {
            // every invited old member joins through its reinit client
            for (i, rc) in rcs.iter_mut() {
                let rc = rc.take().unwrap();
                let mut ok = false;
                let mut last = String::new();
                for wm in &welcomes {
                    // ReinitClient::join consumes the client; clone the old group for each attempt
                    let rc2 = w.group(*i).clone().get_reinit_client(None, None).unwrap();
                    match rc2.join(wm, None, None) {
                        Ok((g, _)) => {
                            ok = g.epoch_authenticator().ok().map(|s| s.as_bytes().to_vec()) == newg.epoch_authenticator().ok().map(|s| s.as_bytes().to_vec());
                            if !ok {
                                last = "joined but disagrees with the creator".into();
                            }
                            join_row(qa, "reinit", &old_ids, &new_ids, ann_ver, ann_suite, 0, 0, "ok");
                            break;
                        }
                        Err(e) => {
                            last = err_class(&e);
                            join_row(qa, "reinit", &old_ids, &new_ids, ann_ver, ann_suite, 0, 0, &last);
                        }
                    }
                }
                drop(rc);
                if !ok {
                    out.fails.push(format!("old member {i} could not join the re-initialised group: {last}"));
                }
            }
            // a party without the old group's state cannot use the Welcome (plain join lacks the resumption PSK)
            let outsider = new_client(&mut w, mk, &mut keys, "outsider");
            for wm in &welcomes {
                if w.members[outsider].client.join_group(None, wm, None).is_ok() {
                    out.fails.push("an outsider joined the re-initialised group through a Welcome".into());
                }
            }
            // an imposter without the old group's state: it presents the creator's identity with keys of its own, creates a group
            // with the successor's id and adds an old member's re-init key package by an ordinary commit (no PSK at all); the old
            // member's ReinitClient must refuse that Welcome, whose key schedule does not depend on the old group
            if let Some((victim, _)) = rcs.first() {
                let cname = w.members[creator].setup.name.clone();
                let imp = new_client_for(&mut w, mk, &mut keys, ver, &cname, ann_suite, ann_ver);
                let rcv = w.group(*victim).clone().get_reinit_client(None, None).unwrap();
                let vkp = rcv.generate_key_package(None).unwrap();
                if let Ok(mut ig) = w.members[imp].client.create_group_with_id(new_gid.clone(), Default::default(), Default::default(), None) {
                    if let Ok(co) = ig.commit_builder().add_member(vkp).and_then(|b| b.build()) {
                        let _ = ig.apply_pending_commit();
                        for wm in &co.welcome_messages {
                            out.cases += 1;
                            if rcv_join_ok(w.group(*victim).clone().get_reinit_client(None, None).ok(), wm) {
                                out.fails.push("an old member's ReinitClient joined a successor created by a party without the old group's state (Welcome without the re-init PSK)".into());
                            }
                        }
                        out.cover.insert("imposter-successor".into());
                    }
                }
                drop(rcv);
            }
            // a dishonest old member (it has the resumption secret) creates the successor with parameters other than the ones
            // announced by the ReInit proposal: another group id, other group context extensions. Old members' ReinitClients
            // must refuse those Welcomes (GroupIdMismatch / ReInitExtensionsMismatch), although the PSK is the right one.
            for dev in ["group-id", "extensions"] {
                let mut drc = match w.group(creator).clone().get_reinit_client(None, None) {
                    Ok(x) => x,
                    Err(_) => break,
                };
                match dev {
                    "group-id" => drc.verif_deviate(Some(rng.bytes(8)), None),
                    _ => {
                        let (xid, _) = make_identity("xs", w.members[creator].setup.suite);
                        let mut gce = mls_rs::ExtensionList::new();
                        gce.set_from(mls_rs::extension::built_in::ExternalSendersExt::new(vec![xid])).unwrap();
                        drc.verif_deviate(None, Some(gce))
                    }
                }
                let mut kps2 = vec![];
                for (i, _) in rcs.iter() {
                    kps2.push(w.group(*i).clone().get_reinit_client(None, None).unwrap().generate_key_package(None).unwrap());
                }
                if let Ok((_g2, welcomes2)) = drc.commit(kps2, Default::default(), None) {
                    for (i, _) in rcs.iter() {
                        for wm in &welcomes2 {
                            out.cases += 1;
                            let r = w.group(*i).clone().get_reinit_client(None, None).unwrap().join(wm, None, None);
                            let class = match &r {
                                Ok(_) => "ok".to_string(),
                                Err(e) => err_class(e),
                            };
                            let (gg, gx) = if dev == "group-id" { (1, 0) } else { (0, 1) };
                            join_row(qa, "reinit", &old_ids, &new_ids, ann_ver, ann_suite, gg, gx, &class);
                            if r.is_ok() {
                                out.fails.push(format!("old member {i} joined a successor whose {dev} differs from the one announced by the ReInit proposal"));
                            }
                        }
                    }
                    if !rcs.is_empty() {
                        out.cover.insert(format!("deviating-successor:{dev}"));
                    }
                }
            }
            // the other parameters a Welcome must match: protocol version, cipher suite, epoch 1 -- each alone, and combinations
            // (the first failing check of `join` names the class: the `join` row asks the model).  The creator deviates through
            // the hook; a joiner whose key package must be of another suite / version published it with its ordinary client of
            // that suite / version (same signing identity and key-package storage).  `none` is the control: no deviation.
            let victims: Vec<usize> = rcs.iter().map(|(i, _)| *i).collect();
            for dev in deviations(&mut xr, true, ver.is_some()) {
                if victims.is_empty() {
                    break;
                }
                let got_suite = if dev.suite { other_suite(ann_suite) } else { ann_suite };
                let got_ver = if dev.ver { other_version(ann_ver) } else { ann_ver };
                let mut drc = match w.group(creator).clone().get_reinit_client(None, None) {
                    Ok(x) => x,
                    Err(_) => break,
                };
                let dev_gid = xr.bytes(8);
                let mut gce = None;
                if dev.ext {
                    let (xid, _) = make_identity("xs", old_suite);
                    let mut l = mls_rs::ExtensionList::new();
                    l.set_from(mls_rs::extension::built_in::ExternalSendersExt::new(vec![xid])).unwrap();
                    gce = Some(l);
                }
                drc.verif_deviate(if dev.gid { Some(dev_gid.clone()) } else { None }, gce);
                drc.verif_deviate_params(
                    if dev.ver { Some(ProtocolVersion::new(got_ver)) } else { None },
                    if dev.suite { Some(CipherSuite::from(got_suite)) } else { None },
                    dev.epochs,
                );
                let mut kps2 = vec![];
                for &i in &victims {
                    if dev.suite || dev.ver {
                        kps2.push(alt_kp(&w, mk, &keys, ver, i, got_suite, got_ver).unwrap());
                    } else {
                        kps2.push(w.group(i).clone().get_reinit_client(None, None).unwrap().generate_key_package(None).unwrap());
                    }
                }
                let name = dev.name();
                match drc.commit(kps2, Default::default(), None) {
                    Ok((g2, welcomes2)) => {
                        let we = g2.current_epoch();
                        if we != 1 + dev.epochs as u64 || u16::from(g2.cipher_suite()) != got_suite || g2.protocol_version().raw_value() != got_ver {
                            out.fails.push(format!("harness: the deviating successor ({name}) is not what was asked for: epoch {we}"));
                            continue;
                        }
                        for &i in &victims {
                            for wm in &welcomes2 {
                                out.cases += 1;
                                let r = w.group(i).clone().get_reinit_client(None, None).unwrap().join(wm, None, None);
                                let class = match &r {
                                    Ok(_) => "ok".to_string(),
                                    Err(e) => err_class(e),
                                };
                                join_row_full(qa, "reinit", &old_ids, &new_ids, (ann_ver, ann_suite), (got_ver, got_suite, we), dev.gid as u8, dev.ext as u8, &class);
                                let acc = dev.acceptable(true);
                                if acc.is_empty() {
                                    // the control
                                    match &r {
                                        Ok((g, _)) => {
                                            if g.epoch_authenticator().ok().map(|s| s.as_bytes().to_vec()) != g2.epoch_authenticator().ok().map(|s| s.as_bytes().to_vec()) {
                                                out.fails.push(format!("old member {i} joined the (undeviating) successor made through the hook but disagrees with its creator"));
                                            }
                                        }
                                        Err(_) => out.fails.push(format!("old member {i} could not join the (undeviating) successor made through the hook: {class}")),
                                    }
                                } else if r.is_ok() {
                                    out.fails.push(format!(
                                        "old member {i} joined a successor that deviates from the ReInit proposal in: {name} (announced version {ann_ver} suite {ann_suite}; the successor has version {got_ver} suite {got_suite}, its Welcome is for epoch {we})"
                                    ));
                                } else if !acc.contains(&class.as_str()) {
                                    out.fails.push(format!("old member {i} refused a successor deviating in {name} with an unexpected class: {class}"));
                                }
                                // refused or not, nothing of the successor is in the member's storage
                                for gid in [&new_gid, &dev_gid] {
                                    if w.members[i].client.load_group(gid).is_ok() {
                                        out.fails.push(format!("old member {i} has a stored group after the join attempt ({name})"));
                                    }
                                }
                            }
                        }
                        out.cover.insert(format!("deviating-successor:{name}"));
                    }
                    Err(e) => {
                        // the dishonest creator's own library refused: not a verdict on the joiners, but the scenario is lost
                        out.cover.insert(format!("deviating-successor-not-created:{name}:{}", err_class(&e)));
                        if dev.acceptable(true).is_empty() {
                            out.fails.push(format!("the (undeviating) successor could not be created through the hook: {}", err_class(&e)));
                        }
                    }
                }
            }
            // "the same identities": a successor with as many members as the old group in which one old member is missing and
            // another identity appears twice (a second client of that identity, with keys of its own) has the right count and
            // only old identities.  Honest creation path, no hook.  Recorded as a finding, not as an oracle failure.
            if victims.len() >= 2 {
                let k = xr.below(victims.len() as u64) as usize;
                let dropped = victims[k];
                let kept: Vec<usize> = victims.iter().cloned().filter(|&i| i != dropped).collect();
                let twice = *xr.pick(&kept);
                let tname = w.members[twice].setup.name.clone();
                let dup = new_client_for(&mut w, mk, &mut keys, ver, &tname, ann_suite, ann_ver);
                let mut kps3 = vec![];
                for &i in &kept {
                    kps3.push(w.group(i).clone().get_reinit_client(None, None).unwrap().generate_key_package(None).unwrap());
                }
                kps3.push(w.members[dup].client.generate_key_package_message(Default::default(), Default::default(), None).unwrap());
                let cb = w.members[creator].identity.clone();
                let mut ids3: Vec<usize> = vec![w.stamps.of(&cb)];
                for &i in kept.iter().chain([twice].iter()) {
                    let b = w.members[i].identity.clone();
                    ids3.push(w.stamps.of(&b));
                }
                let r3 = w.group(creator).clone().get_reinit_client(None, None).unwrap().commit(kps3, Default::default(), None);
                let class = match &r3 {
                    Ok(_) => "ok".to_string(),
                    Err(e) => err_class(e),
                };
                if class == "ok" || class == "NotASubgroup" {
                    qa.put(&format!("sub reinit {} {}", list(&old_ids), list(&ids3)), if class == "ok" { "ok" } else { "err" });
                }
                out.cover.insert(format!("duplicate-identity-successor:create={class}"));
                if let Ok((_g3, welcomes3)) = r3 {
                    let mut joined = vec![];
                    for &i in &kept {
                        for wm in &welcomes3 {
                            let r = w.group(i).clone().get_reinit_client(None, None).unwrap().join(wm, None, None);
                            let class = match &r {
                                Ok(_) => "ok".to_string(),
                                Err(e) => err_class(e),
                            };
                            join_row(qa, "reinit", &old_ids, &ids3, ann_ver, ann_suite, 0, 0, &class);
                            out.cover.insert(format!("duplicate-identity-successor:join={class}"));
                            if r.is_ok() {
                                joined.push(i);
                            }
                        }
                    }
                    out.findings.push(format!(
                        "re-init successor with identities {} for the old group {} (member {dropped} missing, member {twice}'s identity twice) was created; joined by old members {joined:?}",
                        list(&ids3),
                        list(&old_ids)
                    ));
                }
            }
            // an old member using a plain join (without the old group's resumption secret) is refused as well
            if let Some((i, _)) = rcs.first() {
                for wm in &welcomes {
                    if w.members[*i].client.join_group(None, wm, None).is_ok() {
                        out.fails.push("plain join_group accepted a re-init Welcome without the resumption secret".into());
                    }
                }
            }
        }
    } else {
        // ---- branch ---------------------------------------------------------------------------------------
        let mut kps = vec![];
        for &i in &invited {
            kps.push(w.members[i].client.generate_key_package_message(Default::default(), Default::default(), None).unwrap());
        }
        if let Some(s) = stranger {
            kps.push(w.members[s].client.generate_key_package_message(Default::default(), Default::default(), None).unwrap());
        }
        let sub_id = rng.bytes(8);
        let res = w.group(creator).branch(sub_id, kps, None);
        let cb = w.members[creator].identity.clone();
        let mut new_ids: Vec<usize> = vec![w.stamps.of(&cb)];
        for &i in &invited {
            { let b = w.members[i].identity.clone(); new_ids.push(w.stamps.of(&b)); }
        }
        if let Some(s) = stranger {
            { let b = w.members[s].identity.clone(); new_ids.push(w.stamps.of(&b)); }
        }
        let expect_ok = stranger.is_none();
        let class = match &res {
            Ok(_) => "ok".to_string(),
            Err(e) => err_class(e),
        };
        if class == "ok" || class == "NotASubgroup" {
            qa.put(&format!("sub branch {} {}", list(&old_ids), list(&new_ids)), if class == "ok" { "ok" } else { "err" });
        }
        match (&res, expect_ok) {
            (Ok(_), false) => out.fails.push(format!("branch with a {mode_name} member set was created")),
            (Err(e), true) => out.fails.push(format!("branch with a {mode_name} member set was refused: {}", err_class(e))),
            _ => {}
        }
        if let Ok((newg, welcomes)) = res {
            for &i in &invited {
                let mut ok = false;
                let mut last = String::new();
                for wm in &welcomes {
                    match w.group(i).join_subgroup(wm, None, None) {
                        Ok((g, _)) => {
                            ok = g.epoch_authenticator().ok().map(|s| s.as_bytes().to_vec()) == newg.epoch_authenticator().ok().map(|s| s.as_bytes().to_vec());
                            // the branch has a group id of its own: not compared
                            join_row(qa, "branch", &old_ids, &new_ids, 1, 1, 1, 0, "ok");
                            break;
                        }
                        Err(e) => {
                            last = err_class(&e);
                            join_row(qa, "branch", &old_ids, &new_ids, 1, 1, 1, 0, &last);
                        }
                    }
                }
                if !ok {
                    out.fails.push(format!("old member {i} could not join the branch: {last}"));
                }
            }
            let outsider = new_client(&mut w, mk, &mut keys, "outsider");
            for wm in &welcomes {
                if w.members[outsider].client.join_group(None, wm, None).is_ok() {
                    out.fails.push("an outsider joined the branch through a Welcome".into());
                }
            }
            // the resumption secret must be the one of the epoch the branch was made in: an invited member's copy of the old
            // group from an earlier epoch cannot join
            let now_epoch = w.group(creator).current_epoch();
            for &i in &invited {
                if let Some(st) = &early[i] {
                    if st.current_epoch() < now_epoch {
                        for wm in &welcomes {
                            out.cases += 1;
                            match st.join_subgroup(wm, None, None) {
                                Ok(_) => out.fails.push(format!(
                                    "member {i} joined the branch made at epoch {now_epoch} with its state of epoch {} (another resumption secret)",
                                    st.current_epoch()
                                )),
                                Err(e) => {
                                    out.cover.insert(format!("stale-branch-join={}", err_class(&e)));
                                }
                            }
                        }
                    }
                }
            }
            // a dishonest member branches with another protocol version / cipher suite than the old group's, or with a Welcome
            // for an epoch other than 1 (hook `verif_branch_deviating`, the creation path of `branch`); `none` is the control
            let old_suite = w.members[creator].setup.suite;
            for dev in deviations(&mut xr, false, ver.is_some()) {
                if invited.is_empty() {
                    break;
                }
                let got_suite = if dev.suite { other_suite(old_suite) } else { old_suite };
                let got_ver = if dev.ver { 2 } else { 1 };
                let mut kps2 = vec![];
                for &i in &invited {
                    if dev.suite || dev.ver {
                        kps2.push(alt_kp(&w, mk, &keys, ver, i, got_suite, got_ver).unwrap());
                    } else {
                        kps2.push(w.members[i].client.generate_key_package_message(Default::default(), Default::default(), None).unwrap());
                    }
                }
                let name = dev.name();
                let bid = xr.bytes(8);
                let r = w.group(creator).verif_branch_deviating(
                    bid.clone(),
                    kps2,
                    if dev.ver { Some(ProtocolVersion::new(got_ver)) } else { None },
                    if dev.suite { Some(CipherSuite::from(got_suite)) } else { None },
                    dev.epochs,
                );
                match r {
                    Ok((g2, welcomes2)) => {
                        let we = g2.current_epoch();
                        if we != 1 + dev.epochs as u64 || u16::from(g2.cipher_suite()) != got_suite || g2.protocol_version().raw_value() != got_ver {
                            out.fails.push(format!("harness: the deviating branch ({name}) is not what was asked for: epoch {we}"));
                            continue;
                        }
                        for &i in &invited {
                            for wm in &welcomes2 {
                                out.cases += 1;
                                let before = w.components(i);
                                let r = w.group(i).join_subgroup(wm, None, None);
                                let class = match &r {
                                    Ok(_) => "ok".to_string(),
                                    Err(e) => err_class(e),
                                };
                                join_row_full(qa, "branch", &old_ids, &new_ids, (1, old_suite), (got_ver, got_suite, we), 1, 0, &class);
                                let acc = dev.acceptable(false);
                                if acc.is_empty() {
                                    match &r {
                                        Ok((g, _)) => {
                                            if g.epoch_authenticator().ok().map(|s| s.as_bytes().to_vec()) != g2.epoch_authenticator().ok().map(|s| s.as_bytes().to_vec()) {
                                                out.fails.push(format!("old member {i} joined the (undeviating) branch made through the hook but disagrees with its creator"));
                                            }
                                        }
                                        Err(_) => out.fails.push(format!("old member {i} could not join the (undeviating) branch made through the hook: {class}")),
                                    }
                                } else if r.is_ok() {
                                    out.fails.push(format!(
                                        "old member {i} joined a branch that deviates from the old group in: {name} (old group: version 1 suite {old_suite}; the branch has version {got_ver} suite {got_suite}, its Welcome is for epoch {we})"
                                    ));
                                } else if !acc.contains(&class.as_str()) {
                                    out.fails.push(format!("old member {i} refused a branch deviating in {name} with an unexpected class: {class}"));
                                }
                                drop(r);
                                if !World::<C>::changed(&before, &w.components(i)).is_empty() {
                                    out.fails.push(format!("old member {i}: a join attempt of a branch ({name}) changed the old group"));
                                }
                                if w.members[i].client.load_group(&bid).is_ok() {
                                    out.fails.push(format!("old member {i} has a stored group after the branch join attempt ({name})"));
                                }
                            }
                        }
                        out.cover.insert(format!("deviating-branch:{name}"));
                    }
                    Err(e) => {
                        out.cover.insert(format!("deviating-branch-not-created:{name}:{}", err_class(&e)));
                        if dev.acceptable(false).is_empty() {
                            out.fails.push(format!("the (undeviating) branch could not be created through the hook: {}", err_class(&e)));
                        }
                    }
                }
            }
        }
    }
    if out.samples.len() < 5 {
        out.samples.push(format!("kind={} old={} blanks={blanks} mode={mode_name}", if kind_reinit { "reinit" } else { "branch" }, list(&old_ids)));
    }
}

pub fn run(o: &Opts) -> i32 {
    crate::util::quiet_panics();
    let dir = o.str("out", "/verif/work/c17");
    let mut rng = Rng::new(o.seed());
    let mut qa = QA::create(&dir, "c17");
    let n = o.u64("scenarios", if o.thorough() { 3000 } else { 200 });
    let mut out = Out { fails: vec![], cases: 0, cover: Default::default(), samples: vec![], findings: vec![] };
    let mk = |s: &Setup, hd: &Handles, id, sk| mk_client(s, hd, id, sk);
    // every third scenario: clients that also know a (non-standard) protocol version 2, which makes a version mismatch possible
    let vcell = Cell::new(1u16);
    let mk2 = |s: &Setup, hd: &Handles, id, sk| mk_client_v(s, hd, id, sk, vcell.get());
    for k in 0..n {
        let mut r = rng.fork();
        if k % 3 == 2 {
            out.cover.insert("clients-with-version-2".into());
            scenario(&mut r, &mk2, Some(&vcell), &mut out, &mut qa, Default::default());
        } else {
            scenario(&mut r, &mk, None, &mut out, &mut qa, Default::default());
        }
    }
    let rows = qa.finish();
    println!("rows {rows}");
    println!("cases {}", out.cases);
    println!("cover {}", out.cover.iter().cloned().collect::<Vec<_>>().join(";"));
    println!("oracle_failures {}", out.fails.len());
    std::fs::write(format!("{dir}/c17.failures"), out.fails.iter().cloned().collect::<Vec<_>>().join("\n")).unwrap();
    std::fs::write(format!("{dir}/c17.samples"), out.samples.join("\n")).unwrap();
    println!("findings {}", out.findings.len());
    std::fs::write(format!("{dir}/c17.findings"), out.findings.join("\n")).unwrap();
    let _ = std::fs::remove_dir_all(&crate::util::scratch("c17"));
    0
}
