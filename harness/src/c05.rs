//! C05: message keys are single-use.  (1) secret-tree request scripts against the Lean ratchet model
//! (stream `c05.q`), (2) real groups: every (key, nonce) pair handed to `aead_seal` is unique, every
//! ciphertext is accepted exactly once under permuted/duplicated delivery, the 1024-generation window
//! is exact, across save/reload of sender and receiver.  (3) real groups whose members encrypt their
//! control messages: application messages and encrypted proposals of every sender interleaved within
//! one epoch, the encrypted commit ending it, traffic of the next epoch and late traffic of the old one.
//!
//! The seal log is classified by the AAD (`classify`): message content / sender data / welcome.  The
//! sender-data plaintext (leaf, generation, reuse guard) is what the provider is handed in the clear,
//! so every content seal is known as (epoch, leaf, ratchet, generation, key, nonce BEFORE the guard);
//! those are compared with the keys of a secret tree replayed from the epoch's encryption secret, and
//! written as `st.get` / `sdk` rows for the Lean model.
use crate::c13::secret_tree_script;
use crate::providers::{SealRec, SharedCryptoLog};
use crate::util::{hex, Opts, Rng, QA};
use crate::world::*;
use mls_rs::client_builder::MlsConfig;
use mls_rs::group::proposal::{CustomProposal, ProposalType};
use mls_rs::group::{CommitEffect, ProposalSender, ReceivedMessage};
use mls_rs::verif::kdf;
use mls_rs::{CipherSuite, CipherSuiteProvider, Client, CryptoProvider, ExtensionList, MlsMessage};
use mls_rs_crypto_rustcrypto::RustCryptoProvider;
use std::collections::{BTreeMap, BTreeSet};

struct Out {
    fails: Vec<String>,
    /// state changes by refused messages (reported under C04, not C05)
    c04: Vec<String>,
    msgs: u64,
    deliveries: u64,
    seals: u64,
    cover: BTreeSet<String>,
    samples: Vec<String>,
}


// ---------------------------------------------------------------------------------------------
// the seal log, classified

/// One encryption of message content, as the provider saw it: the content seal and the sender-data seal following it.
#[derive(Clone, Debug)]
struct ContentSeal {
    epoch: u64,
    /// 1 application, 2 proposal, 3 commit
    ctype: u8,
    leaf: u32,
    gen: u32,
    key: Vec<u8>,
    /// the nonce before the reuse guard was XORed in
    base: Vec<u8>,
    ct: Vec<u8>,
    sd_key: Vec<u8>,
    sd_nonce: Vec<u8>,
}

impl ContentSeal {
    fn app(&self) -> bool {
        self.ctype == 1
    }
    fn d(&self) -> String {
        format!("(epoch {} leaf {} {} generation {})", self.epoch, self.leaf, ["?", "application", "proposal", "commit"][self.ctype.min(3) as usize], self.gen)
    }
}

fn rd_varbytes(b: &[u8]) -> Option<(&[u8], &[u8])> {
    let f = *b.first()?;
    let (n, hl) = match f >> 6 {
        0 => ((f & 0x3f) as usize, 1),
        1 => ((((f & 0x3f) as usize) << 8) | *b.get(1)? as usize, 2),
        2 => {
            if b.len() < 4 {
                return None;
            }
            ((((f & 0x3f) as usize) << 24) | (b[1] as usize) << 16 | (b[2] as usize) << 8 | b[3] as usize, 4)
        }
        _ => return None,
    };
    if b.len() < hl + n {
        return None;
    }
    Some((&b[hl..hl + n], &b[hl + n..]))
}

/// `SenderDataAAD` = group_id, epoch, content_type; `PrivateContentAAD` = the same followed by authenticated_data<V>.
/// Returns (group id, epoch, content type, is the content form).
fn parse_aad(a: &[u8]) -> Option<(Vec<u8>, u64, u8, bool)> {
    let (gid, r) = rd_varbytes(a)?;
    if r.len() < 9 {
        return None;
    }
    let epoch = u64::from_be_bytes(r[..8].try_into().ok()?);
    let ctype = r[8];
    let rest = &r[9..];
    let content = if rest.is_empty() {
        false
    } else {
        let (_, t) = rd_varbytes(rest)?;
        if !t.is_empty() {
            return None;
        }
        true
    };
    Some((gid.to_vec(), epoch, ctype, content))
}

/// Content seals of a stretch of the log (in order) and the number of welcome seals (no AAD) in it.
fn classify(recs: &[SealRec], fails: &mut Vec<String>) -> (Vec<ContentSeal>, usize) {
    let mut out = vec![];
    let mut welcome = 0;
    let mut i = 0;
    while i < recs.len() {
        let r = &recs[i];
        i += 1;
        let Some(aad) = &r.aad else {
            welcome += 1;
            continue;
        };
        let Some((gid, epoch, ctype, content)) = parse_aad(aad) else {
            fails.push("seal log: an aead_seal whose AAD is neither PrivateContentAAD nor SenderDataAAD".into());
            continue;
        };
        if !content {
            fails.push("seal log: a sender-data seal that does not follow a content seal".into());
            continue;
        }
        if !(1..=3).contains(&ctype) {
            fails.push(format!("seal log: content type {ctype}"));
        }
        // the sender data of this content: next call, same group/epoch/content type, 12 bytes leaf | generation | reuse guard
        let sd = recs.get(i).and_then(|n| n.aad.as_ref().and_then(|a| parse_aad(a)).map(|p| (n, p)));
        match sd {
            Some((n, (g2, e2, c2, false))) if g2 == gid && e2 == epoch && c2 == ctype && n.pt_len == 12 && n.pt_head.len() == 12 => {
                i += 1;
                let leaf = u32::from_be_bytes(n.pt_head[0..4].try_into().unwrap());
                let gen = u32::from_be_bytes(n.pt_head[4..8].try_into().unwrap());
                let mut base = r.nonce.clone();
                for (b, g) in base.iter_mut().zip(n.pt_head[8..12].iter()) {
                    *b ^= g;
                }
                out.push(ContentSeal { epoch, ctype, leaf, gen, key: r.key.clone(), base, ct: r.ct.clone(), sd_key: n.key.clone(), sd_nonce: n.nonce.clone() });
            }
            _ => fails.push("seal log: a content seal that is not followed by its sender-data seal".into()),
        }
    }
    (out, welcome)
}

/// The sharp form of "no two encryptions of message content share key and nonce": the reuse guard is random, so the nonce as
/// sealed differs (almost always) even when a generation is used twice.  Checked on what the ratchets handed out instead:
/// no content key twice, no nonce-before-guard twice, no (leaf, ratchet, generation) twice, each sender's generations of each
/// ratchet are 0, 1, 2, … in the order of its encryptions, application and handshake keys disjoint; sender-data seals
/// (key and nonce from the sender-data secret and the ciphertext sample) are a separate class and never use a content key.
fn seal_oracles(seals: &[ContentSeal], fails: &mut Vec<String>) {
    let mut keys: BTreeMap<&[u8], &ContentSeal> = BTreeMap::new();
    let mut bases: BTreeMap<&[u8], &ContentSeal> = BTreeMap::new();
    let mut pairs: BTreeSet<(&[u8], &[u8])> = BTreeSet::new();
    let mut triples: BTreeSet<(u64, u32, bool, u32)> = BTreeSet::new();
    let mut next: BTreeMap<(u64, u32, bool), u32> = BTreeMap::new();
    for s in seals {
        if !pairs.insert((&s.key, &s.base)) {
            fails.push(format!("two encryptions of message content used the same key and the same nonce before the reuse guard: {}", s.d()));
        }
        if let Some(o) = keys.insert(&s.key, s) {
            fails.push(format!("an AEAD key was passed to seal for message content twice: {} and {}", o.d(), s.d()));
            if o.app() != s.app() {
                fails.push(format!("an application and a handshake message share a key: {} and {}", o.d(), s.d()));
            }
        }
        if let Some(o) = bases.insert(&s.base, s) {
            fails.push(format!("two encryptions of message content used the same ratchet nonce: {} and {}", o.d(), s.d()));
        }
        if !triples.insert((s.epoch, s.leaf, s.app(), s.gen)) {
            fails.push(format!("a sender used a generation of one ratchet twice: {}", s.d()));
        }
        let n = next.entry((s.epoch, s.leaf, s.app())).or_insert(0);
        if s.gen != *n {
            fails.push(format!("sender generations are not consecutive: {} where generation {} of that ratchet was due", s.d(), *n));
        }
        *n = s.gen.max(*n) + 1;
    }
    let mut sd: BTreeSet<(&[u8], &[u8])> = BTreeSet::new();
    for s in seals {
        if keys.contains_key(&s.sd_key[..]) {
            fails.push(format!("a sender-data seal used a message content key: {}", s.d()));
        }
        if !sd.insert((&s.sd_key, &s.sd_nonce)) {
            fails.push(format!("two sender-data seals used the same key and nonce: {}", s.d()));
        }
    }
}

/// What a member that has not touched its secret tree in this epoch holds: (epoch, leaf count, encryption secret,
/// sender-data secret).  `None` if the tree has been used (more than the root entry).
fn fresh_epoch_view<C: MlsConfig>(w: &World<C>, i: usize) -> Option<(u64, u32, Vec<u8>, Vec<u8>)> {
    let c = w.components(i);
    let get = |k: &str| c.iter().find(|x| x.0 == k).map(|x| x.1.clone());
    let t = get("secret_tree")?;
    let sds = get("sender_data_secret")?;
    if t.len() < 9 || t[8] != 0 {
        return None;
    }
    let leaves = u32::from_be_bytes(t[0..4].try_into().ok()?);
    let idx = u32::from_be_bytes(t[4..8].try_into().ok()?);
    let (enc, rest) = rd_varbytes(&t[9..])?;
    if !rest.is_empty() || idx != leaves - 1 {
        return None;
    }
    Some((w.group(i).current_epoch(), leaves, enc.to_vec(), sds))
}

/// The content seals of one epoch against a secret tree replayed from the epoch's encryption secret (`st.*` rows: the answer
/// column is what the real group sealed with), the sender-data seals against `SenderDataKey::new` (`sdk` rows).
fn replay_epoch<P: CipherSuiteProvider>(cs: &P, view: &(u64, u32, Vec<u8>, Vec<u8>), seals: &[ContentSeal], qa: &mut QA, fails: &mut Vec<String>, sdk_rows: usize) {
    let (epoch, leaves, enc, sds) = view;
    let mut st = kdf::VSecretTree::new(*leaves, enc);
    qa.put(&format!("st.new 1 {leaves} {}", hex(enc)), "ok");
    let mut n_sdk = 0;
    for s in seals.iter().filter(|s| s.epoch == *epoch) {
        let kt = if s.app() { "app" } else { "hs" };
        qa.put(&format!("st.get {} {kt} {}", 2 * s.leaf, s.gen), &format!("{} {} {}", hex(&s.base), hex(&s.key), s.gen));
        match st.get(cs, 2 * s.leaf, s.app(), s.gen) {
            Ok((n, k, _)) => {
                if k != s.key {
                    fails.push(format!("the key sealed with is not the secret-tree key of {}", s.d()));
                }
                if n != s.base {
                    fails.push(format!("the nonce sealed with (reuse guard removed) is not the secret-tree nonce of {}", s.d()));
                }
            }
            Err(e) => fails.push(format!("replayed secret tree has no key for {}: {}", s.d(), crate::c13::err_class(&e))),
        }
        let sample = &s.ct[..s.ct.len().min(cs.kdf_extract_size())];
        let k = kdf::expand_with_label(cs, sds, b"key", sample, Some(cs.aead_key_size())).unwrap_or_default();
        let n = kdf::expand_with_label(cs, sds, b"nonce", sample, Some(cs.aead_nonce_size())).unwrap_or_default();
        if k != s.sd_key || n != s.sd_nonce {
            fails.push(format!("sender-data seal of {} does not use the key/nonce derived from the sender-data secret and the ciphertext sample", s.d()));
        }
        if n_sdk < sdk_rows {
            n_sdk += 1;
            qa.put(&format!("sdk 1 {} {}", hex(sds), hex(&s.ct)), &format!("{} {}", hex(&s.sd_key), hex(&s.sd_nonce)));
        }
    }
}

fn small_group<C: MlsConfig>(
    w: &mut World<C>,
    mk: &dyn Fn(&Setup, &Handles, mls_rs::identity::SigningIdentity, mls_rs::crypto::SignatureSecretKey) -> Client<C>,
    n: usize,
    enc_ctl: bool,
    sqlite: bool,
) -> Result<(), String> {
    for i in 0..n {
        let mut s = Setup::new(&((b'A' + i as u8) as char).to_string());
        s.enc_ctl = enc_ctl;
        s.sqlite = sqlite && i % 2 == 1;
        let h = handles(&s, &w.crypto_log, &w.scratch);
        let (id, sk) = make_identity(&s.name, s.suite);
        let client = mk(&s, &h, id, sk);
        w.members.push(Member { identity: s.name.as_bytes().to_vec(), setup: s, h, client, group: None, ghosts: vec![], wrote: false });
    }
    let g = w.members[0].client.create_group(Default::default(), Default::default(), None).map_err(|e| format!("create: {e:?}"))?;
    w.members[0].group = Some(g);
    let mut kps = vec![];
    for i in 1..n {
        kps.push(w.members[i].client.generate_key_package_message(Default::default(), Default::default(), None).map_err(|e| format!("kp: {e:?}"))?);
    }
    let (r, out) = w.with_group(0, |g| {
        let mut b = g.commit_builder();
        for kp in kps {
            b = b.add_member(kp)?;
        }
        b.build()
    });
    let out = out.ok_or(format!("commit: {}", r.s()))?;
    w.with_group(0, |g| g.apply_pending_commit());
    for i in 1..n {
        let mut ok = false;
        for wm in &out.welcome_messages {
            if let Ok((g, _)) = w.members[i].client.join_group(None, wm, None) {
                w.members[i].group = Some(g);
                ok = true;
                break;
            }
        }
        if !ok {
            return Err(format!("member {i} cannot join"));
        }
    }
    Ok(())
}

fn reload<C: MlsConfig>(w: &mut World<C>, i: usize) -> Result<(), String> {
    let (r, _) = w.with_group(i, |g| g.write_to_storage());
    if !r.ok() {
        return Err(format!("write: {}", r.s()));
    }
    let gid = w.group(i).group_id().to_vec();
    let g = w.members[i].client.load_group(&gid).map_err(|e| format!("load: {e:?}"))?;
    w.members[i].group = Some(g);
    Ok(())
}

fn scenario<C: MlsConfig, P: CipherSuiteProvider>(
    rng: &mut Rng,
    log: SharedCryptoLog,
    mk: &dyn Fn(&Setup, &Handles, mls_rs::identity::SigningIdentity, mls_rs::crypto::SignatureSecretKey) -> Client<C>,
    out: &mut Out,
    big_gap: bool,
    cs: &P,
    qa: &mut QA,
) {
    let mut w: World<C> = new_world(log.clone(), &crate::util::scratch("c05"));
    let n = rng.range(2, 4) as usize;
    let enc_ctl = rng.chance(1, 2);
    if let Err(e) = small_group(&mut w, mk, n, enc_ctl, rng.chance(1, 3)) {
        out.fails.push(format!("setup: {e}"));
        return;
    }
    let view = fresh_epoch_view(&w, 0);
    {
        let mut l = log.lock().unwrap();
        l.aead_seals.clear();
        l.seal_recs.clear();
        l.enabled = true;
    }
    // senders emit application messages (and, with encrypted controls, handshake proposals)
    let mut stream: Vec<(usize, MlsMessage, bool)> = vec![]; // (sender, message, is_app)
    let per_sender = if big_gap { 1030 } else { rng.range(3, 40) };
    let senders: Vec<usize> = if big_gap { vec![0] } else { (0..n).collect() };
    for &s in &senders {
        for k in 0..per_sender {
            if !big_gap && rng.chance(1, 15) {
                if let Err(e) = reload(&mut w, s) {
                    out.fails.push(format!("sender reload: {e}"));
                }
                out.cover.insert("sender-reload".into());
            }
            let (r, m) = w.with_group(s, |g| g.encrypt_application_message(&[k as u8, s as u8], vec![]));
            match m {
                Some(m) => stream.push((s, m, true)),
                None => out.fails.push(format!("encrypt failed: {}", r.s())),
            }
        }
    }
    out.msgs += stream.len() as u64;
    // AEAD (key, nonce) uniqueness over everything sealed in this epoch by all members
    {
        let mut l = log.lock().unwrap();
        l.enabled = false;
        let mut seen = BTreeSet::new();
        for (k, nn) in l.aead_seals.iter() {
            out.seals += 1;
            if !seen.insert((k.clone(), nn.clone())) {
                out.fails.push("two aead_seal calls used the same key and nonce within one epoch".into());
            }
        }
        // application vs handshake keys: keys are already covered by pair uniqueness; also check key reuse
        let mut keys = BTreeSet::new();
        for (k, _) in l.aead_seals.iter() {
            if !keys.insert(k.clone()) {
                out.fails.push("an AEAD content key was used for two encryptions".into());
            }
        }
        // the same on the classified log: keys, nonces before the reuse guard, generations; against the replayed secret tree
        let (seals, _) = classify(&l.seal_recs, &mut out.fails);
        if seals.len() != stream.len() {
            out.fails.push(format!("{} content seals for {} messages", seals.len(), stream.len()));
        }
        for (s, (from, m, _)) in seals.iter().zip(stream.iter()) {
            if s.leaf as usize != *from || !s.app() || !m.to_bytes().map(|b| b.ends_with(&s.ct)).unwrap_or(false) {
                out.fails.push(format!("seal log does not match the message stream at {}", s.d()));
            }
        }
        seal_oracles(&seals, &mut out.fails);
        match &view {
            Some(v) => replay_epoch(cs, v, &seals, qa, &mut out.fails, 8),
            None => out.fails.push("no member with an untouched secret tree at the start of the epoch".into()),
        }
        l.seal_recs.clear();
    }
    // delivery per receiver
    for r in 0..n {
        let mut order: Vec<usize> = (0..stream.len()).filter(|&i| stream[i].0 != r).collect();
        if big_gap {
            // newest first: more than 1024 ahead must be refused, then within the window accepted
            order.reverse();
        } else {
            for k in (1..order.len()).rev() {
                let j = rng.below(k as u64 + 1) as usize;
                order.swap(k, j);
            }
        }
        let mut accepted: BTreeSet<usize> = BTreeSet::new();
        let mut delivered = 0u64;
        let mut pos = 0;
        while pos < order.len() {
            let mi = order[pos];
            pos += 1;
            if !big_gap && rng.chance(1, 25) {
                if let Err(e) = reload(&mut w, r) {
                    out.fails.push(format!("receiver reload: {e}"));
                }
                out.cover.insert("receiver-reload".into());
            }
            let m = stream[mi].1.clone();
            let before = if big_gap { Some(w.components(r)) } else { None };
            let (res, o) = w.with_group(r, |g| g.process_incoming_message(m));
            delivered += 1;
            // C04 on this path: a message refused for its generation (too far ahead) leaves the receiver as it was
            if let (Some(b), Res::Err(e)) = (&before, &res) {
                let ch = World::<C>::changed(b, &w.components(r));
                if !ch.is_empty() {
                    out.c04.push(format!("a message refused with {e} changed {ch:?} of the receiver"));
                }
            }
            let gen_idx = stream[..=mi].iter().filter(|x| x.0 == stream[mi].0).count() as u64 - 1;
            match (&res, o) {
                (Res::Ok, Some(ReceivedMessage::ApplicationMessage(a))) => {
                    if !accepted.insert(mi) {
                        out.fails.push(format!("receiver {r} accepted message {mi} twice"));
                    }
                    if a.sender_index as usize != stream[mi].0 || a.data() != [gen_idx as u8, stream[mi].0 as u8] {
                        out.fails.push(format!("receiver {r}: wrong sender/payload for message {mi}"));
                    }
                }
                (Res::Err(e), _) => {
                    if big_gap {
                        // exact window: with the ratchet at generation 0, generation g is accepted iff g <= 1024
                        let ratchet_at = 0u64;
                        // (after the first acceptance the ratchet has moved past the older generations, whose keys it stored on the way:
                        // they are served from that history, so a refusal inside the window is a failure at any point)
                        if gen_idx <= ratchet_at + 1024 {
                            out.fails.push(format!("receiver {r} refused generation {gen_idx} inside the window: {e}"));
                        }
                        out.cover.insert(format!("gap:{e}"));
                    } else {
                        out.fails.push(format!("receiver {r} refused in-window message {mi} (sender generation {gen_idx}): {e}"));
                    }
                }
                (Res::Panic(p), _) => out.fails.push(format!("panic on delivery: {p}")),
                _ => out.fails.push(format!("receiver {r}: unexpected result for message {mi}")),
            }
            if big_gap && gen_idx > 1024 && accepted.contains(&mi) {
                out.fails.push(format!("receiver {r} accepted generation {gen_idx}, more than 1024 ahead of its ratchet"));
            }
            // replay
            if rng.chance(1, 4) || (big_gap && accepted.contains(&mi) && gen_idx % 200 == 0) {
                let m = stream[mi].1.clone();
                let (res2, _) = w.with_group(r, |g| g.process_incoming_message(m));
                delivered += 1;
                if res2.ok() && accepted.contains(&mi) {
                    out.fails.push(format!("receiver {r} accepted a replay of message {mi}"));
                }
                out.cover.insert(format!("replay:{}", res2.s()));
            }
            if big_gap && pos > 12 && pos < order.len() - 3 {
                // skip the middle of the long stream after the boundary has been probed
                pos = order.len() - 3;
            }
        }
        out.deliveries += delivered;
        if !big_gap && accepted.len() != order.len() {
            out.fails.push(format!("receiver {r} accepted {} of {} in-window messages", accepted.len(), order.len()));
        }
        out.cover.insert(format!("members={n}:enc_ctl={}", enc_ctl as u8));
    }
    if out.samples.len() < 4 {
        out.samples.push(format!("members={n} enc_ctl={} msgs={} big_gap={}", enc_ctl as u8, stream.len(), big_gap as u8));
    }
    for m in &w.members {
        if let Some(p) = &m.h.sqlite_path {
            let _ = std::fs::remove_file(p);
        }
    }
}


// ---------------------------------------------------------------------------------------------
// (3) application messages and encrypted handshake messages of the same senders, interleaved

type Mk<'a, C> = &'a dyn Fn(&Setup, &Handles, mls_rs::identity::SigningIdentity, mls_rs::crypto::SignatureSecretKey) -> Client<C>;

/// One ratchet of one sender as one receiver holds it, as far as the verdict goes (`Ratchet.get` of the Lean model, theorem
/// `get_ok_iff`): generation `g` is served iff it has not been served and `g <= cur + 1024`; then `cur = max(cur, g + 1)`.
#[derive(Default)]
struct Rm {
    cur: u32,
    used: BTreeSet<u32>,
}

struct Item {
    sender: usize,
    /// "app", a proposal kind, or "commit"
    kind: &'static str,
    msg: MlsMessage,
    /// payload of an application message, authenticated data of a proposal
    tag: Vec<u8>,
    seal: ContentSeal,
}

struct Hs<C: MlsConfig> {
    w: World<C>,
    log: SharedCryptoLog,
    items: Vec<Item>,
    /// (receiver, epoch, sender leaf, application ratchet?)
    model: BTreeMap<(usize, u64, u32, bool), Rm>,
    log_pos: usize,
    /// messages sealed so far per (epoch, sender, application?)
    sent: BTreeMap<(u64, usize, bool), u32>,
}

fn hs_note_seal<C: MlsConfig>(h: &mut Hs<C>, s: usize, kind: &'static str, epoch: u64, m: &MlsMessage, out: &mut Out) -> Option<ContentSeal> {
    let recs: Vec<SealRec> = {
        let l = h.log.lock().unwrap();
        l.seal_recs[h.log_pos..].to_vec()
    };
    h.log_pos += recs.len();
    let (mut seals, _) = classify(&recs, &mut out.fails);
    if seals.len() != 1 {
        out.fails.push(format!("{kind} by member {s}: {} content seals", seals.len()));
        return None;
    }
    let seal = seals.pop().unwrap();
    let want = match kind {
        "app" => 1,
        "commit" => 3,
        _ => 2,
    };
    if !m.to_bytes().map(|b| b.ends_with(&seal.ct)).unwrap_or(false) {
        out.fails.push(format!("{kind} by member {s}: the message does not end with the sealed ciphertext"));
    }
    if seal.leaf != h.w.group(s).current_member_index() || seal.epoch != epoch || seal.ctype != want {
        out.fails.push(format!("{kind} by member {s} in epoch {epoch}: sealed as {}", seal.d()));
    }
    // the two ratchets of a sender count independently: the k-th application message has application generation k whatever
    // was sent on the handshake ratchet in between, and the other way round
    let c = h.sent.entry((epoch, s, kind == "app")).or_insert(0);
    if seal.gen != *c {
        out.fails.push(format!(
            "{kind} by member {s} is its {}th {} message of epoch {epoch} but was sealed as {}",
            *c,
            if kind == "app" { "application" } else { "handshake" },
            seal.d()
        ));
    }
    *c += 1;
    Some(seal)
}

/// `clear`: a member holding proposals (its own or received ones) forgets them before it sends application data
/// (`clear_proposal_cache`); otherwise the send is attempted and must be refused (`CommitRequired`) without using a key — the
/// next message of that ratchet shows the generation was not consumed.
fn hs_send<C: MlsConfig>(h: &mut Hs<C>, mk: Mk<C>, s: usize, kind: &'static str, tag: Vec<u8>, clear: bool, out: &mut Out) -> Option<usize> {
    let n = h.w.members.len();
    let epoch = h.w.group(s).current_epoch();
    let t = tag.clone();
    if kind == "app" && h.w.group(s).commit_required() {
        if clear {
            h.w.with_group(s, |g| {
                g.clear_proposal_cache();
                Ok(())
            });
            out.cover.insert("hs:clear-cache-then-app".into());
        } else {
            let (r, m) = h.w.with_group(s, |g| g.encrypt_application_message(&t, vec![]));
            if m.is_some() {
                out.fails.push(format!("member {s} encrypted application data while holding proposals"));
                let l = h.log.lock().unwrap().seal_recs.len();
                h.log_pos = l;
            }
            out.cover.insert(format!("hs:app-while-proposals:{}", r.s()));
            return None;
        }
    }
    let (r, m) = match kind {
        "app" => h.w.with_group(s, |g| g.encrypt_application_message(&t, vec![])),
        "psk" => {
            for m in &h.w.members {
                m.h.psk.inner.lock().unwrap().insert(ext_psk_id(&tag), psk_value(&[&tag[..], &[7u8; 32]].concat()));
            }
            h.w.with_group(s, |g| g.propose_external_psk(ext_psk_id(&t), t.clone()))
        }
        "update" => h.w.with_group(s, |g| g.propose_update(t)),
        "gce" => h.w.with_group(s, |g| g.propose_group_context_extensions(ExtensionList::new(), t)),
        "remove" => h.w.with_group(s, |g| g.propose_remove(((s + 1) % n) as u32, t)),
        "custom" => h.w.with_group(s, |g| g.propose_custom(CustomProposal::new(ProposalType::from(0xf00du16), t.clone()), t)),
        "add" => {
            let su = Setup::new(&format!("x{}", hex(&tag)));
            let hd = handles(&su, &h.w.crypto_log, &h.w.scratch);
            let (id, sk) = make_identity(&su.name, su.suite);
            let kp = mk(&su, &hd, id, sk).generate_key_package_message(Default::default(), Default::default(), None);
            match kp {
                Ok(kp) => h.w.with_group(s, |g| g.propose_add(kp, t)),
                Err(e) => (Res::Err(err_class(&e)), None),
            }
        }
        _ => unreachable!(),
    };
    let Some(m) = m else {
        out.fails.push(format!("{kind} by member {s} failed: {}", r.s()));
        return None;
    };
    let seal = hs_note_seal(h, s, kind, epoch, &m, out)?;
    h.items.push(Item { sender: s, kind, msg: m, tag, seal });
    out.msgs += 1;
    Some(h.items.len() - 1)
}

/// Deliver item `mi` to member `r` (possibly its sender) and compare with the verdict the ratchet model gives.
fn hs_deliver<C: MlsConfig>(h: &mut Hs<C>, r: usize, mi: usize, out: &mut Out) -> bool {
    let (sender, kind, tag, seal, m) = {
        let it = &h.items[mi];
        (it.sender, it.kind, it.tag.clone(), it.seal.clone(), it.msg.clone())
    };
    let kt = if seal.app() { "app" } else { "hs" };
    let own = sender == r;
    let late = seal.epoch < h.w.group(r).current_epoch();
    let key = (r, seal.epoch, seal.leaf, seal.app());
    let (cur, used) = h.model.get(&key).map(|m| (m.cur, m.used.contains(&seal.gen))).unwrap_or((0, false));
    let in_window = seal.gen as u64 <= cur as u64 + 1024;
    // a proposal or commit of a closed epoch is refused whatever its generation (only application data is taken late)
    let closed = late && kind != "app";
    let expect_ok = !own && !used && in_window && !closed;
    let before = if !expect_ok { Some(comps(&h.w, r)) } else { None };
    let (res, o) = h.w.with_group(r, |g| g.process_incoming_message(m));
    out.deliveries += 1;
    let what = format!("{kind} {} of member {sender}", seal.d());
    if own {
        // the sender's copy: an application message is refused; an encrypted proposal is answered from the cache of own
        // proposals (no key involved).  Either way nothing of the member changes when it is refused.
        match (&res, kind) {
            (Res::Ok, "app") | (Res::Ok, "commit") => out.fails.push(format!("member {r} accepted its own {what}")),
            (Res::Panic(p), _) => out.fails.push(format!("panic on delivery: {p}")),
            _ => {}
        }
        out.cover.insert(format!("own-echo:{}:{}", if kind == "app" { "app" } else { "proposal" }, res.s()));
        let ch = World::<C>::changed(before.as_ref().unwrap(), &comps(&h.w, r));
        if !ch.is_empty() {
            if let Res::Err(e) = &res {
                out.c04.push(format!("own message refused with {e} changed {ch:?} of the sender"));
            } else if ch.iter().any(|c| c == "secret_tree") {
                out.fails.push(format!("member {r} processing its own {what} changed its secret tree"));
            }
        }
        return false;
    }
    match (&res, o) {
        (Res::Ok, Some(rm)) => {
            if !expect_ok {
                out.fails.push(format!(
                    "receiver {r} accepted {what} {}",
                    if closed { "of a closed epoch" } else if used { "a second time" } else { "more than 1024 generations ahead of its ratchet" }
                ));
                return true;
            }
            let good = match (&rm, kind) {
                (ReceivedMessage::ApplicationMessage(a), "app") => a.sender_index == seal.leaf && a.data() == &tag[..],
                (ReceivedMessage::Commit(c), "commit") => c.committer == seal.leaf && matches!(c.effect, CommitEffect::NewEpoch(_)),
                (ReceivedMessage::Proposal(p), k) => p.sender == ProposalSender::Member(seal.leaf) && p.authenticated_data == tag && proposal_kind(&p.proposal) == k,
                _ => false,
            };
            if !good {
                out.fails.push(format!("receiver {r}: wrong sender/content for {what}: {}", received_summary(&rm)));
            }
            // coverage of the independence of the two ratchets and of gaps
            let other = h.model.get(&(r, seal.epoch, seal.leaf, !seal.app())).map(|m| m.cur).unwrap_or(0);
            if seal.gen == 0 && other > 0 {
                out.cover.insert(format!("{kt}0-after-{}", if seal.app() { "hs" } else { "app" }));
                if other > 50 {
                    out.cover.insert(format!("{kt}0-after-{}50", if seal.app() { "hs" } else { "app" }));
                }
            }
            if seal.gen > cur {
                out.cover.insert(format!("gap:{kt}"));
                if seal.gen as u64 == cur as u64 + 1024 {
                    out.cover.insert(format!("window-edge:{kt}{}", if kind == "commit" { ":commit" } else { "" }));
                }
            } else if seal.gen < cur {
                out.cover.insert(format!("from-history:{kt}"));
            }
            if late {
                out.cover.insert(format!("late:{kt}:ok"));
            }
            let m = h.model.entry(key).or_default();
            m.used.insert(seal.gen);
            m.cur = m.cur.max(seal.gen + 1);
            true
        }
        (Res::Err(e), _) => {
            if expect_ok {
                out.fails.push(format!("receiver {r} refused {what} (ratchet at {cur}, not served before{}): {e}", if late { ", epoch closed" } else { "" }));
            } else {
                out.cover.insert(format!("refused:{}:{}:{e}", if closed { "epoch-closed" } else if used { "replay" } else { "window" }, if kind == "commit" { "commit" } else { kt }));
                let ch = World::<C>::changed(before.as_ref().unwrap(), &comps(&h.w, r));
                if !ch.is_empty() {
                    out.c04.push(format!("a message refused with {e} changed {ch:?} of the receiver"));
                }
            }
            false
        }
        (Res::Panic(p), _) => {
            out.fails.push(format!("panic on delivery: {p}"));
            false
        }
        _ => {
            out.fails.push(format!("receiver {r}: unexpected result for {what}"));
            false
        }
    }
}

/// the member's state without the read-through cache marker of prior epochs (not part of the saved state; DESIGN section 13)
fn comps<C: MlsConfig>(w: &World<C>, i: usize) -> Vec<(String, Vec<u8>)> {
    w.components(i).into_iter().filter(|(k, _)| k != "repo_pending_updates").collect()
}

fn hs_reload<C: MlsConfig>(h: &mut Hs<C>, i: usize, who: &str, out: &mut Out) {
    if let Err(e) = reload(&mut h.w, i) {
        out.fails.push(format!("{who} reload: {e}"));
    }
    out.cover.insert(format!("hs:{who}-reload"));
}

/// End of a scenario: the whole log against the oracles and the replayed trees of the epochs seen.
fn hs_finish<C: MlsConfig, P: CipherSuiteProvider>(h: &mut Hs<C>, views: &[Option<(u64, u32, Vec<u8>, Vec<u8>)>], cs: &P, qa: &mut QA, out: &mut Out, sdk_rows: usize) {
    let recs = {
        let mut l = h.log.lock().unwrap();
        l.enabled = false;
        l.aead_seals.clear();
        std::mem::take(&mut l.seal_recs)
    };
    let (seals, welcomes) = classify(&recs, &mut out.fails);
    out.seals += recs.len() as u64;
    if welcomes > 0 {
        // every commit encrypts a group info under the welcome key (no AAD), new members or not: a class of its own
        out.cover.insert("welcome-seal".into());
    }
    if seals.len() != h.items.len() {
        out.fails.push(format!("{} content seals for {} messages", seals.len(), h.items.len()));
    }
    for (s, it) in seals.iter().zip(h.items.iter()) {
        if s.key != it.seal.key || s.ct != it.seal.ct {
            out.fails.push(format!("seal log does not match the message stream at {}", s.d()));
        }
    }
    seal_oracles(&seals, &mut out.fails);
    // the clause by itself: the keys used for handshake content and for application content are disjoint
    let appk: BTreeSet<&[u8]> = seals.iter().filter(|s| s.app()).map(|s| &s.key[..]).collect();
    if seals.iter().any(|s| !s.app() && appk.contains(&s.key[..])) {
        out.fails.push("the keys used for handshake content and for application content are not disjoint".into());
    }
    for v in views {
        match v {
            Some(v) => replay_epoch(cs, v, &seals, qa, &mut out.fails, sdk_rows),
            None => out.fails.push("no member with an untouched secret tree at the start of an epoch".into()),
        }
    }
    for m in &h.w.members {
        if let Some(p) = &m.h.sqlite_path {
            let _ = std::fs::remove_file(p);
        }
    }
}

fn hs_start<C: MlsConfig>(rng: &mut Rng, log: SharedCryptoLog, mk: Mk<C>, n: usize, out: &mut Out) -> Option<Hs<C>> {
    let mut w: World<C> = new_world(log.clone(), &crate::util::scratch("c05"));
    if let Err(e) = small_group(&mut w, mk, n, true, rng.chance(1, 3)) {
        out.fails.push(format!("setup: {e}"));
        return None;
    }
    {
        let mut l = log.lock().unwrap();
        l.aead_seals.clear();
        l.seal_recs.clear();
        l.enabled = true;
    }
    Some(Hs { w, log, items: vec![], model: Default::default(), log_pos: 0, sent: Default::default() })
}

/// The committer's encrypted commit: built (after forgetting the cached proposals if `clear_cache`) and applied by the
/// committer; the callers deliver it.  `by_value`: an external PSK the commit carries by value.
fn hs_commit<C: MlsConfig>(h: &mut Hs<C>, c: usize, clear_cache: bool, by_value: Option<Vec<u8>>, out: &mut Out) -> Option<usize> {
    let epoch = h.w.group(c).current_epoch();
    if let Some(id) = &by_value {
        for m in &h.w.members {
            m.h.psk.inner.lock().unwrap().insert(ext_psk_id(id), psk_value(&[&id[..], &[9u8; 32]].concat()));
        }
    }
    let (r, o) = h.w.with_group(c, |g| {
        if clear_cache {
            g.clear_proposal_cache();
        }
        let mut b = g.commit_builder();
        if let Some(id) = &by_value {
            b = b.add_external_psk(ext_psk_id(id))?;
        }
        b.build()
    });
    let Some(o) = o else {
        out.fails.push(format!("encrypted commit by member {c} failed: {}", r.s()));
        return None;
    };
    let m = o.commit_message.clone();
    let seal = hs_note_seal(h, c, "commit", epoch, &m, out)?;
    h.items.push(Item { sender: c, kind: "commit", msg: m, tag: vec![], seal });
    out.msgs += 1;
    let ci = h.items.len() - 1;
    let (r, _) = h.w.with_group(c, |g| g.apply_pending_commit());
    if !r.ok() {
        out.fails.push(format!("apply_pending_commit: {}", r.s()));
        return None;
    }
    Some(ci)
}

fn shuffle<T>(rng: &mut Rng, v: &mut [T]) {
    for k in (1..v.len()).rev() {
        let j = rng.below(k as u64 + 1) as usize;
        v.swap(k, j);
    }
}

/// Several senders, each a random interleaving of application messages and encrypted proposals; sending and receiving
/// interleaved (every member's secret tree serves its own leaf and the others' at the same time); duplicates delivered at a
/// random later time; reloads of senders and receivers; then the encrypted commit of one of the senders.
/// `by_ref`: every proposal reaches everybody and the commit carries all of them by reference.  Otherwise the committer's
/// messages reach each receiver completely / in part / not at all, it forgets the proposals and commits (with or without a
/// proposal by value): its commit is `k` handshake generations ahead of a receiver that saw none of its `k` proposals.
fn hs_scenario<C: MlsConfig, P: CipherSuiteProvider>(rng: &mut Rng, log: SharedCryptoLog, mk: Mk<C>, out: &mut Out, cs: &P, qa: &mut QA) {
    let n = rng.range(2, 4) as usize;
    let Some(mut h) = hs_start(rng, log, mk, n, out) else { return };
    let mut views = vec![fresh_epoch_view(&h.w, 0)];
    let by_ref = rng.chance(1, 2);
    let c = rng.below(n as u64) as usize;
    // what the committer's messages do per receiver when proposals are not committed: 0 none, 1 some, 2 all
    let mode: Vec<u64> = (0..n).map(|_| rng.below(3)).collect();
    // plans
    let mut plans: Vec<Vec<(&'static str, Vec<u8>)>> = vec![];
    let mut gce_used = false;
    let mut adds = 0;
    for s in 0..n {
        let cnt = rng.range(3, 22);
        let mut updated = false;
        let mut p = vec![];
        for k in 0..cnt {
            let tag = vec![s as u8, k as u8, rng.next() as u8];
            if rng.chance(1, 2) {
                p.push(("app", tag));
                continue;
            }
            let kind = if by_ref {
                match rng.below(6) {
                    0 if !updated && s != c => {
                        updated = true;
                        "update"
                    }
                    1 if !gce_used => {
                        gce_used = true;
                        "gce"
                    }
                    _ => "psk",
                }
            } else {
                match rng.below(9) {
                    0 => "update",
                    1 => "gce",
                    2 | 3 => "remove",
                    4 | 5 => "custom",
                    6 if adds < 2 => {
                        adds += 1;
                        "add"
                    }
                    _ => "psk",
                }
            };
            p.push((kind, tag));
        }
        if by_ref && rng.chance(3, 4) {
            // application data can only be sent while no proposal is held: mostly first
            p.sort_by_key(|x| x.0 != "app");
        }
        p.reverse();
        plans.push(p);
    }
    let mut inbox: Vec<Vec<usize>> = vec![vec![]; n];
    let mut missed: Vec<Vec<usize>> = vec![vec![]; n];
    loop {
        let senders: Vec<usize> = (0..n).filter(|&s| !plans[s].is_empty()).collect();
        let ready: Vec<usize> = (0..n).filter(|&r| !inbox[r].is_empty()).collect();
        if senders.is_empty() && ready.is_empty() {
            break;
        }
        if !senders.is_empty() && (ready.is_empty() || rng.chance(1, 2)) {
            let s = *rng.pick(&senders);
            if rng.chance(1, 12) {
                hs_reload(&mut h, s, "sender", out);
            }
            let (kind, tag) = plans[s].pop().unwrap();
            let Some(mi) = hs_send(&mut h, mk, s, kind, tag, !by_ref, out) else { continue };
            out.cover.insert(format!("hs:send:{kind}"));
            for r in 0..n {
                if r == s {
                    if rng.chance(1, 8) {
                        inbox[r].push(mi);
                    }
                    continue;
                }
                let lossy = !by_ref && s == c;
                if lossy && (mode[r] == 0 || (mode[r] == 1 && rng.chance(1, 2))) {
                    missed[r].push(mi);
                    continue;
                }
                inbox[r].push(mi);
                if rng.chance(1, 4) {
                    inbox[r].push(mi);
                }
            }
        } else {
            let r = *rng.pick(&ready);
            if rng.chance(1, 20) {
                hs_reload(&mut h, r, "receiver", out);
            }
            let j = rng.below(inbox[r].len() as u64) as usize;
            let mi = inbox[r].swap_remove(j);
            hs_deliver(&mut h, r, mi, out);
        }
    }
    // everything that was put into an inbox once must have been accepted exactly once
    for r in 0..n {
        for (mi, it) in h.items.iter().enumerate() {
            if it.sender == r || missed[r].contains(&mi) {
                continue;
            }
            let served = h.model.get(&(r, it.seal.epoch, it.seal.leaf, it.seal.app())).map(|m| m.used.contains(&it.seal.gen)).unwrap_or(false);
            if !served {
                out.fails.push(format!("receiver {r} never accepted {} {}", it.kind, it.seal.d()));
            }
        }
    }
    // the commit of member c, sealed on its handshake ratchet after the proposals it sent
    let k = *h.sent.get(&(h.w.group(c).current_epoch(), c, false)).unwrap_or(&0);
    let by_value = if !by_ref && rng.chance(1, 2) { Some(vec![0xC0, c as u8, rng.next() as u8]) } else { None };
    let Some(ci) = hs_commit(&mut h, c, !by_ref, by_value.clone(), out) else {
        hs_finish(&mut h, &views, cs, qa, out, 6);
        return;
    };
    if h.items[ci].seal.gen != k {
        out.fails.push(format!("the commit after {k} encrypted proposals of member {c} was sealed as {}", h.items[ci].seal.d()));
    }
    out.cover.insert(format!("hs:commit:{}", if by_ref { "by-reference" } else if by_value.is_some() { "by-value" } else { "empty" }));
    for r in 0..n {
        if r == c {
            continue;
        }
        if rng.chance(1, 6) {
            hs_reload(&mut h, r, "receiver", out);
        }
        let seen = h.model.get(&(r, h.items[ci].seal.epoch, h.items[ci].seal.leaf, false)).map(|m| m.used.len()).unwrap_or(0);
        if k > 0 {
            out.cover.insert(format!("hs:commit-after-proposals:receiver-saw-{}", if seen == 0 { "none" } else if (seen as u32) < k { "some" } else { "all" }));
        }
        if !hs_deliver(&mut h, r, ci, out) {
            out.fails.push(format!("receiver {r} (saw {seen} of the committer's {k} encrypted proposals) did not accept the encrypted commit"));
        }
        if rng.chance(1, 3) {
            hs_deliver(&mut h, r, ci, out);
        }
    }
    if let Err(e) = agreement(&h.w, &(0..n).collect::<Vec<_>>()) {
        out.fails.push(format!("after the encrypted commit: {e}"));
    }
    // the next epoch: fresh ratchets (generation 0 again, other keys); late application messages of the closed epoch
    views.push(fresh_epoch_view(&h.w, c));
    let mut batch = vec![];
    for s in 0..n {
        for j in 0..rng.range(1, 3) {
            let kind = if rng.chance(1, 2) { "app" } else { "psk" };
            if let Some(mi) = hs_send(&mut h, mk, s, kind, vec![0xE1, s as u8, j as u8, rng.next() as u8], true, out) {
                batch.push(mi);
            }
        }
    }
    for r in 0..n {
        let mut order: Vec<usize> = batch.iter().copied().filter(|&mi| h.items[mi].sender != r).collect();
        let late: Vec<usize> = missed[r].iter().copied().filter(|&mi| h.items[mi].kind == "app").take(4).collect();
        order.extend(late.iter().copied());
        shuffle(rng, &mut order);
        for mi in order {
            let ok = hs_deliver(&mut h, r, mi, out);
            let is_late = late.contains(&mi);
            if is_late && ok {
                // accepted from the closed epoch: the replay must still be refused after the member was saved and loaded
                hs_reload(&mut h, r, "receiver", out);
                out.cover.insert("late:replay-after-reload".into());
            }
            if is_late || rng.chance(1, 4) {
                hs_deliver(&mut h, r, mi, out);
            }
        }
    }
    if out.samples.len() < 8 {
        out.samples.push(format!("hs members={n} by_ref={} committer={c} msgs={}", by_ref as u8, h.items.len()));
    }
    out.cover.insert(format!("hs:members={n}:{}", if by_ref { "by-ref" } else { "lossy" }));
    hs_finish(&mut h, &views, cs, qa, out, 6);
}

/// The window on the handshake ratchet: one sender produces `k` in {1024, 1025, 1026} encrypted proposals (and some sixty
/// application messages in between) of which the receivers see a few; its commit has handshake generation `k`.
/// Receiver 1 takes the newest first (generation 1025 is refused while its ratchet is at 0, 1024 is served, then 1025 is, then
/// generation 0 from the history — after it has seen application generation > 50 of the same sender).  Receiver 2 sees no
/// proposal at all: the commit is refused iff `k > 1024` and served after one proposal moved the ratchet.
fn hs_gap_scenario<C: MlsConfig, P: CipherSuiteProvider>(rng: &mut Rng, log: SharedCryptoLog, mk: Mk<C>, out: &mut Out, cs: &P, qa: &mut QA, k: u32) {
    let n = 3;
    let Some(mut h) = hs_start(rng, log, mk, n, out) else { return };
    let mut views = vec![fresh_epoch_view(&h.w, 1)];
    let apps = 60u32;
    let mut hs_items = vec![];
    let mut app_items = vec![];
    let (mut hs_left, mut app_left) = (k, apps);
    let reload_at = rng.below(k as u64) as u32;
    while hs_left + app_left > 0 {
        if rng.below((hs_left + app_left) as u64) < app_left as u64 {
            app_left -= 1;
            if let Some(mi) = hs_send(&mut h, mk, 0, "app", vec![0xA0, app_left as u8, rng.next() as u8], true, out) {
                app_items.push(mi);
            }
        } else {
            hs_left -= 1;
            if hs_left == reload_at {
                hs_reload(&mut h, 0, "sender", out);
            }
            let kind = *rng.pick(&["remove", "custom", "gce", "remove"]);
            if let Some(mi) = hs_send(&mut h, mk, 0, kind, vec![(hs_left >> 8) as u8, hs_left as u8, rng.next() as u8], true, out) {
                hs_items.push(mi);
            }
        }
    }
    if hs_items.len() != k as usize || app_items.len() != apps as usize {
        hs_finish(&mut h, &views, cs, qa, out, 6);
        return;
    }
    let Some(ci) = hs_commit(&mut h, 0, true, None, out) else {
        hs_finish(&mut h, &views, cs, qa, out, 6);
        return;
    };
    if h.items[ci].seal.gen != k {
        out.fails.push(format!("the commit after {k} encrypted proposals was sealed as {}", h.items[ci].seal.d()));
    }
    let hs = |g: u32| hs_items.get(g as usize).copied();
    // receiver 1
    let mut order: Vec<Option<usize>> = vec![app_items.last().copied(), hs(1025), hs(1024), hs(1023), hs(1025), hs(0), hs(0)];
    for _ in 0..10 {
        order.push(hs(rng.below(k as u64) as u32));
    }
    order.extend([app_items.first().copied(), None, hs(1024), hs(1), Some(ci), Some(ci)]);
    for x in order {
        match x {
            Some(mi) => {
                hs_deliver(&mut h, 1, mi, out);
            }
            None => hs_reload(&mut h, 1, "receiver", out),
        }
    }
    // receiver 2
    let first = k - 1024 + rng.below(3) as u32;
    let order2: Vec<Option<usize>> = vec![Some(ci), app_items.get(50).copied(), Some(ci), None, hs(first), hs(0), Some(ci), None, Some(ci), hs(2)];
    for x in order2 {
        match x {
            Some(mi) => {
                hs_deliver(&mut h, 2, mi, out);
            }
            None => hs_reload(&mut h, 2, "receiver", out),
        }
    }
    for r in 1..n {
        if !h.model.get(&(r, h.items[ci].seal.epoch, 0, false)).map(|m| m.used.contains(&k)).unwrap_or(false) {
            out.fails.push(format!("receiver {r} did not accept the commit at handshake generation {k} in the end"));
        }
    }
    if let Err(e) = agreement(&h.w, &(0..n).collect::<Vec<_>>()) {
        out.fails.push(format!("after the encrypted commit (handshake generation {k}): {e}"));
    }
    views.push(fresh_epoch_view(&h.w, 0));
    out.cover.insert(format!("hsgap:k={k}"));
    if out.samples.len() < 10 {
        out.samples.push(format!("hsgap k={k} msgs={}", h.items.len()));
    }
    hs_finish(&mut h, &views, cs, qa, out, 6);
}

pub fn run(o: &Opts) -> i32 {
    crate::util::quiet_panics();
    let dir = o.str("out", "/verif/work/c05");
    let mut rng = Rng::new(o.seed());
    // (1) ratchet scripts for the Lean model
    let mut qa = QA::create(&dir, "c05");
    let cs = RustCryptoProvider::default().cipher_suite_provider(CipherSuite::from(1u16)).unwrap();
    let scripts = o.u64("scripts", if o.thorough() { 4000 } else { 150 });
    for i in 0..scripts {
        secret_tree_script(&cs, 1, &mut rng, &mut qa, 60, i % 3 == 0);
    }
    // (2) real groups
    let scen = o.u64("scenarios", if o.thorough() { 600 } else { 40 });
    let gaps = o.u64("gaps", if o.thorough() { 6 } else { 1 });
    let mut out = Out { fails: vec![], c04: vec![], msgs: 0, deliveries: 0, seals: 0, cover: Default::default(), samples: vec![] };
    let log: SharedCryptoLog = Default::default();
    let mk = |s: &Setup, hd: &Handles, id, sk| mk_client(s, hd, id, sk);
    for i in 0..scen + gaps {
        let mut r = rng.fork();
        scenario(&mut r, log.clone(), &mk, &mut out, i >= scen, &cs, &mut qa);
    }
    // (3) application and encrypted handshake messages interleaved; the window on the handshake ratchet
    let hs = o.u64("hs", if o.thorough() { 500 } else { 30 });
    let hsgaps = o.u64("hsgaps", if o.thorough() { 6 } else { 1 });
    for _ in 0..hs {
        let mut r = rng.fork();
        hs_scenario(&mut r, log.clone(), &mk, &mut out, &cs, &mut qa);
    }
    for i in 0..hsgaps {
        let mut r = rng.fork();
        // 1025 and 1026 probe both sides of the window (1024 served, 1025 refused); 1024 only the serving side
        let k = if hsgaps >= 3 { 1024 + (i % 3) as u32 } else { 1025 + r.below(2) as u32 };
        hs_gap_scenario(&mut r, log.clone(), &mk, &mut out, &cs, &mut qa, k);
    }
    let rows = qa.finish();
    let _ = std::fs::remove_dir_all(&crate::util::scratch("c05"));
    println!("rows {rows}");
    println!("scenarios {}", scen + gaps + hs + hsgaps);
    println!("messages {}", out.msgs);
    println!("deliveries {}", out.deliveries);
    println!("aead_seals {}", out.seals);
    println!("cover {}", out.cover.iter().cloned().collect::<Vec<_>>().join(","));
    println!("other_property_failures {}", out.c04.len());
    if let Some(x) = out.c04.first() {
        println!("c04_sample {x}");
    }
    println!("oracle_failures {}", if o.str("focus", "") == "C04" { out.c04.len() } else { out.fails.len() });
    // `--focus C04`: this run is part of the C04 check (state changes by refused messages); otherwise of C05 / C13
    let c04_focus = o.str("focus", "") == "C04";
    if c04_focus {
        std::fs::write(format!("{dir}/c05.failures"), out.c04.iter().map(|f| format!("C04: {f}")).collect::<Vec<_>>().join("\n")).unwrap();
    } else {
        std::fs::write(format!("{dir}/c05.failures"), out.fails.iter().cloned().collect::<Vec<_>>().join("\n")).unwrap();
    }
    std::fs::write(format!("{dir}/c05.samples"), out.samples.join("\n")).unwrap();
    0
}
