//! C05: message keys are single-use.  (1) secret-tree request scripts against the Lean ratchet model
//! (stream `c05.q`), (2) real groups: every (key, nonce) pair handed to `aead_seal` is unique, every
//! ciphertext is accepted exactly once under permuted/duplicated delivery, the 1024-generation window
//! is exact, across save/reload of sender and receiver.
use crate::c13::secret_tree_script;
use crate::providers::SharedCryptoLog;
use crate::util::{Opts, Rng, QA};
use crate::world::*;
use mls_rs::client_builder::MlsConfig;
use mls_rs::group::ReceivedMessage;
use mls_rs::{CipherSuite, Client, CryptoProvider, MlsMessage};
use mls_rs_crypto_rustcrypto::RustCryptoProvider;
use std::collections::BTreeSet;

struct Out {
    fails: Vec<String>,
    /// state changes by refused messages (reported under C04, not C05)
    c04: Vec<String>,
    msgs: u64,
    deliveries: u64,
    seals: u64,
    cover: BTreeSet<String>,
    samples: Vec<String>,
}

fn small_group<C: MlsConfig>(
    w: &mut World<C>,
    mk: &dyn Fn(&Setup, &Handles, mls_rs::identity::SigningIdentity, mls_rs::crypto::SignatureSecretKey) -> Client<C>,
    n: usize,
    enc_ctl: bool,
    sqlite: bool,
) -> Result<(), String> {
    for i in 0..n {
        let mut s = Setup::new(&((b'A' + i as u8) as char).to_string());
        s.enc_ctl = enc_ctl;
        s.sqlite = sqlite && i % 2 == 1;
        let h = handles(&s, &w.crypto_log, &w.scratch);
        let (id, sk) = make_identity(&s.name, s.suite);
        let client = mk(&s, &h, id, sk);
        w.members.push(Member { identity: s.name.as_bytes().to_vec(), setup: s, h, client, group: None, ghosts: vec![], wrote: false });
    }
    let g = w.members[0].client.create_group(Default::default(), Default::default(), None).map_err(|e| format!("create: {e:?}"))?;
    w.members[0].group = Some(g);
    let mut kps = vec![];
    for i in 1..n {
        kps.push(w.members[i].client.generate_key_package_message(Default::default(), Default::default(), None).map_err(|e| format!("kp: {e:?}"))?);
    }
    let (r, out) = w.with_group(0, |g| {
        let mut b = g.commit_builder();
        for kp in kps {
            b = b.add_member(kp)?;
        }
        b.build()
    });
    let out = out.ok_or(format!("commit: {}", r.s()))?;
    w.with_group(0, |g| g.apply_pending_commit());
    for i in 1..n {
        let mut ok = false;
        for wm in &out.welcome_messages {
            if let Ok((g, _)) = w.members[i].client.join_group(None, wm, None) {
                w.members[i].group = Some(g);
                ok = true;
                break;
            }
        }
        if !ok {
            return Err(format!("member {i} cannot join"));
        }
    }
    Ok(())
}

fn reload<C: MlsConfig>(w: &mut World<C>, i: usize) -> Result<(), String> {
    let (r, _) = w.with_group(i, |g| g.write_to_storage());
    if !r.ok() {
        return Err(format!("write: {}", r.s()));
    }
    let gid = w.group(i).group_id().to_vec();
    let g = w.members[i].client.load_group(&gid).map_err(|e| format!("load: {e:?}"))?;
    w.members[i].group = Some(g);
    Ok(())
}

fn scenario<C: MlsConfig>(
    rng: &mut Rng,
    log: SharedCryptoLog,
    mk: &dyn Fn(&Setup, &Handles, mls_rs::identity::SigningIdentity, mls_rs::crypto::SignatureSecretKey) -> Client<C>,
    out: &mut Out,
    big_gap: bool,
) {
    let mut w: World<C> = new_world(log.clone(), "/tmp/vharness-scratch-c05");
    let n = rng.range(2, 4) as usize;
    let enc_ctl = rng.chance(1, 2);
    if let Err(e) = small_group(&mut w, mk, n, enc_ctl, rng.chance(1, 3)) {
        out.fails.push(format!("setup: {e}"));
        return;
    }
    {
        let mut l = log.lock().unwrap();
        l.aead_seals.clear();
        l.enabled = true;
    }
    // senders emit application messages (and, with encrypted controls, handshake proposals)
    let mut stream: Vec<(usize, MlsMessage, bool)> = vec![]; // (sender, message, is_app)
    let per_sender = if big_gap { 1030 } else { rng.range(3, 40) };
    let senders: Vec<usize> = if big_gap { vec![0] } else { (0..n).collect() };
    for &s in &senders {
        for k in 0..per_sender {
            if !big_gap && rng.chance(1, 15) {
                if let Err(e) = reload(&mut w, s) {
                    out.fails.push(format!("sender reload: {e}"));
                }
                out.cover.insert("sender-reload".into());
            }
            let (r, m) = w.with_group(s, |g| g.encrypt_application_message(&[k as u8, s as u8], vec![]));
            match m {
                Some(m) => stream.push((s, m, true)),
                None => out.fails.push(format!("encrypt failed: {}", r.s())),
            }
        }
    }
    out.msgs += stream.len() as u64;
    // AEAD (key, nonce) uniqueness over everything sealed in this epoch by all members
    {
        let mut l = log.lock().unwrap();
        l.enabled = false;
        let mut seen = BTreeSet::new();
        for (k, nn) in l.aead_seals.iter() {
            out.seals += 1;
            if !seen.insert((k.clone(), nn.clone())) {
                out.fails.push("two aead_seal calls used the same key and nonce within one epoch".into());
            }
        }
        // application vs handshake keys: keys are already covered by pair uniqueness; also check key reuse
        let mut keys = BTreeSet::new();
        for (k, _) in l.aead_seals.iter() {
            if !keys.insert(k.clone()) {
                out.fails.push("an AEAD content key was used for two encryptions".into());
            }
        }
    }
    // delivery per receiver
    for r in 0..n {
        let mut order: Vec<usize> = (0..stream.len()).filter(|&i| stream[i].0 != r).collect();
        if big_gap {
            // newest first: more than 1024 ahead must be refused, then within the window accepted
            order.reverse();
        } else {
            for k in (1..order.len()).rev() {
                let j = rng.below(k as u64 + 1) as usize;
                order.swap(k, j);
            }
        }
        let mut accepted: BTreeSet<usize> = BTreeSet::new();
        let mut delivered = 0u64;
        let mut pos = 0;
        while pos < order.len() {
            let mi = order[pos];
            pos += 1;
            if !big_gap && rng.chance(1, 25) {
                if let Err(e) = reload(&mut w, r) {
                    out.fails.push(format!("receiver reload: {e}"));
                }
                out.cover.insert("receiver-reload".into());
            }
            let m = stream[mi].1.clone();
            let before = if big_gap { Some(w.components(r)) } else { None };
            let (res, o) = w.with_group(r, |g| g.process_incoming_message(m));
            delivered += 1;
            // C04 on this path: a message refused for its generation (too far ahead) leaves the receiver as it was
            if let (Some(b), Res::Err(e)) = (&before, &res) {
                let ch = World::<C>::changed(b, &w.components(r));
                if !ch.is_empty() {
                    out.c04.push(format!("a message refused with {e} changed {ch:?} of the receiver"));
                }
            }
            let gen_idx = stream[..=mi].iter().filter(|x| x.0 == stream[mi].0).count() as u64 - 1;
            match (&res, o) {
                (Res::Ok, Some(ReceivedMessage::ApplicationMessage(a))) => {
                    if !accepted.insert(mi) {
                        out.fails.push(format!("receiver {r} accepted message {mi} twice"));
                    }
                    if a.sender_index as usize != stream[mi].0 || a.data() != [gen_idx as u8, stream[mi].0 as u8] {
                        out.fails.push(format!("receiver {r}: wrong sender/payload for message {mi}"));
                    }
                }
                (Res::Err(e), _) => {
                    if big_gap {
                        // exact window: with the ratchet at generation 0, generation g is accepted iff g <= 1024
                        let ratchet_at = 0u64;
                        if gen_idx <= ratchet_at + 1024 && accepted.is_empty() {
                            out.fails.push(format!("receiver {r} refused generation {gen_idx} inside the window: {e}"));
                        }
                        out.cover.insert(format!("gap:{e}"));
                    } else {
                        out.fails.push(format!("receiver {r} refused in-window message {mi} (sender generation {gen_idx}): {e}"));
                    }
                }
                (Res::Panic(p), _) => out.fails.push(format!("panic on delivery: {p}")),
                _ => out.fails.push(format!("receiver {r}: unexpected result for message {mi}")),
            }
            if big_gap && gen_idx > 1024 && accepted.contains(&mi) {
                out.fails.push(format!("receiver {r} accepted generation {gen_idx}, more than 1024 ahead of its ratchet"));
            }
            // replay
            if rng.chance(1, 4) || (big_gap && accepted.contains(&mi) && gen_idx % 200 == 0) {
                let m = stream[mi].1.clone();
                let (res2, _) = w.with_group(r, |g| g.process_incoming_message(m));
                delivered += 1;
                if res2.ok() && accepted.contains(&mi) {
                    out.fails.push(format!("receiver {r} accepted a replay of message {mi}"));
                }
                out.cover.insert(format!("replay:{}", res2.s()));
            }
            if big_gap && pos > 12 && pos < order.len() - 3 {
                // skip the middle of the long stream after the boundary has been probed
                pos = order.len() - 3;
            }
        }
        out.deliveries += delivered;
        if !big_gap && accepted.len() != order.len() {
            out.fails.push(format!("receiver {r} accepted {} of {} in-window messages", accepted.len(), order.len()));
        }
        out.cover.insert(format!("members={n}:enc_ctl={}", enc_ctl as u8));
    }
    if out.samples.len() < 4 {
        out.samples.push(format!("members={n} enc_ctl={} msgs={} big_gap={}", enc_ctl as u8, stream.len(), big_gap as u8));
    }
    for m in &w.members {
        if let Some(p) = &m.h.sqlite_path {
            let _ = std::fs::remove_file(p);
        }
    }
}

pub fn run(o: &Opts) -> i32 {
    crate::util::quiet_panics();
    let dir = o.str("out", "/verif/work/c05");
    let mut rng = Rng::new(o.seed());
    // (1) ratchet scripts for the Lean model
    let mut qa = QA::create(&dir, "c05");
    let cs = RustCryptoProvider::default().cipher_suite_provider(CipherSuite::from(1u16)).unwrap();
    let scripts = o.u64("scripts", if o.thorough() { 4000 } else { 150 });
    for i in 0..scripts {
        secret_tree_script(&cs, 1, &mut rng, &mut qa, 60, i % 3 == 0);
    }
    let rows = qa.finish();
    // (2) real groups
    let scen = o.u64("scenarios", if o.thorough() { 600 } else { 40 });
    let gaps = o.u64("gaps", if o.thorough() { 6 } else { 1 });
    let mut out = Out { fails: vec![], c04: vec![], msgs: 0, deliveries: 0, seals: 0, cover: Default::default(), samples: vec![] };
    let log: SharedCryptoLog = Default::default();
    let mk = |s: &Setup, hd: &Handles, id, sk| mk_client(s, hd, id, sk);
    for i in 0..scen + gaps {
        let mut r = rng.fork();
        scenario(&mut r, log.clone(), &mk, &mut out, i >= scen);
    }
    let _ = std::fs::remove_dir_all("/tmp/vharness-scratch-c05");
    println!("rows {rows}");
    println!("scenarios {}", scen + gaps);
    println!("messages {}", out.msgs);
    println!("deliveries {}", out.deliveries);
    println!("aead_seals {}", out.seals);
    println!("cover {}", out.cover.iter().cloned().collect::<Vec<_>>().join(","));
    println!("other_property_failures {}", out.c04.len());
    if let Some(x) = out.c04.first() {
        println!("c04_sample {x}");
    }
    println!("oracle_failures {}", if o.str("focus", "") == "C04" { out.c04.len() } else { out.fails.len() });
    // `--focus C04`: this run is part of the C04 check (state changes by refused messages); otherwise of C05 / C13
    let c04_focus = o.str("focus", "") == "C04";
    if c04_focus {
        std::fs::write(format!("{dir}/c05.failures"), out.c04.iter().take(100).map(|f| format!("C04: {f}")).collect::<Vec<_>>().join("\n")).unwrap();
    } else {
        std::fs::write(format!("{dir}/c05.failures"), out.fails.iter().take(100).cloned().collect::<Vec<_>>().join("\n")).unwrap();
    }
    std::fs::write(format!("{dir}/c05.samples"), out.samples.join("\n")).unwrap();
    0
}
