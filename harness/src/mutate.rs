//! C03 / C04: mutated, replayed, re-attributed and insider-crafted traffic delivered to real receivers.
//! Every variant is processed by a clone of the receiver: acceptance of anything that is not bit-for-bit
//! genuine, and panics, are C03 failures; a change of the receiver's state on a rejected message, a
//! genuine message refused afterwards, or a follow-up message of the receiver refused by its peers are C04
//! failures.
use crate::c15::{new_client, Mk};
use crate::util::{Opts, Rng};
use crate::world::*;
use mls_rs::client_builder::MlsConfig;
use mls_rs::group::ReceivedMessage;
use mls_rs::verif::insider::InsiderEdit;
use mls_rs::{Group, MlsMessage};
use std::collections::{BTreeMap, BTreeSet};

thread_local! {
    /// every genuine message of the current scenario, so that a variant equal to one of them is not counted
    static GENUINE: std::cell::RefCell<Vec<Vec<u8>>> = const { std::cell::RefCell::new(Vec::new()) };
}

pub struct Out {
    pub fails: Vec<(String, String)>, // (property, what)
    pub variants: u64,
    pub rejected: u64,
    pub by_kind: BTreeMap<String, u64>,
    pub err_kinds: BTreeMap<String, u64>,
    pub cover: BTreeSet<String>,
    pub samples: Vec<String>,
    /// correspondence rows (query, implementation answer) for the model driver (mode `small`)
    pub rows: Vec<(String, String)>,
}

impl Out {
    fn fail(&mut self, p: &str, w: String) {
        if w.starts_with("[F8]") {
            *self.by_kind.entry("reproduced-F8".into()).or_default() += 1;
            if self.fails.iter().filter(|(_, x)| x.starts_with("[F8]")).count() >= 4 {
                return;
            }
        }
        if self.fails.len() < 400 {
            self.fails.push((p.into(), w));
        }
    }
}

fn comps<C: MlsConfig>(g: &Group<C>) -> Vec<(String, Vec<u8>)> {
    g.verif_components().into_iter().filter(|(k, _)| k != "repo_pending_updates").collect()
}

/// Deliver `variant` (bytes) to a clone of `recv`; then the genuine message; check everything.
#[allow(clippy::too_many_arguments)]
fn try_variant<C: MlsConfig>(
    recv: &Group<C>,
    rname: &str,
    genuine: &MlsMessage,
    genuine_bytes: &[u8],
    variant: &[u8],
    label: &str,
    expect_genuine_ok: bool,
    peer: Option<&Group<C>>,
    out: &mut Out,
) {
    out.variants += 1;
    *out.by_kind.entry(label.split(':').next().unwrap_or(label).to_string()).or_default() += 1;
    if variant == genuine_bytes || GENUINE.with(|g| g.borrow().iter().any(|b| b == variant)) {
        // the mutation reproduced a genuine message (e.g. a splice of two messages with a common prefix)
        return;
    }
    let parsed = std::panic::catch_unwind(|| MlsMessage::from_bytes(variant));
    let msg = match parsed {
        Err(_) => {
            out.fail("C03", format!("MlsMessage::from_bytes panics on {label}"));
            return;
        }
        Ok(Err(_)) => {
            out.rejected += 1;
            *out.err_kinds.entry("decode".into()).or_default() += 1;
            return;
        }
        Ok(Ok(m)) => m,
    };
    // a variant that re-encodes to the genuine bytes is the genuine message (non-canonical encoding) -- none expected
    let mut g = recv.clone();
    let before = comps(&g);
    let r = std::panic::catch_unwind(std::panic::AssertUnwindSafe(|| g.process_incoming_message(msg)));
    let rej_class: Option<String> = match &r {
        Ok(Err(e)) => Some(err_class(e)),
        _ => None,
    };
    match r {
        Err(_) => {
            out.fail("C03", format!("{rname} panics while processing {label}"));
            return;
        }
        Ok(Ok(res)) => {
            let same = matches!(MlsMessage::from_bytes(variant).ok().and_then(|m| m.to_bytes().ok()), Some(b) if b == genuine_bytes);
            if !same {
                out.fail("C03", format!("{rname} accepted {label} ({})", received_summary(&res)));
            }
            return;
        }
        Ok(Err(e)) => {
            out.rejected += 1;
            *out.err_kinds.entry(err_class(&e)).or_default() += 1;
            if label.starts_with("insider") {
                *out.err_kinds.entry(format!("{label}:{}", err_class(&e))).or_default() += 1;
                // The hook re-signs and re-MACs but keeps the old confirmation tag, which a real insider (who knows the commit
                // secret) can recompute as well: a structurally invalid commit that is stopped only by the confirmation tag has
                // passed every structural check.  (Dropped ciphertexts of other receivers are undetectable by design.)
                // The same holds for the HPKE decryption of the path secret (its context covers the tree hash, which the
                // insider knows): `CryptoProviderError` after the structural checks is not a structural rejection either.
                let late = ["InvalidConfirmationTag", "CryptoProviderError"].contains(&err_class(&e).as_str());
                if late && !label.contains("stale-confirmation-tag") && !label.contains("drop-ciphertexts") {
                    out.fail("C03", format!("{rname}: {label} passed every structural check and was stopped only later ({})", err_class(&e)));
                }
            }
        }
    }
    let after = comps(&g);
    let ch = World::<C>::changed(&before, &after);
    if !ch.is_empty() {
        // known finding F8: the ciphertext is corrupted behind the sender-data sample, the generation's key is taken out of the
        // ratchet and the AEAD open then fails; any other rejection of a private message that changes the secret tree is new
        let f8 = ch == ["secret_tree"] && is_private(variant) && rej_class.as_deref() == Some("CryptoProviderError");
        out.fail("C04", format!("{}{rname} rejected {label} ({}) but its state changed in {ch:?}", if f8 { "[F8] " } else { "" }, rej_class.clone().unwrap_or_default()));
    }
    if expect_genuine_ok {
        let r2 = std::panic::catch_unwind(std::panic::AssertUnwindSafe(|| g.process_incoming_message(genuine.clone())));
        match r2 {
            Ok(Ok(_)) => {
                // what the member sends afterwards is still accepted by a peer that also processed the genuine message
                if let Some(p) = peer {
                    let mut p = p.clone();
                    if p.process_incoming_message(genuine.clone()).is_ok() {
                        if let Ok(m) = g.encrypt_application_message(b"after", vec![]) {
                            if p.process_incoming_message(m).is_err() {
                                out.fail("C04", format!("after rejecting {label} and accepting the genuine message, {rname}'s next message is refused by its peer"));
                            }
                        }
                    }
                }
            }
            Ok(Err(e)) => {
                let f8 = ch == ["secret_tree"] && is_private(variant) && rej_class.as_deref() == Some("CryptoProviderError") && err_class(&e) == "KeyMissing";
                out.fail("C04", format!("{}after rejecting {label}, {rname} refuses the genuine message: {}", if f8 { "[F8] " } else { "" }, err_class(&e)))
            }
            Err(_) => out.fail("C03", format!("{rname} panics on the genuine message after {label}")),
        }
    }
}

/// wire format PrivateMessage (MlsMessage: version u16, wire_format u16 = 2)
fn is_private(b: &[u8]) -> bool {
    b.len() > 4 && b[2] == 0 && b[3] == 2
}

fn byte_variants(rng: &mut Rng, b: &[u8], flips: u64, truncs: u64, exhaustive: bool) -> Vec<(String, Vec<u8>)> {
    let mut v = vec![];
    let nbits = b.len() as u64 * 8;
    if exhaustive {
        for bit in 0..nbits {
            let mut x = b.to_vec();
            x[(bit / 8) as usize] ^= 1 << (bit % 8);
            v.push((format!("flip:bit{bit}"), x));
        }
        for t in 0..b.len() {
            v.push((format!("trunc:{t}"), b[..t].to_vec()));
        }
    } else {
        for _ in 0..flips {
            let bit = rng.below(nbits);
            let mut x = b.to_vec();
            x[(bit / 8) as usize] ^= 1 << (bit % 8);
            v.push((format!("flip:bit{bit}"), x));
        }
        for _ in 0..truncs {
            let t = rng.below(b.len() as u64) as usize;
            v.push((format!("trunc:{t}"), b[..t].to_vec()));
        }
    }
    // appended garbage
    let mut x = b.to_vec();
    x.push(0);
    v.push(("append:1".into(), x));
    v
}

fn splices(rng: &mut Rng, a: &[u8], b: &[u8], n: u64) -> Vec<(String, Vec<u8>)> {
    let mut v = vec![];
    for _ in 0..n {
        let i = rng.below(a.len().min(b.len()) as u64) as usize;
        let mut x = a[..i].to_vec();
        x.extend_from_slice(&b[i..]);
        v.push((format!("splice:{i}"), x));
        let j = rng.below(a.len() as u64) as usize;
        let k = rng.below(b.len() as u64) as usize;
        let mut y = a[..j].to_vec();
        y.extend_from_slice(&b[k..]);
        v.push((format!("splice2:{j}:{k}"), y));
    }
    v
}

struct Sc<C: MlsConfig> {
    w: World<C>,
}

fn setup<C: MlsConfig>(rng: &mut Rng, mk: Mk<C>, n: usize, enc_ctl: bool) -> Result<Sc<C>, String> {
    let mut w: World<C> = new_world(Default::default(), &crate::util::scratch("mut"));
    let pid = rng.bytes(8);
    w.psks.insert(pid, rng.bytes(32));
    for i in 0..n {
        let name = ((b'A' + i as u8) as char).to_string();
        let idx = new_client(&mut w, mk, &name, false, 3);
        w.members[idx].setup.enc_ctl = enc_ctl;
    }
    // clients were built with the default setup; rebuild with enc_ctl if needed
    if enc_ctl {
        for i in 0..n {
            let mut s = w.members[i].setup.clone();
            s.enc_ctl = true;
            let (id, sk) = make_identity(&s.name, s.suite);
            let h = w.members[i].h.clone();
            w.members[i].client = mk(&s, &h, id, sk);
        }
    }
    let g = w.members[0].client.create_group(Default::default(), Default::default(), None).map_err(|e| format!("{e:?}"))?;
    w.members[0].group = Some(g);
    let kps: Vec<MlsMessage> = (1..n).map(|i| w.members[i].client.generate_key_package_message(Default::default(), Default::default(), None).unwrap()).collect();
    let (r, o) = w.with_group(0, |g| {
        let mut b = g.commit_builder();
        for kp in kps {
            b = b.add_member(kp)?;
        }
        b.build()
    });
    let o = o.ok_or(format!("setup {}", r.s()))?;
    w.with_group(0, |g| g.apply_pending_commit());
    for i in 1..n {
        for wm in &o.welcome_messages {
            if let Ok((g, _)) = w.members[i].client.join_group(None, wm, None) {
                w.members[i].group = Some(g);
                break;
            }
        }
        if w.members[i].group.is_none() {
            return Err("join".into());
        }
    }
    Ok(Sc { w })
}

/// everyone (except `skip`) processes `m`
fn all_process<C: MlsConfig>(w: &mut World<C>, m: &MlsMessage, from: usize, skip: &[usize]) {
    for i in 0..w.members.len() {
        if i != from && !skip.contains(&i) && w.members[i].group.is_some() {
            let mm = m.clone();
            w.with_group(i, |g| g.process_incoming_message(mm));
        }
    }
}


/// Insider with consistent hashes: member `ai` builds an empty commit, re-issues it with an update path that is too short
/// (the leaf's parent hash recomputed for the short path, everything re-signed) or too long; every other member must
/// reject it without panicking.  Each delivery is also a row for the model of `validate_update_path`'s un-filtering loop.
fn short_path_variants<C: MlsConfig>(w: &World<C>, ai: usize, out: &mut Out) {
    let mut a0 = w.group(ai).clone();
    let Ok(o0) = a0.commit(vec![]) else { return };
    let cm0 = o0.commit_message;
    let cb0 = cm0.to_bytes().unwrap();
    let sender_leaf = a0.current_member_index();
    let mut edits: Vec<(String, InsiderEdit, i64)> =
        (0..5usize).map(|k| (format!("insider-consistent-short-path{k}"), InsiderEdit::TruncatePathConsistent(k), k as i64)).collect();
    edits.push(("insider-long-path".into(), InsiderEdit::ExtendPath, -1));
    // a key of the tree re-used inside a path that is otherwise consistent (parent hashes recomputed for the edited path, leaf
    // re-signed): another member's leaf key, or the key of path node 1 again at node 0 (RFC 9420 12.4.2: no public key of the
    // UpdatePath may appear in any node of the new ratchet tree)
    let other_leaf_key: Option<Vec<u8>> = {
        let t = a0.export_tree();
        (0..t.nodes().len()).step_by(2).filter(|i| *i != 2 * sender_leaf as usize).find_map(|i| t.nodes()[i].as_ref().map(|n| n.public_key().to_vec()))
    };
    let mut ph_edits: Vec<(String, InsiderEdit)> = vec![];
    if let Some(k) = other_leaf_key {
        ph_edits.push(("insider-path-leaf-key0-consistent".into(), InsiderEdit::SetPathKeyConsistent(0, k.clone())));
        ph_edits.push(("insider-path-leaf-key1-consistent".into(), InsiderEdit::SetPathKeyConsistent(1, k)));
    }
    ph_edits.extend(vec![
        ("insider-parent-hash-empty".into(), InsiderEdit::SetLeafParentHash(Some(vec![]), 0)),
        ("insider-parent-hash-prefix1".into(), InsiderEdit::SetLeafParentHash(None, 1)),
        ("insider-parent-hash-prefix31".into(), InsiderEdit::SetLeafParentHash(None, 31)),
    ]);
    for (label, edit) in ph_edits {
        let Ok(m2) = a0.verif_resign_commit(&cm0, &edit) else { continue };
        let b2 = m2.to_bytes().unwrap();
        if b2 == cb0 {
            continue;
        }
        for ri in 0..w.members.len() {
            if ri == ai || w.members[ri].group.is_none() {
                continue;
            }
            let r = w.group(ri).clone();
            try_variant(&r, &format!("member{ri}"), &cm0, &cb0, &b2, &label, true, None, out);
        }
    }
    for (label, edit, keep) in edits {
        let Ok(m2) = a0.verif_resign_commit(&cm0, &edit) else { continue };
        let b2 = m2.to_bytes().unwrap();
        for ri in 0..w.members.len() {
            if ri == ai || w.members[ri].group.is_none() {
                continue;
            }
            let r = w.group(ri).clone();
            if let Ok(bits) = r.verif_filtered_direct_path(sender_leaf) {
                let full = bits.iter().filter(|b| !**b).count() as i64;
                let sent = if keep < 0 { full + 1 } else { keep.min(full) };
                let mut g = r.clone();
                let res = std::panic::catch_unwind(std::panic::AssertUnwindSafe(|| g.process_incoming_message(m2.clone())));
                let ans = match res {
                    Ok(Err(e)) if err_class(&e) == "WrongPathLen" => "err",
                    Ok(_) => "ok",
                    Err(_) => "panic",
                };
                let bs: String = bits.iter().map(|b| if *b { '1' } else { '0' }).collect();
                out.rows.push((format!("unfilter {} {sent}", if bs.is_empty() { "-".to_string() } else { bs }), ans.to_string()));
            }
            if b2 != cb0 {
                try_variant(&r, &format!("member{ri}"), &cm0, &cb0, &b2, &label, true, None, out);
            }
        }
    }
}

/// Trees with blank subtrees (filtered direct-path nodes): a larger group, some members removed, parents repopulated by
/// empty commits of two members, then the insider variants of every remaining member.
/// Forged ratchet trees: member `a` signs a GroupInfo for an EDITED copy of its tree (tree hash in the context recomputed, so
/// tree and GroupInfo match); an observer and an external joiner, who have nothing but tree validation to go by, must refuse
/// every edit and accept the genuine one.
fn forged_tree_cases<C: MlsConfig>(a: &Group<C>, joiner: &mls_rs::Client<C>, out: &mut Out) {
    use mls_rs::external_client::ExternalClient;
    use mls_rs::identity::basic::BasicIdentityProvider;
    use mls_rs::verif::insider::TreeEdit;
    let edits: Vec<(&str, TreeEdit)> = vec![
        ("genuine", TreeEdit::Nothing),
        ("duplicate-unmerged", TreeEdit::DuplicateUnmerged),
        ("unsorted-unmerged", TreeEdit::UnsortedUnmerged),
        ("unmerged-blank-leaf", TreeEdit::UnmergedBlankLeaf),
        ("unmerged-outside-subtree", TreeEdit::UnmergedOutsideSubtree),
        ("unmerged-not-inherited", TreeEdit::UnmergedNotInherited),
        ("trailing-blanks", TreeEdit::TrailingBlanks),
        ("last-leaf-blank", TreeEdit::LastLeafBlank),
        ("parent-key-is-leaf-key", TreeEdit::ParentKeyIsLeafKey),
        ("duplicate-leaf", TreeEdit::DuplicateLeaf),
        ("swap-leaves", TreeEdit::SwapLeaves),
        ("blank-parent", TreeEdit::BlankParent),
        ("parent-hash-changed", TreeEdit::ParentHashChanged),
    ];
    for (label, e) in edits {
        for in_ext in [true, false] {
            let Ok(Some((gi, tree_bytes))) = a.verif_group_info_for_edited_tree(&e, in_ext) else {
                out.cover.insert(format!("forged-tree:{label}:not-applicable"));
                continue;
            };
            let tree_of = |b: &[u8]| mls_rs::group::ExportedTree::from_bytes(b).ok();
            // observer
            out.variants += 1;
            *out.by_kind.entry(format!("forged-tree-{label}")).or_default() += 1;
            let obs = ExternalClient::builder().crypto_provider(mls_rs_crypto_rustcrypto::RustCryptoProvider::default()).identity_provider(BasicIdentityProvider).build();
            let t1 = if in_ext { None } else { tree_of(&tree_bytes) };
            if !in_ext && t1.is_none() {
                out.cover.insert(format!("forged-tree:{label}:tree-does-not-decode"));
                continue;
            }
            let r = std::panic::catch_unwind(std::panic::AssertUnwindSafe(|| obs.observe_group(gi.clone(), t1, None)));
            match (r, label) {
                (Err(_), _) => out.fail("C03", format!("observe_group panics on a GroupInfo with tree edit {label}")),
                (Ok(Ok(_)), "genuine") => {}
                // (a tree with one more blank parent can be a VALID tree — RFC 9420 7.9.2 only asks every non-blank parent to have a
            // matching child — that the signer vouches for: nothing to refuse; counted, not judged)
            (Ok(Ok(_)), "blank-parent") => {
                out.cover.insert("forged-tree:blank-parent:accepted-as-valid-tree".into());
            }
            (Ok(Ok(_)), _) => out.fail("C03", format!("an observer accepted a member-signed GroupInfo whose ratchet tree has the edit {label} (tree {})", if in_ext { "in the extension" } else { "out of band" })),
                (Ok(Err(e)), "genuine") => out.fail("C03", format!("an observer rejected the genuine GroupInfo built by the hook: {}", err_class(&e))),
                (Ok(Err(e)), _) => {
                    out.rejected += 1;
                    *out.err_kinds.entry(format!("forged-tree-{label}:{}", err_class(&e))).or_default() += 1;
                }
            }
            // external joiner
            out.variants += 1;
            let t2 = if in_ext { None } else { tree_of(&tree_bytes) };
            let r = std::panic::catch_unwind(std::panic::AssertUnwindSafe(|| {
                let b = joiner.external_commit_builder()?;
                let b = match t2 {
                    Some(t) => b.with_tree_data(t),
                    None => b,
                };
                b.build(gi.clone())
            }));
            match (r, label) {
                (Err(_), _) => out.fail("C03", format!("external commit builder panics on a GroupInfo with tree edit {label}")),
                (Ok(Ok(_)), "genuine") => {}
                (Ok(Ok(_)), "blank-parent") => {}
            (Ok(Ok(_)), _) => out.fail("C03", format!("an external joiner accepted a member-signed GroupInfo whose ratchet tree has the edit {label} (tree {})", if in_ext { "in the extension" } else { "out of band" })),
                (Ok(Err(e)), "genuine") => out.fail("C03", format!("an external joiner rejected the genuine GroupInfo built by the hook: {}", err_class(&e))),
                (Ok(Err(e)), _) => {
                    out.rejected += 1;
                    *out.err_kinds.entry(format!("forged-tree-{label}:{}", err_class(&e))).or_default() += 1;
                }
            }
        }
    }
    out.cover.insert("forged-tree".into());
}

fn sparse_tree_scenario<C: MlsConfig>(rng: &mut Rng, mk: Mk<C>, out: &mut Out) {
    let n = rng.range(5, 9) as usize;
    let Ok(Sc { mut w }) = setup(rng, mk, n, false) else { return };
    let mut alive: Vec<usize> = (0..n).collect();
    let removals = rng.range(1, (n as u64 - 2).min(4)) as usize;
    let mut victims = vec![];
    for _ in 0..removals {
        let v = *rng.pick(&alive[1..].to_vec());
        alive.retain(|x| *x != v);
        victims.push(v);
    }
    let leaves: Vec<u32> = victims.iter().map(|v| w.group(*v).current_member_index()).collect();
    let (_, o) = w.with_group(0, |g| {
        let mut b = g.commit_builder();
        for l in &leaves {
            b = b.remove_member(*l)?;
        }
        b.build()
    });
    let Some(o) = o else { return };
    w.with_group(0, |g| g.apply_pending_commit());
    all_process(&mut w, &o.commit_message, 0, &victims);
    for v in &victims {
        w.members[*v].group = None;
    }
    for c in alive.iter().copied().take(3).collect::<Vec<_>>() {
        if rng.chance(2, 3) {
            let (_, o) = w.with_group(c, |g| g.commit(vec![]));
            let Some(o) = o else { return };
            w.with_group(c, |g| g.apply_pending_commit());
            all_process(&mut w, &o.commit_message, c, &[]);
        }
    }
    out.cover.insert(format!("sparse:n={n}:removed={removals}"));
    for a in alive.iter().copied() {
        short_path_variants(&w, a, out);
    }
    // Add-only commits (no update path) leave the new leaves unmerged at their ancestors: trees with unmerged lists and, if a
    // removed leaf stays vacant, blanks — the forged-tree cases that need them apply here
    let adds = rng.range(1, 2) as usize;
    let mut kps = vec![];
    for k in 0..adds {
        let x = new_client(&mut w, mk, &format!("X{k}"), false, 3);
        if let Ok(kp) = w.members[x].client.generate_key_package_message(Default::default(), Default::default(), None) {
            kps.push(kp);
        }
    }
    let (_, o) = w.with_group(0, |g| {
        let mut b = g.commit_builder();
        for kp in kps {
            b = b.add_member(kp)?;
        }
        b.build()
    });
    if o.is_some() {
        w.with_group(0, |g| g.apply_pending_commit());
        let j = new_client(&mut w, mk, "J", false, 3);
        forged_tree_cases(w.group(0), &w.members[j].client, out);
    }
}

pub fn scenario<C: MlsConfig>(rng: &mut Rng, mk: Mk<C>, out: &mut Out, exhaustive: bool, flips: u64) {
    let n = rng.range(3, 5) as usize;
    let enc_ctl = rng.chance(1, 2);
    let Ok(Sc { mut w }) = setup(rng, mk, n, enc_ctl) else {
        out.fail("C03", "scenario setup failed".into());
        return;
    };
    out.cover.insert(format!("members={n}:enc_ctl={}", enc_ctl as u8));
    // an earlier epoch's messages, for cross-epoch replays
    let (_, old_app) = w.with_group(0, |g| g.encrypt_application_message(b"old", vec![]));
    let (_, old_prop) = w.with_group(2, |g| g.propose_update(vec![]));
    let (_, oc) = w.with_group(0, |g| g.commit(vec![]));
    let old_commit = oc.map(|o| o.commit_message);
    w.with_group(0, |g| g.apply_pending_commit());
    if let Some(c) = &old_commit {
        all_process(&mut w, c, 0, &[]);
    }
    if !enc_ctl {
        short_path_variants(&w, 0, out);
    }
    // another group for cross-group replays
    let mut other_rng = rng.fork();
    let other = setup(&mut other_rng, mk, 3, enc_ctl).ok();
    let foreign_commit = other.and_then(|mut o| o.w.with_group(0, |g| g.commit(vec![])).1.map(|c| c.commit_message));
    // ---- current-epoch genuine traffic from A; receiver B (index 1); peer C (index 2) ------------------------------
    let (_, prop) = w.with_group(0, |g| g.propose_update(vec![]));
    let (_, prop2) = w.with_group(2, |g| g.propose_remove(if n > 3 { 3 } else { 0 }, vec![]));
    let (_, app) = w.with_group(0, |g| g.encrypt_application_message(b"payload", b"aad".to_vec()));
    let (_, app2) = w.with_group(2, |g| g.encrypt_application_message(b"payload2", vec![]));
    let recv = w.group(1).clone();
    let peer = w.group(2).clone();
    let mut genuine: Vec<(&str, MlsMessage)> = vec![];
    if let Some(p) = prop.clone() {
        genuine.push(("proposal", p));
    }
    if let Some(a) = app.clone() {
        genuine.push(("application", a));
    }
    let all_bytes: Vec<Vec<u8>> = [&prop, &prop2, &app, &app2, &old_app, &old_prop, &old_commit, &foreign_commit]
        .iter()
        .filter_map(|m| m.as_ref().and_then(|m| m.to_bytes().ok()))
        .collect();
    GENUINE.with(|g| *g.borrow_mut() = all_bytes.clone());
    // the sender itself also receives the variants (an echo from the delivery service): it recognises its own messages by
    // their hash and must not take a modified copy for its own
    let sender_view = w.group(0).clone();
    for (kind, m) in &genuine {
        let gb = m.to_bytes().unwrap();
        for (label, v) in byte_variants(rng, &gb, flips, flips / 4, exhaustive) {
            try_variant(&recv, "B", m, &gb, &v, &format!("{kind}-{label}"), true, Some(&peer), out);
        }
        for (label, v) in byte_variants(rng, &gb, flips / 2, flips / 8, false) {
            // the genuine echo of an own proposal is accepted (cached own proposal); an own application message never is
            try_variant(&sender_view, "A(sender)", m, &gb, &v, &format!("echo-{kind}-{label}"), *kind == "proposal", None, out);
        }
        for other_b in all_bytes.iter().filter(|b| **b != gb).take(3) {
            for (label, v) in splices(rng, &gb, other_b, 6) {
                try_variant(&recv, "B", m, &gb, &v, &format!("{kind}-{label}"), true, Some(&peer), out);
            }
        }
    }
    // replays from another epoch / another group: must be rejected, state unchanged
    for (label, m) in [("replay-old-app", &old_app), ("replay-old-proposal", &old_prop), ("replay-old-commit", &old_commit), ("replay-foreign-group-commit", &foreign_commit)] {
        if let Some(m) = m {
            let b = m.to_bytes().unwrap();
            let mut g = recv.clone();
            let before = comps(&g);
            out.variants += 1;
            *out.by_kind.entry("replay".into()).or_default() += 1;
            match std::panic::catch_unwind(std::panic::AssertUnwindSafe(|| g.process_incoming_message(m.clone()))) {
                Err(_) => out.fail("C03", format!("B panics on {label}")),
                Ok(Ok(_)) => {
                    // a late application message of the previous epoch is legitimately readable once
                    if label != "replay-old-app" {
                        out.fail("C03", format!("B accepted {label}"));
                    }
                }
                Ok(Err(e)) => {
                    out.rejected += 1;
                    *out.err_kinds.entry(err_class(&e)).or_default() += 1;
                    let ch = World::<C>::changed(&before, &comps(&g));
                    if !ch.is_empty() {
                        out.fail("C04", format!("B rejected {label} ({}) but its state changed in {ch:?}", err_class(&e)));
                    }
                }
            }
            let _ = b;
        }
    }
    // ---- the commit: everyone has the proposals; A commits (path, add of a newcomer, PSK) ------------------------------
    if let Some(p) = &prop {
        all_process(&mut w, p, 0, &[]);
    }
    if let Some(p) = &prop2 {
        all_process(&mut w, p, 2, &[]);
    }
    let newcomer = new_client(&mut w, mk, "N", false, 3);
    let kp = w.members[newcomer].client.generate_key_package_message(Default::default(), Default::default(), None).unwrap();
    let pid: Vec<u8> = w.psks.keys().next().cloned().unwrap();
    let (r, o) = w.with_group(0, |g| g.commit_builder().add_member(kp)?.add_external_psk(ext_psk_id(&pid))?.build());
    let Some(o) = o else {
        out.fail("C03", format!("scenario commit failed: {}", r.s()));
        return;
    };
    let cm = o.commit_message.clone();
    let cb = cm.to_bytes().unwrap();
    let recv = w.group(1).clone();
    let peer = w.group(2).clone();
    for (label, v) in byte_variants(rng, &cb, flips * 2, flips / 2, exhaustive) {
        try_variant(&recv, "B", &cm, &cb, &v, &format!("commit-{label}"), true, Some(&peer), out);
    }
    {
        // echo to the committer, which holds the commit as pending: only the genuine bytes are its own commit
        let committer = w.group(0).clone();
        for (label, v) in byte_variants(rng, &cb, flips, flips / 4, false) {
            try_variant(&committer, "A(committer)", &cm, &cb, &v, &format!("echo-commit-{label}"), true, None, out);
        }
    }
    for other_b in all_bytes.iter().take(4) {
        for (label, v) in splices(rng, &cb, other_b, 6) {
            try_variant(&recv, "B", &cm, &cb, &v, &format!("commit-{label}"), true, Some(&peer), out);
        }
    }
    // a member lacking the PSK rejects the commit and stays unchanged (C04 / C18)
    {
        let lacking = w.members[2].h.psk.inner.clone();
        let saved = lacking.lock().unwrap().get(&ext_psk_id(&pid));
        lacking.lock().unwrap().delete(&ext_psk_id(&pid));
        let mut g = w.group(2).clone();
        let before = comps(&g);
        out.variants += 1;
        *out.by_kind.entry("missing-psk".into()).or_default() += 1;
        match std::panic::catch_unwind(std::panic::AssertUnwindSafe(|| g.process_incoming_message(cm.clone()))) {
            Ok(Err(e)) => {
                out.rejected += 1;
                *out.err_kinds.entry(err_class(&e)).or_default() += 1;
                let ch = World::<C>::changed(&before, &comps(&g));
                let f8b = ch == ["secret_tree"] && enc_ctl;
                if !ch.is_empty() {
                    out.fail("C04", format!("{}C lacks the PSK, rejects the commit ({}) but its state changed in {ch:?}", if f8b { "[F8b] " } else { "" }, err_class(&e)));
                }
                if let Some(v) = saved.clone() {
                    lacking.lock().unwrap().insert(ext_psk_id(&pid), v);
                }
                if let Err(e) = g.process_incoming_message(cm.clone()) {
                    let f8b = f8b && err_class(&e) == "KeyMissing";
                    out.fail("C04", format!("{}once the PSK is available C still refuses the genuine commit: {}", if f8b { "[F8b] " } else { "" }, err_class(&e)));
                }
            }
            Ok(Ok(_)) => out.fail("C18", "a member without the PSK accepted the commit".into()),
            Err(_) => out.fail("C03", "panic while processing a commit with a missing PSK".into()),
        }
        if let Some(v) = saved {
            lacking.lock().unwrap().insert(ext_psk_id(&pid), v);
        }
    }
    // ---- insider: A re-signs structurally invalid versions of its own commit (public handshake only) --------------------
    if !enc_ctl {
        let a = w.group(0).clone();
        let other_key = w.group(2).export_tree().nodes().iter().flatten().next().map(|n| n.public_key().to_vec()).unwrap_or_default();
        let fresh_key = {
            use mls_rs::{CipherSuite, CipherSuiteProvider, CryptoProvider};
            mls_rs_crypto_rustcrypto::RustCryptoProvider::default().cipher_suite_provider(CipherSuite::from(1u16)).unwrap().kem_generate().unwrap().1.to_vec()
        };
        // the current leaf key of another member (C): an authentic path leaf carrying it is not unique in the tree
        let c_leaf_key = {
            let t = w.group(2).export_tree();
            let idx = w.group(2).current_member_index() as usize;
            t.nodes().get(2 * idx).and_then(|n| n.as_ref()).map(|n| n.public_key().to_vec()).unwrap_or_default()
        };
        let edits: Vec<(&str, InsiderEdit)> = vec![
            ("insider-leaf-duplicate-key-resigned", InsiderEdit::SetLeafKeyResigned(c_leaf_key.clone())),
            ("insider-resign-only", InsiderEdit::Nothing),
            ("insider-path-empty", InsiderEdit::TruncatePath(0)),
            ("insider-path-short1", InsiderEdit::TruncatePath(1)),
            ("insider-path-empty-consistent", InsiderEdit::TruncatePathConsistent(0)),
            ("insider-path-short1-consistent", InsiderEdit::TruncatePathConsistent(1)),
            ("insider-parent-hash-empty", InsiderEdit::SetLeafParentHash(Some(vec![]), 0)),
            ("insider-parent-hash-prefix16", InsiderEdit::SetLeafParentHash(None, 16)),
            ("insider-parent-hash-prefix31", InsiderEdit::SetLeafParentHash(None, 31)),
            ("insider-parent-hash-other", InsiderEdit::SetLeafParentHash(Some(vec![0x5a; 32]), 0)),
            ("insider-path-long", InsiderEdit::ExtendPath),
            ("insider-path-foreign-key0", InsiderEdit::SetPathKey(0, other_key.clone())),
            ("insider-path-fresh-key0", InsiderEdit::SetPathKey(0, fresh_key.clone())),
            ("insider-path-fresh-key1", InsiderEdit::SetPathKey(1, fresh_key.clone())),
            ("insider-drop-ciphertexts0", InsiderEdit::DropCiphertexts(0)),
            ("insider-leaf-foreign-key", InsiderEdit::SetLeafKey(other_key)),
            ("insider-remove-path", InsiderEdit::RemovePath),
            ("insider-stale-confirmation-tag", InsiderEdit::SetConfirmationTag(vec![7u8; 32])),
        ];
        for (label, e) in edits {
            let Ok(m2) = a.verif_resign_commit(&cm, &e) else { continue };
            let b2 = m2.to_bytes().unwrap();
            for (ri, rname) in [(1usize, "B"), (2usize, "C")] {
                let r = w.group(ri).clone();
                if label == "insider-resign-only" {
                    // a genuine re-signed copy is acceptable; it must not panic
                    let mut g = r.clone();
                    out.variants += 1;
                    if std::panic::catch_unwind(std::panic::AssertUnwindSafe(|| g.process_incoming_message(m2.clone()))).is_err() {
                        out.fail("C03", format!("{rname} panics on {label}"));
                    }
                    continue;
                }
                try_variant(&r, rname, &cm, &cb, &b2, label, true, None, out);
            }
        }
        out.cover.insert("insider".into());
        // ---- a foreign key INSIDE a fully consistent commit: A builds a commit whose update path announces a fresh public key
        // (to which no path secret belongs) for the top node of its filtered path, resp. for its parent; parent hashes, tree
        // hash, HPKE context, tag and signatures are computed over it (hook set_encap_foreign_key).  Every receiver that derives
        // that node from its path secret must refuse (PubKeyMismatch); for the top node that is every receiver.
        {
            let own = a.current_member_index();
            let unfiltered = a.verif_filtered_direct_path(own).map(|b| b.iter().filter(|x| !**x).count()).unwrap_or(0);
            for (label, idx) in [("insider-foreign-key-at-path-top", unfiltered.saturating_sub(1)), ("insider-foreign-key-at-parent", 0usize)] {
                if unfiltered == 0 || (idx == 0 && label.ends_with("top") && unfiltered == 1 && false) {
                    continue;
                }
                let mut a2 = a.clone();
                a2.clear_pending_commit();
                mls_rs::verif::insider::set_encap_foreign_key(Some((idx, fresh_key.clone())));
                let built = a2.commit(vec![]);
                mls_rs::verif::insider::set_encap_foreign_key(None);
                let Ok(o2) = built else { continue };
                let b2 = o2.commit_message.to_bytes().unwrap();
                for (ri, rname) in [(1usize, "B"), (2usize, "C")] {
                    let r = w.group(ri).clone();
                    // does this receiver derive the edited node?  The top node: always.  The committer's parent: only its sibling leaf.
                    let derives = idx + 1 == unfiltered || r.current_member_index() == (own ^ 1);
                    if derives {
                        try_variant(&r, rname, &cm, &cb, &b2, label, true, None, out);
                    } else {
                        let mut g = r.clone();
                        if std::panic::catch_unwind(std::panic::AssertUnwindSafe(|| g.process_incoming_message(o2.commit_message.clone()))).is_err() {
                            out.fail("C03", format!("{rname} panics on {label}"));
                        }
                    }
                }
                out.cover.insert(label.to_string());
            }
        }
        // ---- re-attribution by an insider: A signs with its own key but names another member as the sender (fresh membership
        // tag); C signs A's commit / A's Update as its own.  Every receiver other than the named sender must refuse; the named
        // sender itself refuses a message "from itself".  (A Remove or Add re-signed by another member under its OWN name is a
        // legitimate proposal of that member and is not generated.)
        {
            let idx = |i: usize| w.group(i).current_member_index();
            let c = w.group(2).clone();
            let mut cases: Vec<(String, MlsMessage, &MlsMessage, Vec<u8>)> = vec![];
            for (who, target) in [("B", 1usize), ("C", 2usize)] {
                if let Ok(m) = a.verif_reattribute(&cm, idx(target)) {
                    cases.push((format!("insider-reattribute-commit-to-{who}"), m, &cm, cb.clone()));
                }
            }
            // (only a commit WITH an update path: its leaf node is signed for A's leaf index and cannot be C's.  A path-less
            // commit re-issued by C under its own name is simply a commit C may send itself — C can compute its confirmation tag —
            // and not a forgery)
            let has_path = c.clone().verif_commit_proposals(&cm).map(|(_, p)| p).unwrap_or(false);
            if has_path {
                if let Ok(m) = c.verif_reattribute(&cm, idx(2)) {
                    cases.push(("insider-reattribute-commit-taken-over-by-C".into(), m, &cm, cb.clone()));
                }
            }
            if let Some(p) = prop.as_ref() {
                let pb = p.to_bytes().unwrap_or_default();
                if let Ok(m) = a.verif_reattribute(p, idx(1)) {
                    cases.push(("insider-reattribute-update-to-B".into(), m, p, pb.clone()));
                }
                // (A's Update re-signed by C under C's own name is an authentic proposal of C with invalid content: the filter
                // drops it at commit time — property C10, not a forgery)
            }
            if let Some(p) = prop2.as_ref() {
                // C's Remove attributed to A, signed by C
                let pb = p.to_bytes().unwrap_or_default();
                if let Ok(m) = c.verif_reattribute(p, idx(0)) {
                    cases.push(("insider-reattribute-remove-to-A".into(), m, p, pb));
                }
            }
            for (label, m2, genuine, gb) in cases {
                let b2 = m2.to_bytes().unwrap();
                let is_commit = label.contains("-commit-");
                for (ri, rname) in [(0usize, "A"), (1usize, "B"), (2usize, "C")] {
                    let r = w.group(ri).clone();
                    // after the refused forgery B and C must still accept A's genuine commit
                    try_variant(&r, rname, genuine, &gb, &b2, &label, is_commit && ri != 0, None, out);
                }
            }
            out.cover.insert("insider-reattribute".into());
        }
    }
    forged_tree_cases(w.group(0), &w.members[newcomer].client, out);
    // ---- joiner side: Welcome, GroupInfo --------------------------------------------------------------------------------
    if let Some(wm) = o.welcome_messages.first() {
        let wb = wm.to_bytes().unwrap();
        let vars = byte_variants(rng, &wb, flips, flips / 4, false);
        for (label, v) in vars {
            out.variants += 1;
            *out.by_kind.entry("welcome".into()).or_default() += 1;
            let Ok(Ok(m)) = std::panic::catch_unwind(|| MlsMessage::from_bytes(&v)) else {
                out.rejected += 1;
                continue;
            };
            match std::panic::catch_unwind(std::panic::AssertUnwindSafe(|| w.members[newcomer].client.join_group(None, &m, None))) {
                Err(_) => out.fail("C03", format!("join_group panics on welcome-{label}")),
                Ok(Ok(_)) => {
                    if m.to_bytes().ok().as_deref() != Some(&wb[..]) {
                        out.fail("C03", format!("newcomer joined through welcome-{label}"));
                    }
                }
                Ok(Err(e)) => {
                    out.rejected += 1;
                    *out.err_kinds.entry(err_class(&e)).or_default() += 1;
                }
            }
        }
        // the genuine Welcome still works after all the failed attempts (key package not consumed)
        if w.members[newcomer].client.join_group(None, wm, None).is_err() {
            out.fail("C04", "after rejected Welcome variants the genuine Welcome no longer works".into());
        }
    }
    if out.samples.len() < 4 {
        out.samples.push(format!("members={n} enc_ctl={} commit_len={} variants so far={}", enc_ctl as u8, cb.len(), out.variants));
    }
    let _ = ReceivedMessage::Welcome;
}

pub fn run(o: &Opts, focus: &str) -> i32 {
    crate::util::quiet_panics();
    let stem = focus.to_lowercase();
    let dir = o.str("out", &format!("/verif/work/{stem}"));
    std::fs::create_dir_all(&dir).ok();
    let mut rng = Rng::new(o.seed());
    let mut out = Out { fails: vec![], variants: 0, rejected: 0, by_kind: Default::default(), err_kinds: Default::default(), cover: Default::default(), samples: vec![], rows: vec![] };
    let mk = |s: &Setup, hd: &Handles, id, sk| mk_client(s, hd, id, sk);
    let scen = o.u64("scenarios", if o.thorough() { 40 } else { 6 });
    let flips = o.u64("flips", if o.thorough() { 3000 } else { 400 });
    for i in 0..scen {
        let mut r = rng.fork();
        scenario(&mut r, &mk, &mut out, o.thorough() && i == 0, flips);
        if focus == "C03" {
            for _ in 0..3 {
                sparse_tree_scenario(&mut r, &mk, &mut out);
            }
        }
    }
    let rel: Vec<&(String, String)> = out.fails.iter().filter(|(p, _)| p == focus || (focus == "C04" && p == "C18")).collect();
    println!("cases {}", out.variants);
    println!("rejected {}", out.rejected);
    println!("kinds {}", out.by_kind.iter().map(|(k, v)| format!("{k}={v}")).collect::<Vec<_>>().join(","));
    println!("error_kinds {}", out.err_kinds.iter().map(|(k, v)| format!("{k}={v}")).collect::<Vec<_>>().join(","));
    println!("cover {}", out.cover.iter().cloned().collect::<Vec<_>>().join(";"));
    println!("other_property_failures {}", out.fails.len() - rel.len());
    println!("oracle_failures {}", rel.len());
    // (one failure per line, every line terminated: the fault sweep of the C04 check appends to this file)
    std::fs::write(format!("{dir}/{stem}.failures"), rel.iter().map(|(p, w)| format!("{p}: {w}\n")).collect::<String>()).unwrap();
    std::fs::write(format!("{dir}/{stem}.allfailures"), out.fails.iter().map(|(p, w)| format!("{p}: {w}")).collect::<Vec<_>>().join("\n")).unwrap();
    std::fs::write(format!("{dir}/{stem}.samples"), out.samples.join("\n")).unwrap();
    let mut qa = crate::util::QA::create(&dir, &stem);
    for (q, a) in &out.rows {
        qa.put(q, a);
    }
    println!("rows {}", qa.finish());
    let _ = std::fs::remove_dir_all(&crate::util::scratch("mut"));
    0
}
