//! C18: PSK commits.  A committer injects 1..4 external / resumption PSKs (by value and by reference); every other
//! member is assigned, per PSK, the right value, a different value, or nothing; resumption epochs are chosen
//! inside and outside each member's retention and before its join epoch.  Oracle: exactly the members holding
//! every referenced PSK with the committer's value reach the new epoch and agree with the committer; every other
//! member rejects and is unchanged; a joiner needs the PSKs for the Welcome.  Value level: changing value, id,
//! nonce or order of a PSK changes the PSK secret (`psk` rows for the Lean key-schedule model).
use crate::c15::{new_client, Mk};
use crate::util::{hex, Opts, Rng, QA};
use crate::world::*;
use mls_rs::client_builder::MlsConfig;
use mls_rs::{CipherSuite, CipherSuiteProvider, CryptoProvider, Group, MlsMessage};
use std::collections::BTreeSet;

struct Out {
    fails: Vec<String>,
    /// `eks` rows: epoch secrets of real PSK commits, recomputed by the model
    rows: Vec<(String, String)>,
    cases: u64,
    verdicts: u64,
    cover: BTreeSet<String>,
    samples: Vec<String>,
}

fn comps<C: MlsConfig>(g: &mls_rs::Group<C>) -> Vec<(String, Vec<u8>)> {
    g.verif_components().into_iter().filter(|(k, _)| k != "repo_pending_updates").collect()
}

/// `new_client` with the handshake-encryption switch: every message this member sends (proposals, commits) is a PrivateMessage.
fn new_member<C: MlsConfig>(w: &mut World<C>, mk: Mk<C>, name: &str, retention: usize, enc_ctl: bool) -> usize {
    let mut s = Setup::new(name);
    s.retention = retention;
    s.enc_ctl = enc_ctl;
    let h = handles(&s, &w.crypto_log, &w.scratch);
    let (id, sk) = make_identity(&s.name, s.suite);
    let client = mk(&s, &h, id, sk);
    w.members.push(Member { identity: s.name.as_bytes().to_vec(), setup: s, h, client, group: None, ghosts: vec![], wrote: false });
    w.members.len() - 1
}

/// one PSK of the commit: external (id) or resumption (past epoch of this group), carried by value (committer) or by reference (member 1)
#[derive(Clone, Debug)]
enum Psk {
    Ext { id: Vec<u8>, by_ref: bool },
    Res { epoch: u64, by_ref: bool },
}

fn auth<C: MlsConfig>(g: &Group<C>) -> Vec<u8> {
    g.epoch_authenticator().map(|s| s.as_bytes().to_vec()).unwrap_or_default()
}

fn scenario<C: MlsConfig>(rng: &mut Rng, mk: Mk<C>, out: &mut Out) {
    let mut w: World<C> = new_world(Default::default(), &crate::util::scratch("c18"));
    let n = rng.range(3, 5) as usize;
    // half of the cases with encrypted handshake messages (proposals and commits as PrivateMessage)
    let enc = rng.chance(1, 2);
    out.cover.insert(format!("enc_ctl={}", enc as u8));
    for i in 0..n + 1 {
        // small retention for some members so that a referenced resumption epoch may be gone
        let ret = *rng.pick(&[1usize, 2, 5]);
        new_member(&mut w, mk, &format!("m{i}"), ret, enc);
    }
    let g = w.members[0].client.create_group(Default::default(), Default::default(), None).unwrap();
    w.members[0].group = Some(g);
    let mut vals = crate::eks::PskValues::default();
    vals.note_epoch(w.group(0));
    // members 1..n-1 join now; member n-1 joins later (after some epochs), member n is the joiner of the PSK commit
    let early: Vec<usize> = (1..n - 1).collect();
    let add = |w: &mut World<C>, who: &[usize]| -> bool {
        let kps: Vec<MlsMessage> = who.iter().map(|&i| w.members[i].client.generate_key_package_message(Default::default(), Default::default(), None).unwrap()).collect();
        let (_, o) = w.with_group(0, |g| {
            let mut b = g.commit_builder();
            for kp in kps {
                b = b.add_member(kp)?;
            }
            b.build()
        });
        let Some(o) = o else { return false };
        w.with_group(0, |g| g.apply_pending_commit());
        for i in 1..w.members.len() {
            if w.members[i].group.is_some() {
                let m = o.commit_message.clone();
                w.with_group(i, |g| g.process_incoming_message(m));
            }
        }
        for &i in who {
            for wm in &o.welcome_messages {
                if let Ok((g, _)) = w.members[i].client.join_group(None, wm, None) {
                    w.members[i].group = Some(g);
                    break;
                }
            }
            if w.members[i].group.is_none() {
                return false;
            }
        }
        true
    };
    if !early.is_empty() && !add(&mut w, &early) {
        out.fails.push("setup".into());
        return;
    }
    vals.note_epoch(w.group(0));
    let advance = |w: &mut World<C>| {
        let (_, o) = w.with_group(0, |g| g.commit(vec![]));
        if let Some(o) = o {
            w.with_group(0, |g| g.apply_pending_commit());
            for i in 1..w.members.len() {
                if w.members[i].group.is_some() {
                    let m = o.commit_message.clone();
                    w.with_group(i, |g| g.process_incoming_message(m));
                }
            }
        }
    };
    // epoch at which each member last wrote its state (retention trimming happens at write)
    let mut last_write: Vec<Option<u64>> = vec![None; n + 1];
    for _ in 0..rng.range(1, 4) {
        advance(&mut w);
        vals.note_epoch(w.group(0));
        // some members persist (retention trimming happens at write)
        for i in 0..n {
            if w.members[i].group.is_some() && rng.chance(1, 2) {
                w.with_group(i, |g| g.write_to_storage());
                last_write[i] = Some(w.group(i).current_epoch());
            }
        }
    }
    let late_join_epoch = w.group(0).current_epoch() + 1;
    if !add(&mut w, &[n - 1]) {
        out.fails.push("setup late joiner".into());
        return;
    }
    vals.note_epoch(w.group(0));
    for _ in 0..rng.range(0, 3) {
        advance(&mut w);
        vals.note_epoch(w.group(0));
        for i in 0..n {
            if w.members[i].group.is_some() && rng.chance(1, 3) {
                w.with_group(i, |g| g.write_to_storage());
                last_write[i] = Some(w.group(i).current_epoch());
            }
        }
    }
    let epoch = w.group(0).current_epoch();
    for i in 0..n {
        if w.group(i).current_epoch() != epoch {
            out.fails.push(format!("setup: m{i} did not follow (enc_ctl {enc})"));
            return;
        }
    }
    // ---- the PSK set -----------------------------------------------------------------------------------------------
    let npsk = rng.range(1, 4) as usize;
    // holds[i][k]: 0 = right value, 1 = different value, 2 = missing, 9 = resumption   (member 0 = committer always right)
    let mut psks: Vec<Psk> = vec![];
    let mut holds: Vec<Vec<u8>> = vec![vec![]; n + 1];
    let mut n_ext = 0;
    for _ in 0..npsk {
        if rng.chance(2, 3) || epoch == 0 {
            let id = rng.bytes(6);
            let val = rng.bytes(32);
            vals.external.insert(id.clone(), val.clone());
            for i in 0..n + 1 {
                let h = if i == 0 { 0 } else { *rng.pick(&[0u8, 0, 0, 1, 2]) };
                holds[i].push(h);
                let store = w.members[i].h.psk.inner.clone();
                match h {
                    0 => store.lock().unwrap().insert(ext_psk_id(&id), psk_value(&val)),
                    1 => store.lock().unwrap().insert(ext_psk_id(&id), psk_value(&rng.bytes(32))),
                    _ => {}
                }
            }
            // by reference for every second external PSK (proposed by member 1), the rest by value
            psks.push(Psk::Ext { id, by_ref: n_ext % 2 == 1 });
            n_ext += 1;
        } else {
            let e = rng.below(epoch.max(1));
            // by reference (a non-committer proposes it) for half of the resumption PSKs
            psks.push(Psk::Res { epoch: e, by_ref: rng.chance(1, 2) });
            for i in 0..n + 1 {
                holds[i].push(9); // decided by retention / join epoch, computed below
            }
        }
    }
    let n_res = psks.iter().filter(|p| matches!(p, Psk::Res { .. })).count();
    out.cover.insert(format!("npsk={npsk}:res={}", n_res.min(2)));
    // a past epoch e is available to member i iff i was a member in e and either e was entered since i's last write (still pending)
    // or it is among the `retention` most recent prior epochs at that write
    let first_epoch = |i: usize| -> u64 { if i == 0 { 0 } else if i == n - 1 { late_join_epoch } else { 1 } };
    let available = |w: &World<C>, i: usize, e: u64| -> bool {
        let r = w.members[i].setup.retention as u64;
        e >= first_epoch(i) && e < epoch && last_write[i].map(|wr| e + r >= wr).unwrap_or(true)
    };
    // ---- by-reference proposals of member 1, delivered to everybody else ------------------------------------------------
    let mut by_ref_msgs = vec![];
    for p in psks.iter_mut() {
        match p {
            Psk::Ext { id, by_ref } if *by_ref => {
                let idc = id.clone();
                let (_, m) = w.with_group(1, |g| g.propose_external_psk(ext_psk_id(&idc), vec![]));
                match m {
                    Some(m) => by_ref_msgs.push(m),
                    None => *by_ref = false,
                }
            }
            Psk::Res { epoch: e, by_ref } if *by_ref => {
                // the proposer does not need the epoch itself: the proposal only names it
                let e = *e;
                let (r, m) = w.with_group(1, |g| g.propose_resumption_psk(e, vec![]));
                match m {
                    Some(m) => {
                        by_ref_msgs.push(m);
                        out.cover.insert(format!("res-by-ref:proposer-has-epoch={}", available(&w, 1, e) as u8));
                    }
                    None => {
                        out.fails.push(format!("m1 cannot propose the resumption PSK of epoch {e}: {}", r.s()));
                        *by_ref = false;
                    }
                }
            }
            _ => {}
        }
    }
    for m in &by_ref_msgs {
        for i in 0..n {
            if i != 1 && w.members[i].group.is_some() {
                let mm = m.clone();
                let (r, _) = w.with_group(i, |g| g.process_incoming_message(mm));
                if !r.ok() {
                    out.fails.push(format!("m{i} cannot cache a PSK proposal of m1: {} (enc_ctl {enc})", r.s()));
                }
            }
        }
    }
    // ---- the commit: by-value PSKs in a shuffled order --------------------------------------------------------------------
    let mut by_value: Vec<Psk> = psks.iter().filter(|p| matches!(p, Psk::Ext { by_ref: false, .. } | Psk::Res { by_ref: false, .. })).cloned().collect();
    for k in (1..by_value.len()).rev() {
        let j = rng.below(k as u64 + 1) as usize;
        by_value.swap(k, j);
    }
    if by_value.len() >= 2 {
        let kinds: Vec<&str> = by_value.iter().map(|p| if matches!(p, Psk::Ext { .. }) { "e" } else { "r" }).collect();
        out.cover.insert(format!("builder-order:{}", kinds.join("")));
    }
    let res_by_value: Vec<u64> = psks.iter().filter_map(|p| if let Psk::Res { epoch, by_ref: false } = p { Some(*epoch) } else { None }).collect();
    let res_by_ref: Vec<u64> = psks.iter().filter_map(|p| if let Psk::Res { epoch, by_ref: true } = p { Some(*epoch) } else { None }).collect();
    // a by-reference resumption PSK the committer cannot resolve is left out of the commit (and reported unused)
    let dropped: Vec<u64> = res_by_ref.iter().copied().filter(|e| !available(&w, 0, *e)).collect();
    let res_epochs: Vec<u64> = res_by_value.iter().copied().chain(res_by_ref.iter().copied().filter(|e| available(&w, 0, *e))).collect();
    let joiner = n;
    let kp = w.members[joiner].client.generate_key_package_message(Default::default(), Default::default(), None).unwrap();
    let with_join = rng.chance(1, 2);
    // a second committer (same state, nothing cached) for the joiner whose Welcome is unusable: is its key package still good?
    let mut alt: Option<Group<C>> = with_join.then(|| {
        let mut a = w.group(0).clone();
        a.clear_proposal_cache();
        a
    });
    let bv = by_value.clone();
    let kp2 = kp.clone();
    let before0 = comps(w.group(0));
    let eks_before = crate::eks::before(w.group(0));
    let eks_opener = w.group(1).clone();
    let (r, o) = w.with_group(0, |g| {
        let mut b = g.commit_builder();
        for p in &bv {
            b = match p {
                Psk::Ext { id, .. } => b.add_external_psk(ext_psk_id(id))?,
                Psk::Res { epoch, .. } => b.add_resumption_psk(*epoch)?,
            };
        }
        if with_join {
            b = b.add_member(kp2)?;
        }
        b.build()
    });
    out.cases += 1;
    let committer_has_all = res_by_value.iter().all(|e| available(&w, 0, *e));
    if o.is_some() != committer_has_all {
        out.fails.push(format!(
            "committer {} the PSK commit although it {} every past epoch it references by value (epochs {res_by_value:?}, by reference {res_by_ref:?}, now {epoch}, last write {:?}, retention {}): {}",
            if o.is_some() { "built" } else { "could not build" },
            if committer_has_all { "retains" } else { "does not retain" },
            last_write[0],
            w.members[0].setup.retention,
            r.s()
        ));
    }
    let Some(o) = o else {
        // the committer itself may no longer retain a referenced epoch: then building fails and nothing changed
        let ch = World::<C>::changed(&before0, &comps(w.group(0)));
        if !ch.is_empty() {
            out.fails.push(format!("failed PSK commit build ({}) changed the committer in {ch:?}", r.s()));
        }
        out.cover.insert(format!("build-fails:{}", r.s()));
        return;
    };
    // exactly the unresolvable by-reference resumption PSKs are reported unused
    let unused: Vec<&str> = o.unused_proposals.iter().map(|p| proposal_kind(&p.proposal)).collect();
    if unused.len() != dropped.len() || unused.iter().any(|k| *k != "psk") {
        out.fails.push(format!(
            "PSK commit reports {unused:?} unused; expected exactly the {} by-reference resumption PSKs of epochs {dropped:?} that the committer does not retain (now {epoch}, last write {:?}, retention {})",
            dropped.len(),
            last_write[0],
            w.members[0].setup.retention
        ));
    }
    if !res_by_ref.is_empty() {
        out.cover.insert(format!("res-by-ref:committed={}:dropped-unused={}", (res_by_ref.len() - dropped.len()).min(2), dropped.len().min(2)));
    }
    w.with_group(0, |g| g.apply_pending_commit());
    // the epoch the committer entered, recomputed by the model from the commit's PSK list (ids and nonces as sent, commit order)
    match crate::eks::row(&eks_before, &eks_opener, &o.commit_message, w.group(0), &vals) {
        crate::eks::Row::Row(q, a) => {
            out.cover.insert(format!("eks:psks={}:enc={}", q.split(' ').nth(7).unwrap_or("?"), enc as u8));
            out.rows.push((q, a));
        }
        crate::eks::Row::Skip(why) => {
            out.cover.insert(format!("eks-skip:{}", why.split(' ').take(4).collect::<Vec<_>>().join("-")));
        }
    }
    if let Some(r) = crate::eks::extpub_row(w.group(0)) {
        out.rows.push(r);
    }
    let auth0 = auth(w.group(0));
    for i in 1..n {
        if w.members[i].group.is_none() {
            continue;
        }
        // expectation: all external PSKs right; resumption epochs still retrievable by this member
        let ext_ok = (0..npsk).all(|k| holds[i][k] == 0 || holds[i][k] == 9);
        let before = comps(w.group(i));
        let m = o.commit_message.clone();
        let (r, _) = w.with_group(i, |g| g.process_incoming_message(m));
        out.verdicts += 1;
        let name = w.members[i].setup.name.clone();
        let res_ok = res_epochs.iter().all(|e| available(&w, i, *e));
        if r.ok() != (ext_ok && res_ok) {
            out.fails.push(format!(
                "{name} {} the PSK commit: external PSKs right = {ext_ok}, referenced epochs {res_epochs:?} all retained = {res_ok} (now {epoch}, first epoch {}, last write {:?}, retention {}, left out {dropped:?}, enc_ctl {enc}): {}",
                if r.ok() { "accepted" } else { "rejected" },
                first_epoch(i),
                last_write[i],
                w.members[i].setup.retention,
                r.s()
            ));
        }
        if r.ok() {
            if !ext_ok {
                out.fails.push(format!("{name} holds a different / no value for an external PSK but accepted the commit"));
            }
            if auth(w.group(i)) != auth0 {
                out.fails.push(format!("{name} accepted the PSK commit but disagrees with the committer"));
            }
            out.cover.insert("accept".into());
            if !dropped.is_empty() && dropped.iter().any(|e| !available(&w, i, *e)) {
                out.cover.insert("accept:lacks-only-a-left-out-epoch".into());
            }
        } else {
            let ch = World::<C>::changed(&before, &comps(w.group(i)));
            // an encrypted commit consumes its key when rejected after decryption: known finding F8b, not counted here
            let ch: Vec<String> = ch.into_iter().filter(|c| !(c == "secret_tree" && w.members[i].setup.enc_ctl)).collect();
            if !ch.is_empty() {
                out.fails.push(format!("{name} rejected the PSK commit ({}) but changed in {ch:?}", r.s()));
            }
            if ext_ok && res_epochs.is_empty() {
                out.fails.push(format!("{name} holds every PSK with the right value but rejected the commit: {}", r.s()));
            }
            if !res_epochs.is_empty() && ext_ok {
                // legitimate only if a referenced epoch is not available to this member
                let joined_at = if i == n - 1 { late_join_epoch } else { 1 };
                let all_after_join = res_epochs.iter().all(|e| *e >= joined_at);
                out.cover.insert(format!("res-reject:{}:after_join={}", r.s(), all_after_join as u8));
                if res_by_ref.iter().any(|e| available(&w, 0, *e) && !available(&w, i, *e)) {
                    out.cover.insert("res-by-ref:member-lacking-epoch-rejects".into());
                }
            } else {
                out.cover.insert(format!("reject:{}", r.s()));
            }
        }
    }
    if with_join {
        // the joiner needs every external PSK; a resumption PSK it can never have (it was in no past epoch)
        let ext_right = (0..npsk).all(|k| holds[joiner][k] == 0 || holds[joiner][k] == 9);
        let all_right = ext_right && res_epochs.is_empty();
        let kp_before = w.members[joiner].h.kp.inner.key_packages().len();
        let mut joined = false;
        let mut why = String::new();
        for wm in &o.welcome_messages {
            match w.members[joiner].client.join_group(None, wm, None) {
                Ok((g, _)) => {
                    if auth(&g) != auth0 {
                        out.fails.push("joiner joined through a PSK Welcome but disagrees with the committer".into());
                    }
                    if !all_right {
                        out.fails.push(format!(
                            "a joiner lacking a PSK could use the Welcome (external PSKs right = {ext_right}, resumption PSKs of epochs {res_epochs:?} in the commit)"
                        ));
                    }
                    joined = true;
                    break;
                }
                Err(e) => why = err_class(&e),
            }
        }
        if !joined && all_right {
            out.fails.push(format!("a joiner holding every PSK cannot use the Welcome: {why}"));
        }
        out.verdicts += 1;
        out.cover.insert(format!("joiner:{}", if joined { "in" } else { "out" }));
        if !joined && !all_right {
            out.cover.insert(format!("joiner-refuses:{}:{why}", if !res_epochs.is_empty() { "resumption-psk" } else { "external-psk" }));
            // the refused Welcome did not consume the key package: another commit (same epoch, no PSK) that adds the same
            // key package lets the joiner in
            if w.members[joiner].h.kp.inner.key_packages().len() != kp_before {
                out.fails.push("the refused PSK Welcome changed the joiner's key-package store".into());
            }
            if let Some(a) = alt.as_mut() {
                match a.commit_builder().add_member(kp.clone()).and_then(|b| b.build()) {
                    Ok(o2) => {
                        let _ = a.apply_pending_commit();
                        match o2.welcome_messages.first().map(|wm| w.members[joiner].client.join_group(None, wm, None)) {
                            Some(Ok((g, _))) => {
                                if auth(&g) != auth(a) {
                                    out.fails.push("the joiner used its key package after a refused PSK Welcome but disagrees with that committer".into());
                                }
                                out.cover.insert("joiner:key-package-usable-after-refused-welcome".into());
                            }
                            other => out.fails.push(format!(
                                "after refusing a PSK Welcome ({why}) the joiner cannot use the same key package with a Welcome that needs no PSK: {:?}",
                                other.map(|r| r.err().map(|e| err_class(&e)))
                            )),
                        }
                    }
                    Err(e) => out.fails.push(format!("the second committer cannot add the joiner: {}", err_class(&e))),
                }
            }
        }
    }
    if out.samples.len() < 6 {
        out.samples.push(format!("members={n} enc={enc} psks={psks:?} holds={holds:?} with_join={with_join} dropped={dropped:?}"));
    }
}

/// wire encoding of a PreSharedKey proposal with a chosen nonce (so that two commits can carry the very same proposals)
fn psk_proposal_bytes(ext_id: Option<&[u8]>, res: Option<(&[u8], u64)>, nonce: &[u8]) -> Vec<u8> {
    let mut b = vec![0u8, 4];
    if let Some(id) = ext_id {
        b.push(1);
        b.extend(crate::c12::varint(id.len() as u64));
        b.extend(id);
    } else if let Some((gid, e)) = res {
        b.extend([2u8, 1]);
        b.extend(crate::c12::varint(gid.len() as u64));
        b.extend(gid);
        b.extend(e.to_be_bytes());
    }
    b.extend(crate::c12::varint(nonce.len() as u64));
    b.extend(nonce);
    b
}

/// Direct oracles on real groups.  Clones of one committer build commits from the very same proposals (ids and nonces fixed):
///  * order: the same PSK set in two different orders gives two different epochs (authenticator, exported secret), every
///    holder follows either commit; the same order twice gives the same epoch (control, when the commit has no update path);
///  * value: the same PSK id committed while the store holds value 1 resp. value 2 gives two different epochs; a receiver
///    holding value 1 follows commit 1 and cannot process commit 2 (and stays unchanged), one holding value 2 the other way round.
fn direct<C: MlsConfig>(rng: &mut Rng, mk: Mk<C>, out: &mut Out) {
    use mls_rs::mls_rs_codec::MlsDecode;
    let mut w: World<C> = new_world(Default::default(), &crate::util::scratch("c18"));
    let enc = rng.chance(1, 2);
    for i in 0..3 {
        new_member(&mut w, mk, &format!("d{i}"), 5, enc);
    }
    let g = w.members[0].client.create_group(Default::default(), Default::default(), None).unwrap();
    w.members[0].group = Some(g);
    let kps: Vec<MlsMessage> = (1..3).map(|i| w.members[i].client.generate_key_package_message(Default::default(), Default::default(), None).unwrap()).collect();
    let (_, o) = w.with_group(0, |g| {
        let mut b = g.commit_builder();
        for kp in kps {
            b = b.add_member(kp)?;
        }
        b.build()
    });
    let Some(o) = o else {
        out.fails.push("direct: setup".into());
        return;
    };
    w.with_group(0, |g| g.apply_pending_commit());
    for i in 1..3 {
        match o.welcome_messages.iter().find_map(|wm| w.members[i].client.join_group(None, wm, None).ok()) {
            Some((g, _)) => w.members[i].group = Some(g),
            None => {
                out.fails.push("direct: setup join".into());
                return;
            }
        }
    }
    for _ in 0..rng.range(2, 4) {
        let (_, o) = w.with_group(0, |g| g.commit(vec![]));
        let Some(o) = o else { return };
        w.with_group(0, |g| g.apply_pending_commit());
        for i in 1..3 {
            let m = o.commit_message.clone();
            let (r, _) = w.with_group(i, |g| g.process_incoming_message(m));
            if !r.ok() {
                out.fails.push(format!("direct: setup epoch (enc_ctl {enc}): {}", r.s()));
                return;
            }
        }
    }
    let epoch = w.group(0).current_epoch();
    let gid = w.group(0).group_id().to_vec();
    let export = |g: &Group<C>| g.export_secret(b"c18", b"direct", 32).map(|s| s.as_bytes().to_vec()).unwrap_or_default();
    let proposal = |bytes: &[u8]| mls_rs::group::proposal::Proposal::mls_decode(&mut &bytes[..]).ok();
    // the committer builds from `props` on a clone and applies
    let commit_on_clone = |w: &World<C>, props: &[mls_rs::group::proposal::Proposal]| -> Result<(Group<C>, mls_rs::group::CommitOutput), String> {
        let mut g = w.group(0).clone();
        let o = g.commit_builder().raw_proposals(props.to_vec()).build().map_err(|e| err_class(&e))?;
        g.apply_pending_commit().map_err(|e| err_class(&e))?;
        Ok((g, o))
    };
    // receiver i processes `m` on a clone: (accepted?, error, group after, changed components when rejected)
    let receive = |w: &World<C>, i: usize, m: &MlsMessage| -> (bool, String, Group<C>, Vec<String>) {
        let mut g = w.group(i).clone();
        let before = comps(&g);
        let r = g.process_incoming_message(m.clone());
        let ch: Vec<String> = World::<C>::changed(&before, &comps(&g)).into_iter().filter(|c| !(c == "secret_tree" && enc)).collect();
        (r.is_ok(), r.err().map(|e| err_class(&e)).unwrap_or_default(), g, ch)
    };
    // ---- order -----------------------------------------------------------------------------------------------------------
    {
        let k = rng.range(2, 3) as usize;
        let mut props = vec![];
        let mut kinds = String::new();
        for _ in 0..k {
            let nonce = rng.bytes(32);
            let bytes = if rng.chance(1, 2) {
                let id = rng.bytes(5);
                let val = rng.bytes(32);
                for i in 0..3 {
                    w.members[i].h.psk.inner.lock().unwrap().insert(ext_psk_id(&id), psk_value(&val));
                }
                kinds.push('e');
                psk_proposal_bytes(Some(&id), None, &nonce)
            } else {
                // any epoch since the members joined (nobody wrote: all retained)
                let e = rng.range(1, epoch - 1);
                kinds.push('r');
                psk_proposal_bytes(None, Some((&gid, e)), &nonce)
            };
            match proposal(&bytes) {
                Some(p) => props.push(p),
                None => {
                    out.fails.push("direct: cannot build a PSK proposal".into());
                    return;
                }
            }
        }
        let mut other = props.clone();
        other.reverse();
        out.cases += 1;
        match (commit_on_clone(&w, &props), commit_on_clone(&w, &other), commit_on_clone(&w, &props)) {
            (Ok((ga, oa)), Ok((gb, ob)), Ok((gc, oc))) => {
                if auth(&ga) == auth(&gb) || export(&ga) == export(&gb) {
                    out.fails.push(format!("the same PSKs ({kinds}) committed in two different orders give the same epoch authenticator / exported secret"));
                }
                if !oa.contains_update_path && !oc.contains_update_path {
                    if auth(&ga) != auth(&gc) {
                        out.fails.push(format!("the same PSK proposals ({kinds}) committed twice in the same order (no update path) give different epochs"));
                    }
                    out.cover.insert("order:control-same-order-same-epoch".into());
                }
                for i in 1..3 {
                    for (gx, ox, which) in [(&ga, &oa, "first"), (&gb, &ob, "reversed")] {
                        let (ok, e, g, _) = receive(&w, i, &ox.commit_message);
                        out.verdicts += 1;
                        if !ok {
                            out.fails.push(format!("d{i} holds every PSK ({kinds}) but rejects the commit with the {which} order: {e} (enc_ctl {enc})"));
                        } else if auth(&g) != auth(gx) || export(&g) != export(gx) {
                            out.fails.push(format!("d{i} follows the commit with the {which} order but disagrees with its committer"));
                        }
                    }
                }
                out.cover.insert(format!("order:{kinds}:differs"));
            }
            (a, b, _) => out.fails.push(format!("direct order ({kinds}): the committer cannot build: {:?} {:?}", a.err(), b.err())),
        }
    }
    // ---- value -----------------------------------------------------------------------------------------------------------
    {
        let id = rng.bytes(7);
        let (v1, v2) = (rng.bytes(32), rng.bytes(32));
        let nonce = rng.bytes(32);
        let Some(p) = proposal(&psk_proposal_bytes(Some(&id), None, &nonce)) else { return };
        // d1 holds value 1, d2 holds value 2; the committer's store is swapped between the two builds
        w.members[1].h.psk.inner.lock().unwrap().insert(ext_psk_id(&id), psk_value(&v1));
        w.members[2].h.psk.inner.lock().unwrap().insert(ext_psk_id(&id), psk_value(&v2));
        w.members[0].h.psk.inner.lock().unwrap().insert(ext_psk_id(&id), psk_value(&v1));
        let a = commit_on_clone(&w, &[p.clone()]);
        w.members[0].h.psk.inner.lock().unwrap().insert(ext_psk_id(&id), psk_value(&v2));
        let b = commit_on_clone(&w, &[p.clone()]);
        w.members[0].h.psk.inner.lock().unwrap().insert(ext_psk_id(&id), psk_value(&v1));
        let c = commit_on_clone(&w, &[p.clone()]);
        out.cases += 1;
        match (a, b, c) {
            (Ok((ga, oa)), Ok((gb, ob)), Ok((gc, oc))) => {
                if auth(&ga) == auth(&gb) {
                    out.fails.push("the same PSK id committed with two different values gives the same epoch authenticator".into());
                }
                if export(&ga) == export(&gb) {
                    out.fails.push("the same PSK id committed with two different values gives the same exported secret".into());
                }
                let (ka, kb) = (ga.verif_key_schedule(), gb.verif_key_schedule());
                for (j, what) in ["init secret", "membership key", "exporter secret", "authentication secret", "external secret"].iter().enumerate() {
                    if ka[j] == kb[j] {
                        out.fails.push(format!("the same PSK id committed with two different values gives the same {what}"));
                    }
                }
                if !oa.contains_update_path && !oc.contains_update_path {
                    // control: everything but the value is equal, and the same value gives the same epoch
                    if auth(&ga) != auth(&gc) {
                        out.fails.push("the same PSK proposal committed twice with the same value (no update path) gives different epochs".into());
                    }
                    out.cover.insert("value:control-same-value-same-epoch".into());
                }
                // receivers: d1 (value 1) follows commit 1 only, d2 (value 2) follows commit 2 only
                for (i, good, bad, gx) in [(1usize, &oa, &ob, &ga), (2usize, &ob, &oa, &gb)] {
                    let (ok, e, g, _) = receive(&w, i, &good.commit_message);
                    out.verdicts += 1;
                    if !ok {
                        out.fails.push(format!("d{i} holds the committer's value but rejects the commit: {e} (enc_ctl {enc})"));
                    } else if auth(&g) != auth(gx) || export(&g) != export(gx) {
                        out.fails.push(format!("d{i} holds the committer's value, accepts, but disagrees with the committer"));
                    }
                    let (ok, e, _, ch) = receive(&w, i, &bad.commit_message);
                    out.verdicts += 1;
                    if ok {
                        out.fails.push(format!("d{i} holds another value of the PSK than the committer used but accepts the commit"));
                    } else {
                        if !ch.is_empty() {
                            out.fails.push(format!("d{i} rejected the commit made with another PSK value ({e}) but changed in {ch:?}"));
                        }
                        out.cover.insert(format!("value:other-value-rejected:{e}"));
                    }
                }
                out.cover.insert("value:differs".into());
            }
            (a, b, _) => out.fails.push(format!("direct value: the committer cannot build: {:?} {:?}", a.err(), b.err())),
        }
    }
    out.cover.insert(format!("direct:enc_ctl={}", enc as u8));
}


/// Cross-group resumption PSK (RFC 9420 section 8.4, usage `application`): two members share two groups on the same clients /
/// storage; a commit in group 1 injects the resumption secret of a past epoch of group 2 (proposal built from its wire encoding,
/// committed through `raw_proposal`).  Both members hold that epoch of group 2 in storage, so both must derive the same PSK and
/// the receiver must accept — whatever epochs of group 1 itself are still pending (unwritten) on either side.
fn cross_group<C: MlsConfig>(rng: &mut Rng, mk: Mk<C>, out: &mut Out) {
    use mls_rs::mls_rs_codec::MlsDecode;
    let mut w: World<C> = new_world(Default::default(), &crate::util::scratch("c18"));
    for i in 0..3 {
        new_client(&mut w, mk, &format!("x{i}"), false, 5);
    }
    // group 1 lives in the world, group 2 beside it (same clients, same storage)
    let mut mkgroup = |w: &mut World<C>| -> Option<(Group<C>, Group<C>)> {
        let mut ga = w.members[0].client.create_group(Default::default(), Default::default(), None).ok()?;
        let kp = w.members[1].client.generate_key_package_message(Default::default(), Default::default(), None).ok()?;
        let o = ga.commit_builder().add_member(kp).ok()?.build().ok()?;
        ga.apply_pending_commit().ok()?;
        let (gb, _) = w.members[1].client.join_group(None, o.welcome_messages.first()?, None).ok()?;
        Some((ga, gb))
    };
    let Some((g1a, g1b)) = mkgroup(&mut w) else {
        out.fails.push("cross-group setup".into());
        return;
    };
    let Some((mut g2a, mut g2b)) = mkgroup(&mut w) else {
        out.fails.push("cross-group setup".into());
        return;
    };
    w.members[0].group = Some(g1a);
    w.members[1].group = Some(g1b);
    // a third member of group 1 that never was in group 2: it holds no epoch of that group and must refuse every commit
    // that injects one of its resumption secrets
    {
        let kp = w.members[2].client.generate_key_package_message(Default::default(), Default::default(), None).unwrap();
        let (_, o) = w.with_group(0, |g| g.commit_builder().add_member(kp)?.build());
        let Some(o) = o else { return };
        w.with_group(0, |g| g.apply_pending_commit());
        w.with_group(1, |g| g.process_incoming_message(o.commit_message.clone()));
        match o.welcome_messages.first().and_then(|wm| w.members[2].client.join_group(None, wm, None).ok()) {
            Some((g, _)) => w.members[2].group = Some(g),
            None => return,
        }
    }
    // group 2 advances and is written by both
    let k2 = rng.range(3, 6);
    for _ in 0..k2 {
        let Ok(o) = g2a.commit(vec![]) else { return };
        let _ = g2a.apply_pending_commit();
        let _ = g2b.process_incoming_message(o.commit_message);
    }
    let _ = g2a.write_to_storage();
    let _ = g2b.write_to_storage();
    // group 1 advances; each side writes or not (pending epochs of group 1 with the same numbers as stored epochs of group 2)
    let k1 = rng.range(2, 7);
    let a_writes = rng.chance(1, 3);
    let b_writes = rng.chance(1, 2);
    for _ in 0..k1 {
        let (_, o) = w.with_group(0, |g| g.commit(vec![]));
        let Some(o) = o else { return };
        w.with_group(0, |g| g.apply_pending_commit());
        w.with_group(1, |g| g.process_incoming_message(o.commit_message.clone()));
        w.with_group(2, |g| g.process_incoming_message(o.commit_message.clone()));
        if a_writes {
            w.with_group(0, |g| g.write_to_storage());
        }
        if b_writes {
            w.with_group(1, |g| g.write_to_storage());
        }
    }
    let e2 = g2a.current_epoch();
    let mut e = rng.range(e2.saturating_sub(4).max(1), e2 - 1); // a past epoch of group 2 inside the retention window
    // often the epoch number that group 1 is in right now (the resolver's current-epoch shortcut must compare the group id too)
    let k1cur = w.group(0).current_epoch();
    if rng.chance(1, 2) && k1cur >= e2.saturating_sub(4).max(1) && k1cur < e2 {
        e = k1cur;
    }
    let gid2 = g2a.group_id().to_vec();
    let committer = rng.below(2) as usize;
    let receiver = 1 - committer;
    // Proposal::Psk { Resumption { usage application, group 2, epoch e }, nonce }
    let nonce = rng.bytes(32);
    let mut bytes = vec![0u8, 4, 2, 1];
    bytes.extend(crate::c12::varint(gid2.len() as u64));
    bytes.extend(&gid2);
    bytes.extend(e.to_be_bytes());
    bytes.extend(crate::c12::varint(nonce.len() as u64));
    bytes.extend(&nonce);
    let Ok(prop) = mls_rs::group::proposal::Proposal::mls_decode(&mut &bytes[..]) else {
        out.fails.push("cross-group: cannot build the PSK proposal".into());
        return;
    };
    out.cases += 1;
    let (r, o) = w.with_group(committer, |g| g.commit_builder().raw_proposal(prop).build());
    let Some(o) = o else {
        out.fails.push(format!("cross-group: member {committer} holds epoch {e} of the other group in storage but cannot build the commit: {}", r.s()));
        return;
    };
    w.with_group(committer, |g| g.apply_pending_commit());
    // the member outside group 2 does not hold the injected secret
    let before2 = comps(w.group(2));
    let (r2, _) = w.with_group(2, |g| g.process_incoming_message(o.commit_message.clone()));
    out.verdicts += 1;
    if r2.ok() {
        out.fails.push(format!("cross-group resumption PSK (epoch {e} of a group this member never was in): the outsider of that group accepted the commit (group 1 at epoch {})", w.group(2).current_epoch()));
    } else if !World::<C>::changed(&before2, &comps(w.group(2))).is_empty() {
        out.fails.push("cross-group resumption PSK: the member that rejected the commit changed".into());
    }
    let (r, _) = w.with_group(receiver, |g| g.process_incoming_message(o.commit_message.clone()));
    out.verdicts += 1;
    let k1now = w.group(committer).current_epoch();
    if !r.ok() {
        out.fails.push(format!(
            "cross-group resumption PSK (epoch {e} of another group that both members store): member {receiver} rejects the commit of member {committer}: {} (group 1 now at epoch {k1now}, committer writes group 1 = {}, receiver writes group 1 = {})",
            r.s(),
            if committer == 0 { a_writes } else { b_writes },
            if receiver == 0 { a_writes } else { b_writes }
        ));
    } else if w.group(0).epoch_authenticator().unwrap().as_bytes() != w.group(1).epoch_authenticator().unwrap().as_bytes() {
        out.fails.push("cross-group resumption PSK: members accepted but disagree".into());
    }
    out.cover.insert(format!("cross-group:pending-collision={}:current-epoch-collision={}", (e < k1now) as u8, (e + 1 == k1now) as u8));
}

/// value level: the PSK secret under variations of value / id / nonce / order / count
fn value_rows(rng: &mut Rng, qa: &mut QA, n: u64) -> Vec<String> {
    let cs = mls_rs_crypto_rustcrypto::RustCryptoProvider::default().cipher_suite_provider(CipherSuite::from(1u16)).unwrap();
    let mut fails = vec![];
    let mk_id = |rng: &mut Rng| {
        let mut b = vec![1u8];
        let l = 1 + rng.below(20) as usize;
        b.extend(crate::c13::varbytes(&rng.bytes(l)));
        b.extend(crate::c13::varbytes(&rng.bytes(32)));
        b
    };
    for _ in 0..n {
        let k = rng.range(1, 4) as usize;
        let base: Vec<(Vec<u8>, Vec<u8>)> = (0..k).map(|_| (mk_id(rng), rng.bytes(32))).collect();
        let s0 = mls_rs::verif::kdf::psk_secret(&cs, &base).unwrap();
        let row = |qa: &mut QA, inputs: &[(Vec<u8>, Vec<u8>)], s: &[u8]| {
            let mut q = format!("psk 1 {}", inputs.len());
            for (id, v) in inputs {
                q.push_str(&format!(" {} {}", hex(id), hex(v)));
            }
            qa.put(&q, &hex(s));
        };
        row(qa, &base, &s0);
        let mut variants: Vec<(&str, Vec<(Vec<u8>, Vec<u8>)>)> = vec![];
        let j = rng.below(k as u64) as usize;
        let mut v = base.clone();
        v[j].1[0] ^= 1;
        variants.push(("value", v));
        let mut v = base.clone();
        let l = v[j].0.len();
        v[j].0[l - 1] ^= 1; // last nonce byte
        variants.push(("nonce", v));
        let mut v = base.clone();
        v[j].0[2] ^= 1; // first id byte
        variants.push(("id", v));
        if k > 1 {
            let mut v = base.clone();
            v.swap(0, 1);
            variants.push(("order", v));
            let mut v = base.clone();
            v.pop();
            variants.push(("count", v));
        }
        for (what, v) in variants {
            let s = mls_rs::verif::kdf::psk_secret(&cs, &v).unwrap();
            row(qa, &v, &s);
            if s == s0 {
                fails.push(format!("changing the {what} of a PSK left the PSK secret unchanged"));
            }
        }
    }
    fails
}

pub fn run(o: &Opts) -> i32 {
    crate::util::quiet_panics();
    let dir = o.str("out", "/verif/work/c18");
    let mut rng = Rng::new(o.seed());
    let mut qa = QA::create(&dir, "c18");
    let n = o.u64("scenarios", if o.thorough() { 3000 } else { 200 });
    let mut out = Out { fails: vec![], rows: vec![], cases: 0, verdicts: 0, cover: Default::default(), samples: vec![] };
    let mk = |s: &Setup, hd: &Handles, id, sk| mk_client(s, hd, id, sk);
    out.fails.extend(value_rows(&mut rng, &mut qa, if o.thorough() { 3000 } else { 300 }));
    for k in 0..n {
        let mut r = rng.fork();
        scenario(&mut r, &mk, &mut out);
        if k % 4 == 0 {
            cross_group(&mut r, &mk, &mut out);
        }
        if k % 2 == 1 {
            direct(&mut r, &mk, &mut out);
        }
    }
    for (q, a) in &out.rows {
        qa.put(q, a);
    }
    let rows = qa.finish();
    println!("rows {rows}");
    println!("cases {}", out.cases);
    println!("deliveries {}", out.verdicts);
    println!("cover {}", out.cover.iter().cloned().collect::<Vec<_>>().join(";"));
    println!("oracle_failures {}", out.fails.len());
    std::fs::write(format!("{dir}/c18.failures"), out.fails.iter().cloned().collect::<Vec<_>>().join("\n")).unwrap();
    std::fs::write(format!("{dir}/c18.samples"), out.samples.join("\n")).unwrap();
    let _ = std::fs::remove_dir_all(&crate::util::scratch("c18"));
    0
}
