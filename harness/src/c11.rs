//! C11: exhaustive enumeration of short interleavings of commit creation / clear / apply / detached apply /
//! delivery of own and foreign commits by members racing in one epoch, on real groups (DFS with cloned
//! groups).  One row per sequence: the ops, and per op the result class and every member's
//! (epoch, state class, pending flag).  The Lean model `Pending` replays the same sequences.
use crate::providers::SharedCryptoLog;
use crate::util::{Opts, QA};
use crate::world::*;
use mls_rs::client_builder::MlsConfig;
use mls_rs::group::CommitSecrets;
use mls_rs::{Client, Group, MlsMessage};
use std::collections::BTreeMap;

const C11_PSK: &[u8] = b"c11-psk";

#[derive(Clone)]
struct CommitRec {
    author: usize,
    msg: MlsMessage,
    secrets: Option<Vec<u8>>,
    /// the same commit re-signed by its author with a wrong confirmation tag (must be rejected by everybody)
    bad: Option<MlsMessage>,
    kind: Kind,
}

#[derive(Clone)]
struct Node<C: MlsConfig> {
    groups: Vec<Group<C>>,
    commits: Vec<CommitRec>,
}

/// what a built commit carries: nothing (it has an update path), only an external PSK (no path), the removal of member j
/// (path), or a re-init (no path)
#[derive(Clone, Copy, Debug, PartialEq)]
enum Kind {
    Empty,
    NoPath,
    Remove(usize),
    Reinit,
}

impl Kind {
    fn s(&self) -> String {
        match self {
            Kind::Empty => String::new(),
            Kind::NoPath => ":n".into(),
            Kind::Remove(j) => format!(":r{j}"),
            Kind::Reinit => ":i".into(),
        }
    }
}

#[derive(Clone, Copy, Debug)]
enum Op {
    Build(usize, bool, Kind),
    Clear(usize),
    Apply(usize),
    ApplyDet(usize, usize),
    Deliver(usize, usize),
    /// deliver the wrong-tag copy of commit k to member m: an error that changes nothing (not even a pending commit)
    DeliverBad(usize, usize),
}

impl Op {
    fn s(&self) -> String {
        match self {
            Op::Build(m, false, k) => format!("b{m}{}", k.s()),
            Op::Build(m, true, k) => format!("B{m}{}", k.s()),
            Op::Clear(m) => format!("c{m}"),
            Op::Apply(m) => format!("a{m}"),
            Op::ApplyDet(m, k) => format!("D{m}:{k}"),
            Op::Deliver(m, k) => format!("d{m}:{k}"),
            Op::DeliverBad(m, k) => format!("x{m}:{k}"),
        }
    }
}

struct Ctx {
    qa: QA,
    seqs: u64,
    ops: u64,
    fails: Vec<String>,
    base_epoch: u64,
    active: usize,
    results: BTreeMap<String, u64>,
    kinds: Vec<Kind>,
    /// traffic of the base epoch made before the race: (author, application message), (author, proposal)
    traffic: Vec<(usize, MlsMessage, MlsMessage)>,
    traffic_checks: u64,
}

fn obs<C: MlsConfig>(n: &Node<C>, classes: &mut Vec<Vec<u8>>, base: u64) -> String {
    n.groups
        .iter()
        .map(|g| {
            let a = g.epoch_authenticator().map(|s| s.as_bytes().to_vec()).unwrap_or_default();
            let c = match classes.iter().position(|x| x == &a) {
                Some(i) => i,
                None => {
                    classes.push(a);
                    classes.len() - 1
                }
            };
            format!("e{}s{}p{}", g.current_epoch() - base, c, g.has_pending_commit() as u8)
        })
        .collect::<Vec<_>>()
        .join(",")
}

fn apply_op<C: MlsConfig>(n: &mut Node<C>, op: Op) -> Result<(), String> {
    let r = std::panic::catch_unwind(std::panic::AssertUnwindSafe(|| -> Result<(), mls_rs::error::MlsError> {
        match op {
            Op::Build(m, detached, kind) => {
                let leaf_of = |n: &Node<C>, j: usize| n.groups[j].current_member_index();
                let tl = match kind {
                    Kind::Remove(j) => Some(leaf_of(n, j)),
                    _ => None,
                };
                let alt = n.commits.len() % 2 == 1 && kind == Kind::Empty;
                let g = &mut n.groups[m];
                // through the builder (the entry point of every commit flavour); for the empty commit `Group::commit` every other time
                let mut b = g.commit_builder();
                match kind {
                    Kind::Empty => {}
                    Kind::NoPath => b = b.add_external_psk(ext_psk_id(C11_PSK))?,
                    Kind::Remove(_) => b = b.remove_member(tl.unwrap())?,
                    Kind::Reinit => b = b.reinit(None, mls_rs::ProtocolVersion::MLS_10, mls_rs::CipherSuite::from(1u16), Default::default())?,
                }
                if detached {
                    let (out, sec) = if alt {
                        drop(b);
                        g.commit_detached(vec![])?
                    } else {
                        b.build_detached()?
                    };
                    n.commits.push(CommitRec { author: m, msg: out.commit_message, secrets: Some(sec.to_bytes()?), bad: None, kind });
                } else {
                    let out = if alt {
                        drop(b);
                        g.commit(vec![])?
                    } else {
                        b.build()?
                    };
                    let bad = n.groups[m].verif_resign_commit(&out.commit_message, &mls_rs::verif::insider::InsiderEdit::SetConfirmationTag(vec![9u8; 32])).ok();
                    n.commits.push(CommitRec { author: m, msg: out.commit_message, secrets: None, bad, kind });
                }
            }
            Op::Clear(m) => n.groups[m].clear_pending_commit(),
            Op::Apply(m) => {
                n.groups[m].apply_pending_commit()?;
            }
            Op::ApplyDet(m, k) => {
                let s = CommitSecrets::from_bytes(n.commits[k].secrets.as_ref().unwrap())?;
                n.groups[m].apply_detached_commit(s)?;
            }
            Op::Deliver(m, k) => {
                // the two public entry points are separate functions with the same contract: odd members use the one with a time
                if m % 2 == 1 {
                    n.groups[m].process_incoming_message_with_time(n.commits[k].msg.clone(), mls_rs::time::MlsTime::now())?;
                } else {
                    n.groups[m].process_incoming_message(n.commits[k].msg.clone())?;
                }
            }
            Op::DeliverBad(m, k) => {
                let b = n.commits[k].bad.clone().ok_or(mls_rs::error::MlsError::UnexpectedMessageType)?;
                n.groups[m].process_incoming_message(b)?;
            }
        }
        Ok(())
    }));
    match r {
        Ok(Ok(())) => Ok(()),
        Ok(Err(e)) => Err(err_class(&e)),
        Err(_) => Err("PANIC".into()),
    }
}

fn enabled<C: MlsConfig>(n: &Node<C>, active: usize, kinds: &[Kind]) -> Vec<Op> {
    let mut v = vec![];
    for m in 0..n.groups.len() {
        if m < active {
            for k in kinds {
                if *k == Kind::Remove(m) {
                    continue;
                }
                if let Kind::Remove(j) = k {
                    // only members that are still in the group as the committer sees it (the model has no membership table)
                    let lj = n.groups[*j].current_member_index();
                    let jid = &n.groups[*j].current_member_signing_identity().map(|s| s.signature_key.clone()).ok();
                    let still = n.groups[m].roster().members().iter().any(|x| x.index == lj && Some(&x.signing_identity.signature_key) == jid.as_ref());
                    if !still {
                        continue;
                    }
                }
                v.push(Op::Build(m, false, *k));
                v.push(Op::Build(m, true, *k));
            }
            v.push(Op::Clear(m));
            v.push(Op::Apply(m));
            for (k, c) in n.commits.iter().enumerate() {
                if c.author == m && c.secrets.is_some() {
                    v.push(Op::ApplyDet(m, k));
                }
            }
        }
        for k in 0..n.commits.len() {
            v.push(Op::Deliver(m, k));
            // (a receiver that the commit removes cannot check the confirmation tag: it has no key of the new epoch)
            if n.commits[k].bad.is_some() && n.commits[k].author != m && n.commits[k].kind != Kind::Remove(m) {
                v.push(Op::DeliverBad(m, k));
            }
        }
    }
    v
}

fn dfs<C: MlsConfig>(n: &Node<C>, depth: usize, trail: &mut Vec<(Op, String)>, cx: &mut Ctx, classes: &Vec<Vec<u8>>) {
    if !trail.is_empty() {
        // emit the row for this sequence
        let q = format!("run n={} {}", n.groups.len(), trail.iter().map(|(o, _)| o.s()).collect::<Vec<_>>().join(" "));
        let a = trail.iter().map(|(_, s)| s.clone()).collect::<Vec<_>>().join(" ");
        cx.qa.put(&q, &a);
        cx.seqs += 1;
    }
    if depth == 0 {
        return;
    }
    let kinds = cx.kinds.clone();
    for op in enabled(n, cx.active, &kinds) {
        let mut child = n.clone();
        let before: Vec<Vec<(String, Vec<u8>)>> = child.groups.iter().map(|g| g.verif_components()).collect();
        let r = apply_op(&mut child, op);
        cx.ops += 1;
        let key = format!("{}:{}", &op.s()[..1], r.as_ref().map(|_| "ok".to_string()).unwrap_or_else(|e| e.clone()));
        *cx.results.entry(key).or_default() += 1;
        if let Err(e) = &r {
            if e == "PANIC" {
                cx.fails.push(format!("panic at {} after {:?}", op.s(), trail.iter().map(|(o, _)| o.s()).collect::<Vec<_>>()));
            }
            // direct oracle: a failed operation leaves every member unchanged (clear is never an error)
            for (i, g) in child.groups.iter().enumerate() {
                let after = g.verif_components();
                let ch: Vec<&String> = before[i].iter().zip(after.iter()).filter(|(x, y)| x.1 != y.1).map(|(x, _)| &x.0).collect();
                if !ch.is_empty() {
                    cx.fails.push(format!(
                        "failed op {} ({e}) after [{}] changed {:?} of member {i}",
                        op.s(),
                        trail.iter().map(|(o, _)| o.s()).collect::<Vec<_>>().join(" "),
                        ch
                    ));
                }
            }
        }
        // direct oracle: a member that holds a pending commit is still in its epoch for all other purposes — it decrypts the
        // application messages and caches the proposals of that epoch (on a copy; the race itself is not disturbed)
        if r.is_ok() {
            for (i, g) in child.groups.iter().enumerate() {
                if !g.has_pending_commit() || g.current_epoch() != cx.base_epoch {
                    continue;
                }
                for (from, app, prop) in &cx.traffic {
                    if *from == i {
                        continue;
                    }
                    let mut c = g.clone();
                    cx.traffic_checks += 1;
                    if let Err(e) = c.process_incoming_message(app.clone()) {
                        cx.fails.push(format!(
                            "member {i} holds a pending commit after [{} {}] and cannot read an application message of its epoch from member {from}: {}",
                            trail.iter().map(|(o, _)| o.s()).collect::<Vec<_>>().join(" "),
                            op.s(),
                            err_class(&e)
                        ));
                    }
                    if let Err(e) = c.process_incoming_message(prop.clone()) {
                        cx.fails.push(format!(
                            "member {i} holds a pending commit after [{} {}] and cannot cache a proposal of its epoch from member {from}: {}",
                            trail.iter().map(|(o, _)| o.s()).collect::<Vec<_>>().join(" "),
                            op.s(),
                            err_class(&e)
                        ));
                    }
                    if !c.has_pending_commit() {
                        cx.fails.push(format!("member {i} lost its pending commit by reading traffic of its epoch"));
                    }
                    break;
                }
            }
        }
        // direct oracle: epochs never decrease and move by at most one
        for (i, g) in child.groups.iter().enumerate() {
            let e0 = n.groups[i].current_epoch();
            let e1 = g.current_epoch();
            if e1 < e0 || e1 > e0 + 1 {
                cx.fails.push(format!(
                    "op {} after [{}] moved member {i} from epoch {e0} to {e1}",
                    op.s(),
                    trail.iter().map(|(o, _)| o.s()).collect::<Vec<_>>().join(" ")
                ));
            }
        }
        let mut cl = classes.clone();
        let o = obs(&child, &mut cl, cx.base_epoch);
        trail.push((op, format!("{};{}", if r.is_ok() { "ok" } else { "err" }, o)));
        dfs(&child, depth - 1, trail, cx, &cl);
        trail.pop();
    }
}

fn setup<C: MlsConfig>(
    mk: &dyn Fn(&Setup, &Handles, mls_rs::identity::SigningIdentity, mls_rs::crypto::SignatureSecretKey) -> Client<C>,
    n: usize,
    log: &SharedCryptoLog,
) -> Vec<Group<C>> {
    let mut clients = vec![];
    for i in 0..n {
        let s = Setup::new(&((b'A' + i as u8) as char).to_string());
        let h = handles(&s, log, &crate::util::scratch("c11"));
        h.psk.inner.lock().unwrap().insert(ext_psk_id(C11_PSK), psk_value(b"c11 psk value 0123456789abcdef!!"));
        let (id, sk) = make_identity(&s.name, s.suite);
        clients.push(mk(&s, &h, id, sk));
    }
    let mut g0 = clients[0].create_group(Default::default(), Default::default(), None).unwrap();
    let mut b = g0.commit_builder();
    for c in clients.iter().skip(1) {
        b = b.add_member(c.generate_key_package_message(Default::default(), Default::default(), None).unwrap()).unwrap();
    }
    let out = b.build().unwrap();
    g0.apply_pending_commit().unwrap();
    let mut groups = vec![g0];
    for c in clients.iter().skip(1) {
        let mut joined = None;
        for w in &out.welcome_messages {
            if let Ok((g, _)) = c.join_group(None, w, None) {
                joined = Some(g);
                break;
            }
        }
        groups.push(joined.expect("joins"));
    }
    groups
}

/// application message + Update proposal of the passive member (the last one), made on the real group before the race starts:
/// its ratchet / proposal cache advance, which the model does not observe
fn make_traffic<C: MlsConfig>(groups: &mut [Group<C>]) -> Vec<(usize, MlsMessage, MlsMessage)> {
    let p = groups.len() - 1;
    let app = groups[p].encrypt_application_message(b"while pending", vec![]);
    let prop = groups[p].propose_update(vec![]);
    match (app, prop) {
        (Ok(a), Ok(b)) => vec![(p, a, b)],
        _ => vec![],
    }
}

pub fn run(o: &Opts) -> i32 {
    crate::util::quiet_panics();
    let dir = o.str("out", "/verif/work/c11");
    let depth = o.u64("depth", if o.thorough() { 5 } else { 4 }) as usize;
    let members = o.u64("members", 3) as usize;
    let active = o.u64("active", 2) as usize;
    let log: SharedCryptoLog = Default::default();
    let mk = |s: &Setup, hd: &Handles, id, sk| mk_client(s, hd, id, sk);
    let mut groups = setup(&mk, members, &log);
    let base = groups[0].current_epoch();
    let traffic0 = make_traffic(&mut groups);
    let root = Node { groups, commits: vec![] };
    let mut cx = Ctx { qa: QA::create(&dir, "c11"), seqs: 0, ops: 0, fails: vec![], base_epoch: base, active, results: Default::default(), kinds: vec![Kind::Empty], traffic: vec![], traffic_checks: 0 };
    cx.traffic = traffic0;
    let mut classes = vec![];
    let _ = obs(&root, &mut classes, base);
    let mut trail = vec![];
    dfs(&root, depth, &mut trail, &mut cx, &classes);
    // second configuration: every active member has a by-reference Update proposal outstanding that all members cached, so
    // every commit of the race carries the other racers' Updates (the loser must still be able to follow the winner with the
    // key material of its own pending Update); same model, one level less deep
    {
        let mut groups = setup(&mk, members, &log);
        let mut props = vec![];
        for m in 0..active.min(groups.len()) {
            if let Ok(p) = groups[m].propose_update(vec![]) {
                props.push((m, p));
            }
        }
        for (from, p) in &props {
            for (i, g) in groups.iter_mut().enumerate() {
                if i != *from {
                    let _ = g.process_incoming_message(p.clone());
                }
            }
        }
        let base2 = groups[0].current_epoch();
        cx.traffic = vec![];
        let root2 = Node { groups, commits: vec![] };
        cx.base_epoch = base2;
        let mut classes2 = vec![];
        let _ = obs(&root2, &mut classes2, base2);
        let mut trail2 = vec![];
        dfs(&root2, depth.saturating_sub(1).max(3), &mut trail2, &mut cx, &classes2);
    }
    // further configurations, one level less deep: commits without an update path (PSK only) next to empty ones — an own path-less
    // commit can be processed by its author; commits that remove another racer or the passive member — the removed receiver stays
    // where it is and loses its pending commit; re-init commits — whoever installs one is frozen
    for kinds in [
        vec![Kind::Empty, Kind::NoPath],
        vec![Kind::Empty, Kind::Remove(1), Kind::Remove(0)],
        vec![Kind::Empty, Kind::Remove(members - 1)],
        vec![Kind::Empty, Kind::Reinit],
    ] {
        let mut groups = setup(&mk, members, &log);
        let base3 = groups[0].current_epoch();
        cx.traffic = make_traffic(&mut groups);
        let root3 = Node { groups, commits: vec![] };
        cx.base_epoch = base3;
        cx.kinds = kinds;
        let mut classes3 = vec![];
        let _ = obs(&root3, &mut classes3, base3);
        let mut trail3 = vec![];
        dfs(&root3, depth.saturating_sub(1).max(3), &mut trail3, &mut cx, &classes3);
    }
    let rows = cx.qa.finish();
    println!("rows {rows}");
    println!("cases {}", cx.ops);
    println!("depth {depth}");
    println!("traffic_checks {}", cx.traffic_checks);
    println!("cover {}", cx.results.iter().map(|(k, v)| format!("{k}={v}")).collect::<Vec<_>>().join(","));
    println!("oracle_failures {}", cx.fails.len());
    std::fs::write(format!("{dir}/c11.failures"), cx.fails.iter().cloned().collect::<Vec<_>>().join("\n")).unwrap();
    std::fs::write(format!("{dir}/c11.samples"), "").unwrap();
    let _ = std::fs::remove_dir_all(&crate::util::scratch("c11"));
    0
}
