//! C15 (and the provider-error part of C04): fault sweep.  For every operation of a scenario and every call it
//! makes into the application's storage / key-package / PSK (and, for C04, identity) providers, fail that call
//! once (thorough: also a second failure on the retry).  Oracle: the operation returns an error, the member's
//! complete state and its stored history are unchanged, the retry succeeds and reaches the state (and stored
//! history) of the fault-free run.
use crate::providers::*;
use crate::util::{Opts, Rng};
use crate::world::*;
use mls_rs::client_builder::MlsConfig;
use mls_rs::group::ReceivedMessage;
use mls_rs::{Client, Group, MlsMessage};
use std::collections::{BTreeMap, BTreeSet};

pub type Mk<'a, C> = &'a dyn Fn(&Setup, &Handles, mls_rs::identity::SigningIdentity, mls_rs::crypto::SignatureSecretKey) -> Client<C>;

pub struct Out {
    pub fails: Vec<String>,
    pub injected: u64,
    pub ops: u64,
    pub cover: BTreeSet<String>,
    pub by_call: BTreeMap<String, u64>,
    pub samples: Vec<String>,
}

pub fn new_client<C: MlsConfig>(w: &mut World<C>, mk: Mk<C>, name: &str, sqlite: bool, retention: usize) -> usize {
    let mut s = Setup::new(name);
    s.sqlite = sqlite;
    s.retention = retention;
    let h = handles(&s, &w.crypto_log, &w.scratch);
    for (id, val) in &w.psks {
        h.psk.inner.lock().unwrap().insert(ext_psk_id(id), psk_value(val));
    }
    let (id, sk) = make_identity(&s.name, s.suite);
    let client = mk(&s, &h, id, sk);
    w.members.push(Member { identity: s.name.as_bytes().to_vec(), setup: s, h, client, group: None, ghosts: vec![], wrote: false });
    w.members.len() - 1
}

/// What the member's storage holds for its group: snapshot bytes, max id, and every retained epoch record.
pub fn stored<C: MlsConfig>(w: &World<C>, i: usize) -> (Option<Vec<u8>>, Option<u64>, Vec<(u64, Vec<u8>)>) {
    let Some(g) = w.members[i].group.as_ref() else { return (None, None, vec![]) };
    let gid = g.group_id().to_vec();
    let st = &w.members[i].h.store;
    let max = st.peek_max(&gid);
    let mut eps = vec![];
    if let Some(m) = max {
        for id in m.saturating_sub(12)..=m + 1 {
            if let Some(d) = st.peek_epoch(&gid, id) {
                eps.push((id, d));
            }
        }
    }
    (st.peek_state(&gid), max, eps)
}

fn comps_relevant(c: &[(String, Vec<u8>)]) -> Vec<(String, Vec<u8>)> {
    // the read-through cache of prior epochs is compared by content against storage, not by presence
    c.iter().filter(|(k, _)| k != "repo_pending_updates").cloned().collect()
}

/// Sweep one deterministic operation `f` on member `i`: every counted provider call fails once.
/// `twin`: run fault-free on a clone first to learn the calls and the expected final state.
#[allow(clippy::too_many_arguments)]
pub fn sweep<C: MlsConfig>(
    w: &mut World<C>,
    i: usize,
    opname: &str,
    prefixes: &[&str],
    deterministic: bool,
    pairs: bool,
    out: &mut Out,
    f: &dyn Fn(&mut Group<C>) -> Result<(), mls_rs::error::MlsError>,
) {
    let name = w.members[i].setup.name.clone();
    w.members[i].h.fault.lock().unwrap().counted_prefixes = prefixes.iter().map(|s| s.to_string()).collect();
    // dry run on a clone: enumerate the calls
    let base = w.members[i].group.clone().expect("group");
    let stored0 = stored(w, i);
    w.fault_arm(i, vec![]);
    let mut twin = base.clone();
    let dry = std::panic::catch_unwind(std::panic::AssertUnwindSafe(|| f(&mut twin)));
    let calls = w.fault_log(i);
    out.ops += 1;
    let dry_ok = matches!(dry, Ok(Ok(())));
    if !dry_ok {
        out.fails.push(format!("{opname} by {name} fails without any fault: {:?}", dry.map(|r| r.map_err(|e| err_class(&e)))));
        return;
    }
    let expected = comps_relevant(&twin.verif_components());
    let writes_storage = calls.iter().any(|c| c.contains("storage.write") || c.contains("kp.delete") || c.contains("kp.insert"));
    let stored_expected = stored(w, i);
    if writes_storage {
        // the dry run itself changed the storage; this sweep therefore works on fresh worlds (see callers)
    }
    out.cover.insert(format!("{opname}:calls={}", calls.len().min(9)));
    let ncalls = calls.len() as u64;
    let plans: Vec<Vec<u64>> = if pairs {
        let mut v: Vec<Vec<u64>> = (1..=ncalls).map(|n| vec![n]).collect();
        for a in 1..=ncalls {
            for b in 1..=ncalls {
                v.push(vec![a, b]);
            }
        }
        v
    } else {
        (1..=ncalls).map(|n| vec![n]).collect()
    };
    if writes_storage {
        // storage-mutating operations cannot be replayed on the same storage: handled by `sweep_fresh`
        w.fault_reset(i);
        return;
    }
    for plan in plans {
        let mut g = base.clone();
        let before = comps_relevant(&g.verif_components());
        let mut attempt = 0;
        let mut ok_finally = false;
        for &n in &plan {
            attempt += 1;
            w.fault_arm(i, vec![n]);
            let r = std::panic::catch_unwind(std::panic::AssertUnwindSafe(|| f(&mut g)));
            let fired = w.fault_fired(i);
            out.injected += fired.len() as u64;
            for c in &fired {
                let k = c.split(':').nth(1).unwrap_or("").split(' ').next().unwrap_or("").to_string();
                *out.by_call.entry(k).or_default() += 1;
            }
            match r {
                Err(_) => {
                    out.fails.push(format!("{opname} by {name}: panic with fault at call {n} ({})", calls.get(n as usize - 1).cloned().unwrap_or_default()));
                    break;
                }
                Ok(Ok(())) => {
                    if !fired.is_empty() {
                        out.fails.push(format!(
                            "{opname} by {name} reported success although call {} failed",
                            fired.join(",")
                        ));
                    }
                    ok_finally = true;
                    break;
                }
                Ok(Err(e)) => {
                    if fired.is_empty() {
                        // call n not reached in this attempt (earlier calls changed): not a fault-induced error
                        out.fails.push(format!("{opname} by {name} failed without an injected fault on attempt {attempt}: {}", err_class(&e)));
                        break;
                    }
                    let after = comps_relevant(&g.verif_components());
                    let ch = World::<C>::changed(&before, &after);
                    if !ch.is_empty() {
                        out.fails.push(format!(
                            "{opname} by {name}: fault at {} left the member changed in {:?}",
                            fired.join(","),
                            ch
                        ));
                    }
                    if stored(w, i) != stored0 {
                        out.fails.push(format!("{opname} by {name}: fault at {} changed the stored history", fired.join(",")));
                    }
                }
            }
        }
        if !ok_finally {
            w.fault_arm(i, vec![]);
            let r = std::panic::catch_unwind(std::panic::AssertUnwindSafe(|| f(&mut g)));
            match r {
                Ok(Ok(())) => ok_finally = true,
                Ok(Err(e)) => out.fails.push(format!(
                    "{opname} by {name}: retry after the fault(s) at {:?} ({}) cleared fails: {}",
                    plan,
                    plan.iter().map(|n| calls.get(*n as usize - 1).cloned().unwrap_or_default()).collect::<Vec<_>>().join(","),
                    err_class(&e)
                )),
                Err(_) => out.fails.push(format!("{opname} by {name}: panic on retry")),
            }
        }
        if ok_finally && deterministic {
            let fin = comps_relevant(&g.verif_components());
            let ch = World::<C>::changed(&expected, &fin);
            if !ch.is_empty() {
                out.fails.push(format!("{opname} by {name}: after fault(s) {:?} and retry the member differs from the fault-free run in {:?}", plan, ch));
            }
            if stored(w, i) != stored_expected {
                out.fails.push(format!("{opname} by {name}: stored history after retry differs from the fault-free run"));
            }
        }
    }
    w.fault_reset(i);
    if out.samples.len() < 6 {
        out.samples.push(format!("{opname} by {name}: calls {:?}", calls));
    }
}

/// Build the standard scenario up to `stage` and return the world; member 1 (B) is the subject.
/// Stages create situations in which B has: a commit to process (with PSK / resumption PSK / adds),
/// a pending commit to apply, unwritten epochs to persist, a Welcome to join with.
pub struct Scene<C: MlsConfig> {
    pub w: World<C>,
    pub commit_for_b: Option<MlsMessage>,
    pub welcome_for_d: Option<MlsMessage>,
    pub proposal_for_b: Option<MlsMessage>,
    pub app_for_b: Option<MlsMessage>,
}

pub fn scene<C: MlsConfig>(rng: &mut Rng, mk: Mk<C>, variant: u64, sqlite: bool) -> Result<Scene<C>, String> {
    let mut w: World<C> = new_world(Default::default(), "/tmp/vharness-scratch-c15");
    let psk_id = rng.bytes(8);
    let psk_val = rng.bytes(32);
    w.psks.insert(psk_id.clone(), psk_val);
    let retention = *rng.pick(&[1usize, 2, 3]);
    for n in ["A", "B", "C", "D"] {
        new_client(&mut w, mk, n, sqlite, retention);
    }
    let g = w.members[0].client.create_group(Default::default(), Default::default(), None).map_err(|e| format!("{e:?}"))?;
    w.members[0].group = Some(g);
    let kps: Vec<MlsMessage> = (1..3).map(|i| w.members[i].client.generate_key_package_message(Default::default(), Default::default(), None).unwrap()).collect();
    let (r, o) = w.with_group(0, |g| {
        let mut b = g.commit_builder();
        for kp in kps {
            b = b.add_member(kp)?;
        }
        b.build()
    });
    let o = o.ok_or(format!("setup commit {}", r.s()))?;
    w.with_group(0, |g| g.apply_pending_commit());
    for i in 1..3 {
        for wm in &o.welcome_messages {
            if let Ok((g, _)) = w.members[i].client.join_group(None, wm, None) {
                w.members[i].group = Some(g);
                break;
            }
        }
        if w.members[i].group.is_none() {
            return Err("setup join".into());
        }
    }
    // a few epochs so that prior epochs exist (some written, some not)
    let epochs = 1 + variant % 3;
    for e in 0..epochs {
        let c = (e % 3) as usize;
        let (r, o) = w.with_group(c, |g| g.commit(vec![]));
        let o = o.ok_or(format!("setup epoch commit {}", r.s()))?;
        w.with_group(c, |g| g.apply_pending_commit());
        for i in 0..3 {
            if i != c {
                let m = o.commit_message.clone();
                let (r, _) = w.with_group(i, |g| g.process_incoming_message(m));
                if !r.ok() {
                    return Err(format!("setup process {}", r.s()));
                }
            }
        }
        if variant % 2 == 0 && e == 0 {
            for i in 0..3 {
                w.with_group(i, |g| g.write_to_storage());
                w.members[i].wrote = true;
            }
        }
    }
    // traffic for B in the current epoch
    let (_, app) = w.with_group(0, |g| g.encrypt_application_message(b"hello", vec![]));
    let (_, prop) = w.with_group(2, |g| g.propose_update(vec![]));
    // A's commit for B to process: by-value add of D, external PSK, optionally a resumption PSK
    let kpd = w.members[3].client.generate_key_package_message(Default::default(), Default::default(), None).unwrap();
    let use_res = variant % 4 >= 2;
    let cur_epoch = w.group(0).current_epoch();
    let pid = psk_id.clone();
    if let Some(p) = &prop {
        let p = p.clone();
        w.with_group(0, |g| g.process_incoming_message(p));
    }
    let (r, o) = w.with_group(0, |g| {
        let mut b = g.commit_builder().add_external_psk(ext_psk_id(&pid))?;
        if use_res && cur_epoch >= 1 {
            // a new member cannot know a resumption secret of an epoch it was not part of: no add here
            b = b.add_resumption_psk(cur_epoch - 1)?;
        } else {
            b = b.add_member(kpd)?;
        }
        b.build()
    });
    let o = o.ok_or(format!("scenario commit {}", r.s()))?;
    Ok(Scene { w, commit_for_b: Some(o.commit_message.clone()), welcome_for_d: o.welcome_messages.first().cloned(), proposal_for_b: prop, app_for_b: app })
}

pub fn run_sweeps<C: MlsConfig>(rng: &mut Rng, mk: Mk<C>, out: &mut Out, prefixes: &[&str], pairs: bool, variants: u64) {
    for variant in 0..variants {
        for sqlite in [false, true] {
            if sqlite && variant % 3 != 0 {
                continue;
            }
            let tag = format!("v{variant}{}", if sqlite { "-sqlite" } else { "" });
            // --- B processes a proposal, an application message and then A's commit --------------------------
            let sc = match scene(rng, mk, variant, sqlite) {
                Ok(s) => s,
                Err(e) => {
                    out.fails.push(format!("scene {tag}: {e}"));
                    continue;
                }
            };
            let Scene { mut w, commit_for_b, welcome_for_d, proposal_for_b, app_for_b } = sc;
            if let Some(p) = proposal_for_b.clone() {
                sweep(&mut w, 1, &format!("process-proposal[{tag}]"), prefixes, true, pairs, out, &move |g| g.process_incoming_message(p.clone()).map(|_| ()));
                let p2 = proposal_for_b.clone().unwrap();
                w.with_group(1, |g| g.process_incoming_message(p2));
            }
            if let Some(a) = app_for_b.clone() {
                sweep(&mut w, 1, &format!("process-app[{tag}]"), prefixes, true, pairs, out, &move |g| g.process_incoming_message(a.clone()).map(|_| ()));
            }
            let cm = commit_for_b.clone().unwrap();
            let cm2 = cm.clone();
            sweep(&mut w, 1, &format!("process-commit[{tag}]"), prefixes, true, pairs, out, &move |g| g.process_incoming_message(cm2.clone()).map(|_| ()));
            // --- A applies its pending commit ------------------------------------------------------------------
            sweep(&mut w, 0, &format!("apply-pending[{tag}]"), prefixes, true, pairs, out, &|g| g.apply_pending_commit().map(|_| ()));
            // --- C builds a commit of its own (fails on purpose nowhere; faults in PSK / storage lookups) -------
            let pid: Vec<u8> = w.psks.keys().next().cloned().unwrap();
            let ce = w.group(2).current_epoch();
            sweep(&mut w, 2, &format!("build-commit[{tag}]"), prefixes, false, pairs, out, &move |g| {
                let mut b = g.commit_builder().add_external_psk(ext_psk_id(&pid))?;
                if ce >= 1 {
                    b = b.add_resumption_psk(ce - 1)?;
                }
                let r = b.build().map(|_| ());
                if r.is_ok() {
                    g.clear_pending_commit();
                }
                r
            });
            // --- D joins through the Welcome (fresh client state per attempt is not possible: key package store is
            //     shared, so this sweep also checks that a failed join does not consume the key package) ----------
            if let Some(wm) = welcome_for_d {
                let fault = w.members[3].h.fault.clone();
                fault.lock().unwrap().counted_prefixes = prefixes.iter().map(|s| s.to_string()).collect();
                w.fault_arm(3, vec![]);
                // dry run to count calls (join does not persist anything by itself)
                let dry = w.members[3].client.join_group(None, &wm, None);
                let calls = w.fault_log(3);
                out.ops += 1;
                if dry.is_err() {
                    out.fails.push(format!("join[{tag}] fails without fault: {}", dry.err().map(|e| err_class(&e)).unwrap_or_default()));
                } else {
                    for n in 1..=calls.len() as u64 {
                        w.fault_arm(3, vec![n]);
                        let r = std::panic::catch_unwind(std::panic::AssertUnwindSafe(|| w.members[3].client.join_group(None, &wm, None)));
                        let fired = w.fault_fired(3);
                        out.injected += fired.len() as u64;
                        for c in &fired {
                            let k = c.split(':').nth(1).unwrap_or("").split(' ').next().unwrap_or("").to_string();
                            *out.by_call.entry(k).or_default() += 1;
                        }
                        match r {
                            Err(_) => out.fails.push(format!("join[{tag}]: panic with fault at call {n}")),
                            Ok(Ok(_)) if !fired.is_empty() => out.fails.push(format!("join[{tag}] succeeded although {} failed", fired.join(","))),
                            _ => {}
                        }
                        w.fault_arm(3, vec![]);
                        if let Err(e) = w.members[3].client.join_group(None, &wm, None) {
                            out.fails.push(format!("join[{tag}]: retry after fault at {} fails: {}", calls[n as usize - 1], err_class(&e)));
                        }
                    }
                    out.cover.insert(format!("join:calls={}", calls.len().min(9)));
                }
                w.fault_reset(3);
            }
            // --- write_to_storage with unwritten epochs: every call fails once, on fresh copies of the scenario ----
            write_sweep(rng, mk, out, prefixes, variant, sqlite, &tag);
            for m in &w.members {
                if let Some(p) = &m.h.sqlite_path {
                    let _ = std::fs::remove_file(p);
                }
            }
        }
    }
}

/// write_to_storage mutates the storage, so every injected fault runs on a freshly built scenario and is
/// compared with a fault-free twin scenario built from the same seed (stored history: ids and count).
fn write_sweep<C: MlsConfig>(rng: &mut Rng, mk: Mk<C>, out: &mut Out, prefixes: &[&str], variant: u64, sqlite: bool, tag: &str) {
    let seed = rng.next();
    // subject: member 3 (D) right after joining (its first write also deletes the used key package), or B
    for subject in [1usize, 3] {
        let build = |seed: u64| -> Option<World<C>> {
            let mut r = Rng::new(seed);
            let sc = scene(&mut r, mk, variant, sqlite).ok()?;
            let Scene { mut w, commit_for_b, welcome_for_d, proposal_for_b, .. } = sc;
            let cm = commit_for_b?;
            if let Some(p) = proposal_for_b {
                w.with_group(1, |g| g.process_incoming_message(p));
            }
            w.with_group(0, |g| g.apply_pending_commit());
            for i in 1..3 {
                let m = cm.clone();
                let (r, _) = w.with_group(i, |g| g.process_incoming_message(m));
                if !r.ok() {
                    return None;
                }
            }
            if let Some(wm) = welcome_for_d {
                let (g, _) = w.members[3].client.join_group(None, &wm, None).ok()?;
                w.members[3].group = Some(g);
            }
            Some(w)
        };
        let Some(mut w0) = build(seed) else {
            out.fails.push(format!("write-sweep scene {tag} cannot be built"));
            return;
        };
        if w0.members[subject].group.is_none() {
            continue;
        }
        w0.members[subject].h.fault.lock().unwrap().counted_prefixes = prefixes.iter().map(|s| s.to_string()).collect();
        w0.fault_arm(subject, vec![]);
        let (r, _) = w0.with_group(subject, |g| g.write_to_storage());
        let calls = w0.fault_log(subject);
        out.ops += 1;
        if !r.ok() {
            out.fails.push(format!("write[{tag}] by member {subject} fails without fault: {}", r.s()));
            continue;
        }
        let exp_store = stored(&w0, subject);
        let exp_ids: Vec<u64> = exp_store.2.iter().map(|x| x.0).collect();
        let exp_comp = comps_relevant(&w0.components(subject));
        let kp_left0 = w0.members[subject].h.kp.inner.key_packages().len();
        out.cover.insert(format!("write:subject={subject}:calls={}", calls.len()));
        for n in 1..=calls.len() as u64 {
            let Some(mut w) = build(seed) else { continue };
            w.members[subject].h.fault.lock().unwrap().counted_prefixes = prefixes.iter().map(|s| s.to_string()).collect();
            let before = comps_relevant(&w.components(subject));
            let stored_before = stored(&w, subject);
            w.fault_arm(subject, vec![n]);
            let (r, _) = w.with_group(subject, |g| g.write_to_storage());
            let fired = w.fault_fired(subject);
            out.injected += fired.len() as u64;
            for c in &fired {
                let k = c.split(':').nth(1).unwrap_or("").split(' ').next().unwrap_or("").to_string();
                *out.by_call.entry(k).or_default() += 1;
            }
            if r.ok() {
                out.fails.push(format!("write[{tag}] by member {subject} succeeded although {} failed", fired.join(",")));
                continue;
            }
            let after = comps_relevant(&w.components(subject));
            // A storage write that succeeded before the failing call is an external effect that cannot be taken
            // back; the member's list of not-yet-stored epochs then has to reflect it.  So that list is compared
            // together with the storage: every epoch is either stored or still pending, never both, none lost.
            let ch: Vec<String> = World::<C>::changed(&before, &after).into_iter().filter(|c| c != "repo_pending_inserts").collect();
            if !ch.is_empty() {
                out.fails.push(format!("write[{tag}] by member {subject}: fault at {} changed the member in {:?}", fired.join(","), ch));
            }
            let pend = |c: &[(String, Vec<u8>)]| -> Vec<u64> {
                c.iter()
                    .find(|(k, _)| k == "repo_pending_inserts")
                    .map(|(_, v)| v.chunks(8).map(|b| u64::from_be_bytes(b.try_into().unwrap())).collect())
                    .unwrap_or_default()
            };
            let (p0, p1) = (pend(&before), pend(&after));
            let s1: Vec<u64> = stored(&w, subject).2.iter().map(|x| x.0).collect();
            let s0: Vec<u64> = stored_before.2.iter().map(|x| x.0).collect();
            for e in &p0 {
                let kept = p1.contains(e) as u8 + s1.contains(e) as u8;
                // an epoch older than the retention window may legitimately be trimmed by the write
                if kept == 2 {
                    out.fails.push(format!("write[{tag}] by member {subject}: after fault at {} epoch {e} is both stored and still pending", fired.join(",")));
                }
                if kept == 0 && s1.iter().all(|x| x < e) {
                    out.fails.push(format!("write[{tag}] by member {subject}: after fault at {} epoch {e} is neither stored nor pending", fired.join(",")));
                }
            }
            if p1.iter().any(|e| !p0.contains(e)) || (s1 != s0 && p1 == p0) {
                out.fails.push(format!("write[{tag}] by member {subject}: inconsistent bookkeeping after fault at {}: pending {:?}->{:?}, stored {:?}->{:?}", fired.join(","), p0, p1, s0, s1));
            }
            // retry
            w.fault_arm(subject, vec![]);
            let (r2, _) = w.with_group(subject, |g| g.write_to_storage());
            if !r2.ok() {
                out.fails.push(format!("write[{tag}] by member {subject}: retry after fault at {} fails: {}", fired.join(","), r2.s()));
                continue;
            }
            let st = stored(&w, subject);
            let ids: Vec<u64> = st.2.iter().map(|x| x.0).collect();
            if ids != exp_ids || st.1 != exp_store.1 {
                out.fails.push(format!(
                    "write[{tag}] by member {subject}: after fault at {} and retry the stored epochs are {:?} (max {:?}), fault-free run has {:?} (max {:?})",
                    fired.join(","),
                    ids,
                    st.1,
                    exp_ids,
                    exp_store.1
                ));
            }
            // every retained record must be the one written for that id (index arithmetic of the in-memory store)
            for (id, data) in &st.2 {
                match mls_rs::verif::stored::prior_epoch_id(data) {
                    Some((inner, _)) if inner == *id => {}
                    other => out.fails.push(format!(
                        "write[{tag}] by member {subject}: after fault at {} and retry, storage returns for epoch {id} a record of epoch {:?}",
                        fired.join(","),
                        other.map(|x| x.0)
                    )),
                }
            }
            let fin = comps_relevant(&w.components(subject));
            let ch: Vec<String> = World::<C>::changed(&exp_comp, &fin).into_iter().filter(|c| c != "repo_pending_kp_removal").collect();
            // the two scenario instances use different random keys, so only the repository bookkeeping is comparable
            let ch: Vec<String> = ch.into_iter().filter(|c| c.starts_with("repo_")).collect();
            if !ch.is_empty() {
                out.fails.push(format!("write[{tag}] by member {subject}: repository bookkeeping after retry differs from the fault-free run in {:?}", ch));
            }
            if w.members[subject].h.kp.inner.key_packages().len() != kp_left0 {
                out.fails.push(format!("write[{tag}] by member {subject}: key-package store after retry differs from the fault-free run"));
            }
            // one more write must be a no-op on the stored epoch ids
            let (r3, _) = w.with_group(subject, |g| g.write_to_storage());
            let st3 = stored(&w, subject);
            let ids3: Vec<u64> = st3.2.iter().map(|x| x.0).collect();
            if !r3.ok() || ids3 != exp_ids {
                out.fails.push(format!("write[{tag}] by member {subject}: a further write after the retry gives {} and epochs {:?} (expected {:?})", r3.s(), ids3, exp_ids));
            }
            for m in &w.members {
                if let Some(p) = &m.h.sqlite_path {
                    let _ = std::fs::remove_file(p);
                }
            }
        }
        for m in &w0.members {
            if let Some(p) = &m.h.sqlite_path {
                let _ = std::fs::remove_file(p);
            }
        }
    }
}

pub fn report(out: &Out, dir: &str, stem: &str) {
    println!("cases {}", out.injected);
    println!("operations {}", out.ops);
    println!("cover {}", out.cover.iter().cloned().collect::<Vec<_>>().join(";"));
    println!("faulted_calls {}", out.by_call.iter().map(|(k, v)| format!("{k}={v}")).collect::<Vec<_>>().join(","));
    println!("oracle_failures {}", out.fails.len());
    std::fs::create_dir_all(dir).ok();
    std::fs::write(format!("{dir}/{stem}.failures"), out.fails.iter().take(300).cloned().collect::<Vec<_>>().join("\n")).unwrap();
    std::fs::write(format!("{dir}/{stem}.samples"), out.samples.join("\n")).unwrap();
}

pub fn run(o: &Opts) -> i32 {
    crate::util::quiet_panics();
    let dir = o.str("out", "/verif/work/c15");
    let mut rng = Rng::new(o.seed());
    let mut out = Out { fails: vec![], injected: 0, ops: 0, cover: Default::default(), by_call: Default::default(), samples: vec![] };
    let mk = |s: &Setup, hd: &Handles, id, sk| mk_client(s, hd, id, sk);
    let variants = o.u64("variants", if o.thorough() { 12 } else { 4 });
    run_sweeps(&mut rng, &mk, &mut out, &["storage.", "kp.", "psk."], o.thorough(), variants);
    report(&out, &dir, "c15");
    let _ = std::fs::remove_dir_all("/tmp/vharness-scratch-c15");
    0
}

#[allow(dead_code)]
fn _unused(_: ReceivedMessage) {}

/// C04's provider-error part: the same sweep with the identity provider's calls counted as well; failures are
/// appended to the C04 failure file and the counters are printed with a `faults_` prefix.
pub fn run_c04_faults(o: &Opts) -> i32 {
    let dir = o.str("out", "/verif/work/c04");
    let mut rng = Rng::new(o.seed() ^ 0xC04);
    let mut out = Out { fails: vec![], injected: 0, ops: 0, cover: Default::default(), by_call: Default::default(), samples: vec![] };
    let mk = |s: &Setup, hd: &Handles, id, sk| mk_client(s, hd, id, sk);
    let variants = o.u64("variants", if o.thorough() { 8 } else { 2 });
    run_sweeps(&mut rng, &mk, &mut out, &["id.", "storage.", "kp.", "psk."], false, variants);
    println!("faults_injected {}", out.injected);
    println!("faulted_calls {}", out.by_call.iter().map(|(k, v)| format!("{k}={v}")).collect::<Vec<_>>().join(","));
    println!("fault_oracle_failures {}", out.fails.len());
    use std::io::Write;
    if let Ok(mut f) = std::fs::OpenOptions::new().append(true).open(format!("{dir}/c04.failures")) {
        for l in out.fails.iter().take(200) {
            let _ = writeln!(f, "C04: {l}");
        }
    }
    let _ = std::fs::remove_dir_all("/tmp/vharness-scratch-c15");
    0
}
