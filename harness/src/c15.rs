//! C15 (and the provider-error part of C04): fault sweep.  For every operation of a scenario and every call it
//! makes into the application's storage / key-package / PSK (and, for C04, identity) providers, fail that call
//! once, and a second time on the retry (quick tier: a few pairs, thorough tier: all pairs).  Oracle: the
//! operation returns an error, the member's complete state and its stored history are unchanged, the retry
//! succeeds and reaches the state of the fault-free run, and what the member then stores (snapshot bytes and
//! every epoch record) is byte-identical to what the fault-free run stores.
//!
//! Operations: create_group, generate_key_package_message, join_group, load_group, processing a proposal / an
//! application message of the current epoch / of a prior epoch that is only in storage / a commit (by-value and
//! by-reference proposals, external and resumption PSKs, a re-init, the receiver's own pending Update),
//! apply_pending_commit, building a commit, write_to_storage.  A sweep that finds no provider call to fail is a
//! failure ("nothing to fault in <op>") unless the operation legitimately makes none (`no-provider-call:<op>`).
use crate::providers::*;
use crate::util::{Opts, Rng};
use crate::world::*;
use mls_rs::client_builder::MlsConfig;
use mls_rs::group::ReceivedMessage;
use mls_rs::{Client, Group, MlsMessage};
use mls_rs_core::group::GroupStateStorage;
use mls_rs_core::key_package::KeyPackageData;
use std::collections::{BTreeMap, BTreeSet};

pub type Mk<'a, C> = &'a dyn Fn(&Setup, &Handles, mls_rs::identity::SigningIdentity, mls_rs::crypto::SignatureSecretKey) -> Client<C>;

pub struct Out {
    pub fails: Vec<String>,
    pub injected: u64,
    pub ops: u64,
    pub cover: BTreeSet<String>,
    pub by_call: BTreeMap<String, u64>,
    pub samples: Vec<String>,
    /// `--skip-byref-build 1`: leave out the sweep `build-commit-byref` (a provider failure while the committer validates cached
    /// by-reference proposals drops the proposal instead of failing the build: reported as a finding while this is 0)
    pub skip_byref_build: bool,
}

/// second fault on the retry: not at all, a few pairs (same call twice, first/last crossed), every pair
#[derive(Clone, Copy, PartialEq, Debug)]
pub enum Pairs {
    None,
    Few,
    All,
}

pub fn new_client<C: MlsConfig>(w: &mut World<C>, mk: Mk<C>, name: &str, sqlite: bool, retention: usize) -> usize {
    let mut s = Setup::new(name);
    s.sqlite = sqlite;
    s.retention = retention;
    let h = handles(&s, &w.crypto_log, &w.scratch);
    for (id, val) in &w.psks {
        h.psk.inner.lock().unwrap().insert(ext_psk_id(id), psk_value(val));
    }
    let (id, sk) = make_identity(&s.name, s.suite);
    let client = mk(&s, &h, id, sk);
    w.members.push(Member { identity: s.name.as_bytes().to_vec(), setup: s, h, client, group: None, ghosts: vec![], wrote: false });
    w.members.len() - 1
}

type Stored = (Option<Vec<u8>>, Option<u64>, Vec<(u64, Vec<u8>)>);

/// What a storage holds for one group: snapshot bytes, max id, and every retained epoch record.
fn stored_of(st: &VStore, gid: &[u8]) -> Stored {
    let max = st.peek_max(gid);
    let mut eps = vec![];
    if let Some(m) = max {
        for id in m.saturating_sub(12)..=m + 1 {
            if let Some(d) = st.peek_epoch(gid, id) {
                eps.push((id, d));
            }
        }
    }
    (st.peek_state(gid), max, eps)
}

/// What the member's storage holds for its group: snapshot bytes, max id, and every retained epoch record.
pub fn stored<C: MlsConfig>(w: &World<C>, i: usize) -> (Option<Vec<u8>>, Option<u64>, Vec<(u64, Vec<u8>)>) {
    let Some(g) = w.members[i].group.as_ref() else { return (None, None, vec![]) };
    stored_of(&w.members[i].h.store, g.group_id())
}

/// Where two stored histories differ (empty = byte-identical).
fn stored_diff(a: &Stored, b: &Stored) -> Vec<String> {
    let mut d = vec![];
    if a.0 != b.0 {
        d.push(format!("snapshot bytes ({} vs {} bytes)", a.0.as_ref().map(|x| x.len()).unwrap_or(0), b.0.as_ref().map(|x| x.len()).unwrap_or(0)));
    }
    if a.1 != b.1 {
        d.push(format!("max epoch id {:?} vs {:?}", a.1, b.1));
    }
    let ia: Vec<u64> = a.2.iter().map(|x| x.0).collect();
    let ib: Vec<u64> = b.2.iter().map(|x| x.0).collect();
    if ia != ib {
        d.push(format!("epoch ids {ia:?} vs {ib:?}"));
    } else {
        for (x, y) in a.2.iter().zip(b.2.iter()) {
            if x.1 != y.1 {
                d.push(format!("bytes of epoch record {}", x.0));
            }
        }
    }
    d
}

/// number of group ids the storage knows (a failed create / join must not leave one behind)
fn stored_group_count(st: &VStore) -> usize {
    match &st.backend {
        StoreBackend::Mem(m) => m.stored_groups().len(),
        #[cfg(feature = "sqlite")]
        StoreBackend::Sql(s) => s.group_ids().map(|v| v.len()).unwrap_or(usize::MAX),
    }
}

/// The application-side environment of one member for one group: stored history and key-package store.  Restoring it lets
/// the same (cloned) group run a storage-mutating operation again, so that the bytes it stores are comparable.
struct Env {
    gid: Vec<u8>,
    st: Stored,
    kps: Vec<(Vec<u8>, KeyPackageData)>,
}

fn kp_ids(h: &Handles) -> Vec<Vec<u8>> {
    let mut v: Vec<Vec<u8>> = h.kp.inner.key_packages().into_iter().map(|x| x.0).collect();
    v.sort();
    v
}

fn env_snap(h: &Handles, gid: &[u8]) -> Env {
    Env { gid: gid.to_vec(), st: stored_of(&h.store, gid), kps: h.kp.inner.key_packages() }
}

/// `false` = the back end could not be brought back to the snapshot exactly (then byte comparisons are meaningless)
fn env_restore(h: &Handles, env: &Env) -> bool {
    let gs = || mls_rs_core::group::GroupState { id: env.gid.clone(), data: zeroize::Zeroizing::new(env.st.0.clone().unwrap_or_default()) };
    let ins = || env.st.2.iter().map(|(id, d)| mls_rs_core::group::EpochRecord::new(*id, zeroize::Zeroizing::new(d.clone()))).collect::<Vec<_>>();
    match &h.store.backend {
        StoreBackend::Mem(m) => {
            m.delete_group(&env.gid);
            if env.st.0.is_some() {
                let mut m2 = m.clone();
                let _ = m2.write(gs(), ins(), vec![]);
            }
        }
        #[cfg(feature = "sqlite")]
        StoreBackend::Sql(s) => {
            let _ = s.delete_group(&env.gid);
            if env.st.0.is_some() {
                let mut s2 = s.clone();
                let _ = s2.write(gs(), ins(), vec![]);
            }
        }
    }
    let now: BTreeSet<Vec<u8>> = h.kp.inner.key_packages().into_iter().map(|x| x.0).collect();
    let want: BTreeSet<Vec<u8>> = env.kps.iter().map(|x| x.0.clone()).collect();
    for id in now.difference(&want) {
        h.kp.inner.delete(id);
    }
    for (id, d) in &env.kps {
        if !now.contains(id) {
            h.kp.inner.insert(id.clone(), d.clone());
        }
    }
    stored_of(&h.store, &env.gid) == env.st && kp_ids(h).len() == env.kps.len()
}

fn comps_relevant(c: &[(String, Vec<u8>)]) -> Vec<(String, Vec<u8>)> {
    // the read-through cache of prior epochs is compared by content against storage, not by presence
    c.iter().filter(|(k, _)| k != "repo_pending_updates").cloned().collect()
}

fn comp<'a>(c: &'a [(String, Vec<u8>)], k: &str) -> &'a [u8] {
    c.iter().find(|(n, _)| n == k).map(|(_, v)| v.as_slice()).unwrap_or(&[])
}

fn count_fired(out: &mut Out, fired: &[String]) {
    out.injected += fired.len() as u64;
    for c in fired {
        let k = c.split(':').nth(1).unwrap_or("").split(' ').next().unwrap_or("").to_string();
        *out.by_call.entry(k).or_default() += 1;
    }
}

fn plans_for(ncalls: u64, pairs: Pairs) -> Vec<Vec<u64>> {
    let mut v: Vec<Vec<u64>> = (1..=ncalls).map(|n| vec![n]).collect();
    match pairs {
        Pairs::None => {}
        Pairs::Few => {
            for n in 1..=ncalls {
                v.push(vec![n, n]);
            }
            if ncalls > 1 {
                v.push(vec![1, ncalls]);
                v.push(vec![ncalls, 1]);
            }
        }
        Pairs::All => {
            for a in 1..=ncalls {
                for b in 1..=ncalls {
                    v.push(vec![a, b]);
                }
            }
        }
    }
    v
}

fn op_base(opname: &str) -> &str {
    opname.split('[').next().unwrap_or(opname)
}

fn set_prefixes(h: &Handles, prefixes: &[&str]) {
    h.fault.lock().unwrap().counted_prefixes = prefixes.iter().map(|s| s.to_string()).collect();
}

/// What `g` (a state of member `i`) would store if it were written now: the write runs on a clone and the member's
/// storage and key-package store are put back afterwards.  `None` = the write failed or the environment could not be restored.
fn write_probe<C: MlsConfig>(w: &World<C>, i: usize, g: &Group<C>) -> Option<(Stored, Vec<Vec<u8>>)> {
    let h = &w.members[i].h;
    let env = env_snap(h, g.group_id());
    w.fault_arm(i, vec![]);
    let mut c = g.clone();
    let r = std::panic::catch_unwind(std::panic::AssertUnwindSafe(|| c.write_to_storage()));
    let res = (stored_of(&h.store, g.group_id()), kp_ids(h));
    let restored = env_restore(h, &env);
    w.fault_arm(i, vec![]);
    (matches!(r, Ok(Ok(()))) && restored).then_some(res)
}

/// Sweep one deterministic operation `f` on member `i`: every counted provider call fails once (and, per `pairs`, again on
/// the retry).  The fault-free run on a clone comes first: it enumerates the calls and gives the expected final state.
/// `zero_ok`: the reason why the operation may legitimately make no provider call at all (otherwise an empty sweep is a failure).
/// Returns the number of provider calls enumerated.
#[allow(clippy::too_many_arguments)]
pub fn sweep<C: MlsConfig>(
    w: &mut World<C>,
    i: usize,
    opname: &str,
    prefixes: &[&str],
    deterministic: bool,
    pairs: Pairs,
    zero_ok: Option<&str>,
    out: &mut Out,
    f: &dyn Fn(&mut Group<C>) -> Result<(), mls_rs::error::MlsError>,
) -> usize {
    let name = w.members[i].setup.name.clone();
    set_prefixes(&w.members[i].h, prefixes);
    // dry run on a clone: enumerate the calls
    let base = w.members[i].group.clone().expect("group");
    let stored0 = stored(w, i);
    let kp0 = kp_ids(&w.members[i].h);
    w.fault_arm(i, vec![]);
    let mut twin = base.clone();
    let dry = std::panic::catch_unwind(std::panic::AssertUnwindSafe(|| f(&mut twin)));
    let calls = w.fault_log(i);
    out.ops += 1;
    let dry_ok = matches!(dry, Ok(Ok(())));
    if !dry_ok {
        out.fails.push(format!("{opname} by {name} fails without any fault: {:?}", dry.map(|r| r.map_err(|e| err_class(&e)))));
        return 0;
    }
    let expected = comps_relevant(&twin.verif_components());
    let writes_storage = calls.iter().any(|c| c.contains("storage.write") || c.contains("kp.delete") || c.contains("kp.insert"));
    let stored_expected = stored(w, i);
    out.cover.insert(format!("{opname}:calls={}", calls.len().min(9)));
    if calls.is_empty() {
        match zero_ok {
            Some(reason) => {
                out.cover.insert(format!("no-provider-call:{}:{reason}", op_base(opname)));
            }
            None => out.fails.push(format!("nothing to fault in {opname}")),
        }
    }
    let ncalls = calls.len() as u64;
    let plans = plans_for(ncalls, pairs);
    if writes_storage {
        // storage-mutating operations cannot be replayed on the same storage: handled by the dedicated sweeps
        w.fault_reset(i);
        return calls.len();
    }
    // what the fault-free result stores when it is written
    let probe_expected = if deterministic { write_probe(w, i, &twin) } else { None };
    if deterministic && probe_expected.is_none() {
        out.fails.push(format!("{opname} by {name}: the fault-free result cannot be written / the storage cannot be restored"));
    }
    for plan in plans {
        let mut g = base.clone();
        let before = comps_relevant(&g.verif_components());
        let mut attempt = 0;
        let mut ok_finally = false;
        let mut gave_up = false;
        if plan.len() > 1 {
            out.cover.insert(format!("pair:{}", op_base(opname)));
        }
        for &n in &plan {
            attempt += 1;
            w.fault_arm(i, vec![n]);
            let r = std::panic::catch_unwind(std::panic::AssertUnwindSafe(|| f(&mut g)));
            let fired = w.fault_fired(i);
            count_fired(out, &fired);
            match r {
                Err(_) => {
                    out.fails.push(format!("{opname} by {name}: panic with fault at call {n} ({})", calls.get(n as usize - 1).cloned().unwrap_or_default()));
                    gave_up = true;
                    break;
                }
                Ok(Ok(())) => {
                    if !fired.is_empty() {
                        out.fails.push(format!("{opname} by {name} reported success although call {} failed", fired.join(",")));
                    }
                    ok_finally = true;
                    break;
                }
                Ok(Err(e)) => {
                    if fired.is_empty() {
                        // call n not reached in this attempt (earlier calls changed): not a fault-induced error
                        out.fails.push(format!("{opname} by {name} failed without an injected fault on attempt {attempt}: {}", err_class(&e)));
                        gave_up = true;
                        break;
                    }
                    out.cover.insert(format!("fault-reported-as:{}", err_class(&e)));
                    let after = comps_relevant(&g.verif_components());
                    let ch = World::<C>::changed(&before, &after);
                    if !ch.is_empty() {
                        out.fails.push(format!("{opname} by {name}: fault at {} left the member changed in {:?}", fired.join(","), ch));
                    }
                    if stored(w, i) != stored0 {
                        out.fails.push(format!("{opname} by {name}: fault at {} changed the stored history", fired.join(",")));
                    }
                    if kp_ids(&w.members[i].h) != kp0 {
                        out.fails.push(format!("{opname} by {name}: fault at {} changed the key-package store", fired.join(",")));
                    }
                }
            }
        }
        if gave_up {
            continue;
        }
        if !ok_finally {
            w.fault_arm(i, vec![]);
            let r = std::panic::catch_unwind(std::panic::AssertUnwindSafe(|| f(&mut g)));
            match r {
                Ok(Ok(())) => ok_finally = true,
                Ok(Err(e)) => out.fails.push(format!(
                    "{opname} by {name}: retry after the fault(s) at {:?} ({}) cleared fails: {}",
                    plan,
                    plan.iter().map(|n| calls.get(*n as usize - 1).cloned().unwrap_or_default()).collect::<Vec<_>>().join(","),
                    err_class(&e)
                )),
                Err(_) => out.fails.push(format!("{opname} by {name}: panic on retry")),
            }
        }
        if ok_finally && deterministic {
            let fin = comps_relevant(&g.verif_components());
            let ch = World::<C>::changed(&expected, &fin);
            if !ch.is_empty() {
                out.fails.push(format!("{opname} by {name}: after fault(s) {:?} and retry the member differs from the fault-free run in {:?}", plan, ch));
            }
            if stored(w, i) != stored_expected {
                out.fails.push(format!("{opname} by {name}: stored history after retry differs from the fault-free run"));
            }
            // ... and what it stores at its next write is byte-identical to what the fault-free run stores
            if let Some((exp_st, exp_kp)) = &probe_expected {
                match write_probe(w, i, &g) {
                    Some((st, kp)) => {
                        let d = stored_diff(exp_st, &st);
                        if !d.is_empty() {
                            out.fails.push(format!("{opname} by {name}: after fault(s) {:?} and retry, the written history differs from the fault-free run in {:?}", plan, d));
                        }
                        if &kp != exp_kp {
                            out.fails.push(format!("{opname} by {name}: after fault(s) {:?} and retry, the key-package store after a write differs from the fault-free run", plan));
                        }
                        out.cover.insert("written-bytes-compared:op".into());
                    }
                    None => out.fails.push(format!("{opname} by {name}: after fault(s) {:?} and retry the member cannot be written", plan)),
                }
            }
        }
    }
    w.fault_reset(i);
    if out.samples.len() < 12 {
        out.samples.push(format!("{opname} by {name}: calls {:?}", calls));
    }
    calls.len()
}

/// What the commit that B processes looks like.
#[derive(Clone, Copy, PartialEq, Debug)]
pub enum Flavor {
    /// by-value external PSK, plus a by-value Add of D or a resumption PSK; C's Update by reference
    Plain,
    /// everything by reference, proposed by C: an external PSK and the Add of D
    ByRef,
    /// a re-init (by value, or proposed by C); B has nothing unwritten, so its repository asks the storage
    ReInit,
    /// B has a pending Update of its own (committed by A, or not seen by A), plus a by-value external PSK
    OwnUpdate,
}

impl Flavor {
    fn tag(self) -> &'static str {
        match self {
            Flavor::Plain => "",
            Flavor::ByRef => "-byref",
            Flavor::ReInit => "-reinit",
            Flavor::OwnUpdate => "-ownupd",
        }
    }
}

/// Build the standard scenario and return the world; member 1 (B) is the subject.
/// Situations: B has proposals, application messages (current epoch, prior epoch) and a commit to process (per `Flavor`),
/// A a pending commit to apply, everybody unwritten epochs to persist, D a Welcome to join with.
pub struct Scene<C: MlsConfig> {
    pub w: World<C>,
    pub commit_for_b: Option<MlsMessage>,
    pub welcome_for_d: Option<MlsMessage>,
    /// (sender, message); A has processed them when `a_saw_proposals`
    pub proposals: Vec<(usize, MlsMessage)>,
    pub app_for_b: Option<MlsMessage>,
    /// an application message of A from the epoch before the current one
    pub late_app_for_b: Option<MlsMessage>,
    pub flavor: Flavor,
}

pub fn scene<C: MlsConfig>(rng: &mut Rng, mk: Mk<C>, variant: u64, sqlite: bool, flavor: Flavor) -> Result<Scene<C>, String> {
    let mut w: World<C> = new_world(Default::default(), &crate::util::scratch("c15"));
    let psk_id = rng.bytes(8);
    let psk_val = rng.bytes(32);
    w.psks.insert(psk_id.clone(), psk_val);
    let retention = *rng.pick(&[1usize, 2, 3]);
    for n in ["A", "B", "C", "D"] {
        new_client(&mut w, mk, n, sqlite, retention);
    }
    let g = w.members[0].client.create_group(Default::default(), Default::default(), None).map_err(|e| format!("{e:?}"))?;
    w.members[0].group = Some(g);
    let kps: Vec<MlsMessage> = (1..3).map(|i| w.members[i].client.generate_key_package_message(Default::default(), Default::default(), None).unwrap()).collect();
    let (r, o) = w.with_group(0, |g| {
        let mut b = g.commit_builder();
        for kp in kps {
            b = b.add_member(kp)?;
        }
        b.build()
    });
    let o = o.ok_or(format!("setup commit {}", r.s()))?;
    w.with_group(0, |g| g.apply_pending_commit());
    for i in 1..3 {
        for wm in &o.welcome_messages {
            if let Ok((g, _)) = w.members[i].client.join_group(None, wm, None) {
                w.members[i].group = Some(g);
                break;
            }
        }
        if w.members[i].group.is_none() {
            return Err("setup join".into());
        }
    }
    // a few epochs so that prior epochs exist (some written, some not)
    let epochs = 1 + variant % 3;
    let mut late = None;
    for e in 0..epochs {
        // A's application message of the epoch that is about to end
        late = w.with_group(0, |g| g.encrypt_application_message(b"late", vec![])).1;
        let c = (e % 3) as usize;
        let (r, o) = w.with_group(c, |g| g.commit(vec![]));
        let o = o.ok_or(format!("setup epoch commit {}", r.s()))?;
        w.with_group(c, |g| g.apply_pending_commit());
        for i in 0..3 {
            if i != c {
                let m = o.commit_message.clone();
                let (r, _) = w.with_group(i, |g| g.process_incoming_message(m));
                if !r.ok() {
                    return Err(format!("setup process {}", r.s()));
                }
            }
        }
        if variant % 2 == 0 && e == 0 {
            for i in 0..3 {
                w.with_group(i, |g| g.write_to_storage());
                w.members[i].wrote = true;
            }
        }
    }
    if flavor == Flavor::ReInit {
        // nothing unwritten at B: entering the next epoch asks the storage for the last stored epoch id
        let (r, _) = w.with_group(1, |g| g.write_to_storage());
        if !r.ok() {
            return Err(format!("setup write {}", r.s()));
        }
        w.members[1].wrote = true;
    }
    // traffic for B in the current epoch
    let (_, app) = w.with_group(0, |g| g.encrypt_application_message(b"hello", vec![]));
    let kpd = w.members[3].client.generate_key_package_message(Default::default(), Default::default(), None).unwrap();
    let use_res = variant % 4 >= 2;
    let cur_epoch = w.group(0).current_epoch();
    let pid = psk_id.clone();
    let mut proposals: Vec<(usize, MlsMessage)> = vec![];
    let mut a_sees = true;
    match flavor {
        Flavor::Plain => {
            if let (_, Some(p)) = w.with_group(2, |g| g.propose_update(vec![])) {
                proposals.push((2, p));
            }
        }
        Flavor::ByRef => {
            let pid2 = pid.clone();
            let (r, p) = w.with_group(2, |g| g.propose_external_psk(ext_psk_id(&pid2), vec![]));
            proposals.push((2, p.ok_or(format!("propose psk {}", r.s()))?));
            let kp = kpd.clone();
            let (r, p) = w.with_group(2, |g| g.propose_add(kp, vec![]));
            proposals.push((2, p.ok_or(format!("propose add {}", r.s()))?));
        }
        Flavor::ReInit => {
            if variant % 2 == 1 {
                let (r, p) = w.with_group(2, |g| g.propose_reinit(None, mls_rs::ProtocolVersion::MLS_10, mls_rs::CipherSuite::from(1u16), Default::default(), vec![]));
                proposals.push((2, p.ok_or(format!("propose reinit {}", r.s()))?));
            }
        }
        Flavor::OwnUpdate => {
            a_sees = variant % 2 == 0;
            // the Update that A commits also changes B's signature key: the new signer belongs to the new epoch only
            let (nid, nsk) = make_identity("B", 1);
            let (r, p) = w.with_group(1, |g| if a_sees { g.propose_update_with_identity(nsk, nid, vec![]) } else { g.propose_update(vec![]) });
            proposals.push((1, p.ok_or(format!("propose own update {}", r.s()))?));
        }
    }
    if a_sees {
        for (_, p) in &proposals {
            let p = p.clone();
            let (r, _) = w.with_group(0, |g| g.process_incoming_message(p));
            if !r.ok() {
                return Err(format!("A processes a proposal: {}", r.s()));
            }
        }
    }
    let by_value_reinit = flavor == Flavor::ReInit && variant % 2 == 0;
    let (r, o) = w.with_group(0, |g| {
        let mut b = g.commit_builder();
        match flavor {
            Flavor::Plain => {
                b = b.add_external_psk(ext_psk_id(&pid))?;
                if use_res && cur_epoch >= 1 {
                    // a new member cannot know a resumption secret of an epoch it was not part of: no add here
                    b = b.add_resumption_psk(cur_epoch - 1)?;
                } else {
                    b = b.add_member(kpd)?;
                }
            }
            Flavor::ByRef => {}
            Flavor::ReInit => {
                if by_value_reinit {
                    b = b.reinit(None, mls_rs::ProtocolVersion::MLS_10, mls_rs::CipherSuite::from(1u16), Default::default())?;
                }
            }
            Flavor::OwnUpdate => {
                b = b.add_external_psk(ext_psk_id(&pid))?;
            }
        }
        b.build()
    });
    let o = o.ok_or(format!("scenario commit {}", r.s()))?;
    if !o.unused_proposals.is_empty() {
        return Err(format!("scenario commit leaves {} proposals unused", o.unused_proposals.len()));
    }
    Ok(Scene { w, commit_for_b: Some(o.commit_message.clone()), welcome_for_d: o.welcome_messages.first().cloned(), proposals, app_for_b: app, late_app_for_b: late, flavor })
}

fn flavors_of(variant: u64) -> [Flavor; 3] {
    let x = [Flavor::ByRef, Flavor::ReInit, Flavor::OwnUpdate];
    let k = ((variant + variant / 3) % 3) as usize;
    [Flavor::Plain, x[k], x[(k + 1) % 3]]
}

pub fn run_sweeps<C: MlsConfig>(rng: &mut Rng, mk: Mk<C>, out: &mut Out, prefixes: &[&str], pairs: Pairs, variants: u64) {
    for variant in 0..variants {
        for sqlite in [false, true] {
            if sqlite && variant % 3 != 0 {
                continue;
            }
            for flavor in flavors_of(variant) {
                let tag = format!("v{variant}{}{}", flavor.tag(), if sqlite { "-sqlite" } else { "" });
                let sc = match scene(rng, mk, variant, sqlite, flavor) {
                    Ok(s) => s,
                    Err(e) => {
                        out.fails.push(format!("scene {tag}: {e}"));
                        continue;
                    }
                };
                out.cover.insert(format!("flavor:{flavor:?}"));
                sweep_scene(rng, mk, out, prefixes, pairs, variant, sqlite, &tag, sc);
            }
        }
    }
}

#[allow(clippy::too_many_arguments)]
fn sweep_scene<C: MlsConfig>(rng: &mut Rng, mk: Mk<C>, out: &mut Out, prefixes: &[&str], pairs: Pairs, variant: u64, sqlite: bool, tag: &str, sc: Scene<C>) {
    let Scene { mut w, commit_for_b, welcome_for_d, proposals, app_for_b, late_app_for_b, flavor } = sc;
    // --- B processes the proposals, an application message and then A's commit ---------------------------------
    // (receiving a proposal only verifies and caches it: no provider is involved, whatever the proposal type; the
    // by-reference PSK / Add / re-init are validated -- PSK store, identity provider -- when the commit is processed)
    for (s, p) in &proposals {
        if *s == 1 {
            continue;
        }
        let pm = p.clone();
        sweep(&mut w, 1, &format!("process-proposal[{tag}]"), prefixes, true, pairs, Some("cached-only"), out, &move |g| g.process_incoming_message(pm.clone()).map(|_| ()));
        let p2 = p.clone();
        w.with_group(1, |g| g.process_incoming_message(p2));
    }
    if let Some(a) = app_for_b.clone() {
        sweep(&mut w, 1, &format!("process-app[{tag}]"), prefixes, true, pairs, Some("current-epoch"), out, &move |g| g.process_incoming_message(a.clone()).map(|_| ()));
    }
    let cm = commit_for_b.clone().unwrap();
    let cm2 = cm.clone();
    let comps_b = w.components(1);
    if flavor == Flavor::OwnUpdate {
        if comp(&comps_b, "pending_updates").is_empty() || comp(&comps_b, "own_proposals").is_empty() {
            out.fails.push(format!("scene {tag}: B has no pending Update of its own"));
        }
        out.cover.insert(format!("own-pending-update:committed={}", (variant % 2 == 0) as u8));
        if variant % 2 == 0 {
            // the fault-free processing switches B's signer (so "signer unchanged after a fault" is not vacuous)
            let mut t = w.group(1).clone();
            let r = t.process_incoming_message(cm.clone());
            if r.is_err() || comp(&t.verif_components(), "signer") == comp(&comps_b, "signer") {
                out.fails.push(format!("scene {tag}: A's commit does not install the signer of B's own Update ({:?})", r.err().map(|e| err_class(&e))));
            } else {
                out.cover.insert("own-pending-update:new-signer".into());
            }
        }
    }
    if flavor == Flavor::Plain && variant % 2 == 1 {
        // B has a pending commit of its own when A's commit arrives: a failed processing must keep it
        let (r, _) = w.with_group(1, |g| g.commit(vec![]));
        if r.ok() && !comp(&w.components(1), "pending_commit").is_empty() {
            out.cover.insert("receiver-has-pending-commit".into());
        } else {
            out.fails.push(format!("scene {tag}: B cannot build a commit of its own: {}", r.s()));
        }
    }
    let n = sweep(&mut w, 1, &format!("process-commit[{tag}]"), prefixes, true, pairs, None, out, &move |g| g.process_incoming_message(cm2.clone()).map(|_| ()));
    if flavor == Flavor::ReInit && n > 0 {
        // the fault-free processing does set the marker (so "pending_reinit unchanged after a fault" is not vacuous)
        let mut t = w.group(1).clone();
        let _ = t.process_incoming_message(cm.clone());
        if comp(&t.verif_components(), "pending_reinit") == comp(&comps_b, "pending_reinit") {
            out.fails.push(format!("scene {tag}: processing the re-init commit does not set pending_reinit"));
        }
        out.cover.insert(format!("reinit-commit:by-ref={}", (variant % 2 == 1) as u8));
    }
    // --- A applies its pending commit ------------------------------------------------------------------
    // (with unwritten epochs the repository knows the next epoch id itself and asks nobody)
    let a_unwritten = !comp(&w.components(0), "repo_pending_inserts").is_empty();
    sweep(&mut w, 0, &format!("apply-pending[{tag}]"), prefixes, true, pairs, a_unwritten.then_some("unwritten-epochs"), out, &|g| g.apply_pending_commit().map(|_| ()));
    // --- C builds a commit of its own (fails on purpose nowhere; faults in PSK / storage lookups) -------
    // (a re-init proposed by C itself cannot be combined with PSKs: C forgets it first; its own by-reference PSK / Add
    // proposals get a sweep of their own)
    if flavor == Flavor::ByRef && !out.skip_byref_build {
        // one more cached proposal for C: B proposes, by reference, the resumption PSK of the previous epoch, which C — having
        // written its state — holds only in STORAGE: the lookup while C validates its cache goes to the group-state storage,
        // and a failing storage call there must fail the build as well (not drop the proposal as "unresolvable")
        let ce = w.group(2).current_epoch();
        if ce >= 1 && w.group(1).current_epoch() == ce {
            let (rw, _) = w.with_group(2, |g| g.write_to_storage());
            if rw.ok() {
                w.members[2].wrote = true;
                let (_, pm) = w.with_group(1, |g| g.propose_resumption_psk(ce - 1, vec![]));
                if let Some(pm) = pm {
                    let (rp, _) = w.with_group(2, |g| g.process_incoming_message(pm));
                    if rp.ok() {
                        out.cover.insert("byref-resumption-psk-of-a-stored-epoch".into());
                    }
                }
            }
        }
        build_byref_sweep(&mut w, 2, prefixes, out, tag);
    }
    if flavor == Flavor::ReInit || flavor == Flavor::ByRef {
        w.with_group(2, |g| {
            g.clear_proposal_cache();
            Ok(())
        });
    }
    let pid: Vec<u8> = w.psks.keys().next().cloned().unwrap();
    let ce = w.group(2).current_epoch();
    sweep(&mut w, 2, &format!("build-commit[{tag}]"), prefixes, false, pairs, None, out, &move |g| {
        let mut b = g.commit_builder().add_external_psk(ext_psk_id(&pid))?;
        if ce >= 1 {
            b = b.add_resumption_psk(ce - 1)?;
        }
        let r = b.build().map(|_| ());
        if r.is_ok() {
            g.clear_pending_commit();
        }
        r
    });
    // --- D joins through the Welcome ---------------------------------------------------------------------
    if let Some(wm) = welcome_for_d {
        join_sweep(&mut w, 3, &wm, prefixes, pairs, out, tag);
    }
    // --- B reads an application message of the previous epoch, which it holds only in storage -------------
    if let Some(m) = late_app_for_b {
        let (r, _) = w.with_group(1, |g| g.write_to_storage());
        if !r.ok() {
            out.fails.push(format!("scene {tag}: B cannot write: {}", r.s()));
        } else {
            w.members[1].wrote = true;
            let n = sweep(&mut w, 1, &format!("process-app-late[{tag}]"), prefixes, true, pairs, None, out, &move |g| g.process_incoming_message(m.clone()).map(|_| ()));
            if n > 0 {
                out.cover.insert("late-app-from-storage".into());
            }
            // --- B's written group is loaded again ---------------------------------------------------------
            load_sweep(&mut w, 1, prefixes, pairs, out, tag);
        }
    }
    // --- a new client creates a group, publishes a key package ---------------------------------------------
    if flavor == Flavor::Plain {
        create_sweep(&mut w, mk, prefixes, pairs, sqlite, out, tag);
    }
    // --- write_to_storage with unwritten epochs: every call fails once, same group state and same storage every time ----
    write_sweep(rng, mk, out, prefixes, pairs, variant, flavor, sqlite, tag);
    for m in &w.members {
        if let Some(p) = &m.h.sqlite_path {
            let _ = std::fs::remove_file(p);
        }
    }
}

/// C commits the proposals in its cache (by reference: an external PSK and an Add).  A provider failure while they are
/// validated must fail the build, not silently produce a commit without them.
fn build_byref_sweep<C: MlsConfig>(w: &mut World<C>, i: usize, prefixes: &[&str], out: &mut Out, tag: &str) {
    let name = w.members[i].setup.name.clone();
    set_prefixes(&w.members[i].h, prefixes);
    let base = w.members[i].group.clone().expect("group");
    let kinds = |o: &mls_rs::group::CommitOutput| o.unused_proposals.iter().map(|p| proposal_kind(&p.proposal)).collect::<Vec<_>>().join(",");
    w.fault_arm(i, vec![]);
    let mut twin = base.clone();
    let dry = twin.commit_builder().build();
    let calls = w.fault_log(i);
    out.ops += 1;
    match &dry {
        Ok(o) if o.unused_proposals.is_empty() => {}
        Ok(o) => {
            out.fails.push(format!("build-commit-byref[{tag}] by {name}: the fault-free build leaves [{}] unused", kinds(o)));
            return;
        }
        Err(e) => {
            out.fails.push(format!("build-commit-byref[{tag}] by {name} fails without any fault: {}", err_class(e)));
            return;
        }
    }
    if calls.is_empty() {
        out.fails.push(format!("nothing to fault in build-commit-byref[{tag}]"));
    }
    out.cover.insert(format!("build-commit-byref:calls={}", calls.iter().map(|c| c.split(':').nth(1).unwrap_or("")).collect::<Vec<_>>().join("+")));
    let stored0 = stored(w, i);
    for n in 1..=calls.len() as u64 {
        let mut g = base.clone();
        let before = comps_relevant(&g.verif_components());
        w.fault_arm(i, vec![n]);
        let r = std::panic::catch_unwind(std::panic::AssertUnwindSafe(|| g.commit_builder().build()));
        let fired = w.fault_fired(i);
        count_fired(out, &fired);
        match r {
            Err(_) => out.fails.push(format!("build-commit-byref[{tag}] by {name}: panic with fault at call {n}")),
            Ok(Ok(o)) => {
                // (an error of the IDENTITY provider is how an application refuses a credential: the filter drops a by-reference
                // Add whose identity is refused, by design — property C10; only the stores can "fail")
                if fired.iter().all(|c| c.contains("id.")) && !fired.is_empty() {
                    out.cover.insert("byref-add-dropped-on-identity-provider-error".into());
                } else if !fired.is_empty() {
                    out.fails.push(format!(
                        "build-commit-byref[{tag}] by {name}: provider call {} failed while the cached by-reference proposals were validated, yet the build reports success: the commit silently leaves out [{}] (only listed as unused), the provider's error is lost",
                        fired.join(","),
                        kinds(&o)
                    ));
                    out.cover.insert("byref-proposal-dropped-on-provider-failure".into());
                }
            }
            Ok(Err(e)) => {
                if fired.is_empty() {
                    out.fails.push(format!("build-commit-byref[{tag}] by {name} failed without an injected fault: {}", err_class(&e)));
                }
                out.cover.insert(format!("fault-reported-as:{}", err_class(&e)));
                let ch = World::<C>::changed(&before, &comps_relevant(&g.verif_components()));
                if !ch.is_empty() {
                    out.fails.push(format!("build-commit-byref[{tag}] by {name}: fault at {} left the member changed in {ch:?}", fired.join(",")));
                }
                if stored(w, i) != stored0 {
                    out.fails.push(format!("build-commit-byref[{tag}] by {name}: fault at {} changed the stored history", fired.join(",")));
                }
                w.fault_arm(i, vec![]);
                match g.commit_builder().build() {
                    Ok(o) if o.unused_proposals.is_empty() => {}
                    Ok(o) => out.fails.push(format!("build-commit-byref[{tag}] by {name}: the retry after the fault at {} leaves [{}] unused", fired.join(","), kinds(&o))),
                    Err(e) => out.fails.push(format!("build-commit-byref[{tag}] by {name}: the retry after the fault at {} fails: {}", fired.join(","), err_class(&e))),
                }
            }
        }
    }
    w.fault_reset(i);
}

/// join_group: every provider call fails once (pairs: again on the retry); a failed join leaves the key-package store and the
/// storage as they were; the retry joins and gives the group of the fault-free join.
fn join_sweep<C: MlsConfig>(w: &mut World<C>, d: usize, wm: &MlsMessage, prefixes: &[&str], pairs: Pairs, out: &mut Out, tag: &str) {
    set_prefixes(&w.members[d].h, prefixes);
    w.fault_arm(d, vec![]);
    let kp0 = kp_ids(&w.members[d].h);
    let groups0 = stored_group_count(&w.members[d].h.store);
    let dry = w.members[d].client.join_group(None, wm, None);
    let calls = w.fault_log(d);
    out.ops += 1;
    let gd = match dry {
        Ok((g, _)) => g,
        Err(e) => {
            out.fails.push(format!("join[{tag}] fails without fault: {}", err_class(&e)));
            return;
        }
    };
    let expected = comps_relevant(&gd.verif_components());
    if calls.is_empty() {
        out.fails.push(format!("nothing to fault in join[{tag}]"));
    }
    if kp_ids(&w.members[d].h) != kp0 || stored_group_count(&w.members[d].h.store) != groups0 {
        out.fails.push(format!("join[{tag}]: joining alone already changes the key-package store or the storage"));
    }
    for plan in plans_for(calls.len() as u64, pairs) {
        if plan.len() > 1 {
            out.cover.insert("pair:join".into());
        }
        let mut joined = None;
        for &n in &plan {
            w.fault_arm(d, vec![n]);
            let r = std::panic::catch_unwind(std::panic::AssertUnwindSafe(|| w.members[d].client.join_group(None, wm, None)));
            let fired = w.fault_fired(d);
            count_fired(out, &fired);
            match r {
                Err(_) => out.fails.push(format!("join[{tag}]: panic with fault at call {n}")),
                Ok(Ok((g, _))) => {
                    if !fired.is_empty() {
                        out.fails.push(format!("join[{tag}] succeeded although {} failed", fired.join(",")));
                    }
                    joined = Some(g);
                    break;
                }
                Ok(Err(e)) => {
                    if fired.is_empty() {
                        out.fails.push(format!("join[{tag}] failed without an injected fault: {}", err_class(&e)));
                    } else {
                        out.cover.insert(format!("fault-reported-as:{}", err_class(&e)));
                    }
                    if kp_ids(&w.members[d].h) != kp0 {
                        out.fails.push(format!("join[{tag}]: the join that failed at {} changed the key-package store", fired.join(",")));
                    }
                    if stored_group_count(&w.members[d].h.store) != groups0 || w.members[d].h.store.peek_state(gd.group_id()).is_some() {
                        out.fails.push(format!("join[{tag}]: the join that failed at {} left something in the storage", fired.join(",")));
                    }
                }
            }
        }
        if joined.is_none() {
            w.fault_arm(d, vec![]);
            match w.members[d].client.join_group(None, wm, None) {
                Ok((g, _)) => joined = Some(g),
                Err(e) => out.fails.push(format!("join[{tag}]: retry after fault(s) at {plan:?} ({}) fails: {}", calls[plan[0] as usize - 1], err_class(&e))),
            }
        }
        if let Some(g) = joined {
            let ch = World::<C>::changed(&expected, &comps_relevant(&g.verif_components()));
            if !ch.is_empty() {
                out.fails.push(format!("join[{tag}]: the group joined after fault(s) at {plan:?} differs from the fault-free join in {ch:?}"));
            }
            if kp_ids(&w.members[d].h) != kp0 {
                out.fails.push(format!("join[{tag}]: key-package store after fault(s) at {plan:?} and retry differs from the fault-free join"));
            }
            out.cover.insert("join:compared-with-fault-free".into());
        }
    }
    out.cover.insert(format!("join:calls={}", calls.len().min(9)));
    w.fault_reset(d);
}

/// load_group of member `i`'s written group: the storage read fails -> error; the retry loads the written state.
fn load_sweep<C: MlsConfig>(w: &mut World<C>, i: usize, prefixes: &[&str], pairs: Pairs, out: &mut Out, tag: &str) {
    let name = w.members[i].setup.name.clone();
    let gid = w.group(i).group_id().to_vec();
    let skip = |c: &String| c == "repo_pending_kp_removal" || c == "repo_pending_updates" || c == "repo_pending_inserts";
    let written = w.components(i);
    let st0 = stored(w, i);
    set_prefixes(&w.members[i].h, prefixes);
    w.fault_arm(i, vec![]);
    let dry = w.members[i].client.load_group(&gid);
    let calls = w.fault_log(i);
    out.ops += 1;
    match dry {
        Ok(g) => {
            let ch: Vec<String> = World::<C>::changed(&written, &g.verif_components()).into_iter().filter(|c| !skip(c)).collect();
            if !ch.is_empty() {
                out.fails.push(format!("load[{tag}] by {name}: the loaded group differs from the written one in {ch:?}"));
            }
        }
        Err(e) => {
            out.fails.push(format!("load[{tag}] by {name} fails without fault: {}", err_class(&e)));
            return;
        }
    }
    if !calls.iter().any(|c| c.contains("storage.state")) {
        out.fails.push(format!("nothing to fault in load[{tag}] (calls {calls:?})"));
    }
    out.cover.insert(format!("load:calls={}", calls.iter().map(|c| c.split(':').nth(1).unwrap_or("")).collect::<Vec<_>>().join("+")));
    for plan in plans_for(calls.len() as u64, pairs) {
        if plan.len() > 1 {
            out.cover.insert("pair:load".into());
        }
        let mut loaded = None;
        for &n in &plan {
            w.fault_arm(i, vec![n]);
            let r = std::panic::catch_unwind(std::panic::AssertUnwindSafe(|| w.members[i].client.load_group(&gid)));
            let fired = w.fault_fired(i);
            count_fired(out, &fired);
            match r {
                Err(_) => out.fails.push(format!("load[{tag}] by {name}: panic with fault at call {n}")),
                Ok(Ok(g)) => {
                    if !fired.is_empty() {
                        out.fails.push(format!("load[{tag}] by {name} succeeded although {} failed", fired.join(",")));
                    }
                    loaded = Some(g);
                    break;
                }
                Ok(Err(e)) => {
                    if fired.is_empty() {
                        out.fails.push(format!("load[{tag}] by {name} failed without an injected fault: {}", err_class(&e)));
                    } else {
                        out.cover.insert(format!("fault-reported-as:{}", err_class(&e)));
                    }
                    if stored(w, i) != st0 {
                        out.fails.push(format!("load[{tag}] by {name}: the failed load changed the stored history"));
                    }
                }
            }
        }
        if loaded.is_none() {
            w.fault_arm(i, vec![]);
            match w.members[i].client.load_group(&gid) {
                Ok(g) => loaded = Some(g),
                Err(e) => out.fails.push(format!("load[{tag}] by {name}: retry after fault(s) at {plan:?} fails: {}", err_class(&e))),
            }
        }
        if let Some(g) = loaded {
            let ch: Vec<String> = World::<C>::changed(&written, &g.verif_components()).into_iter().filter(|c| !skip(c)).collect();
            if !ch.is_empty() {
                out.fails.push(format!("load[{tag}] by {name}: the group loaded after fault(s) at {plan:?} differs from the written one in {ch:?}"));
            }
            if stored(w, i) != st0 {
                out.fails.push(format!("load[{tag}] by {name}: loading changed the stored history"));
            }
            out.cover.insert("load:retry-equals-written".into());
        }
    }
    w.fault_reset(i);
}

/// create_group by a new client E, generate_key_package_message by a new client F (then E adds F, F joins: the package made by the
/// retry is a working one), load_group of E's written group.
fn create_sweep<C: MlsConfig>(w: &mut World<C>, mk: Mk<C>, prefixes: &[&str], pairs: Pairs, sqlite: bool, out: &mut Out, tag: &str) {
    let ret = w.members[0].setup.retention;
    let e = new_client(w, mk, "E", sqlite, ret);
    // create: the identity provider is the only provider a creation consults; it is counted here whatever the mode, so that the
    // sweep says which calls a creation makes and fails each of them
    let mut pf: Vec<&str> = prefixes.to_vec();
    if !pf.contains(&"id.") {
        pf.push("id.");
    }
    set_prefixes(&w.members[e].h, &pf);
    w.fault_arm(e, vec![]);
    let dry = w.members[e].client.create_group(Default::default(), Default::default(), None);
    let calls = w.fault_log(e);
    out.ops += 1;
    if let Err(err) = &dry {
        out.fails.push(format!("create[{tag}] fails without fault: {}", err_class(err)));
        return;
    }
    let names: Vec<String> = calls.iter().map(|c| c.split(':').nth(1).unwrap_or("").split(' ').next().unwrap_or("").to_string()).collect();
    out.cover.insert(format!("create:calls={}", if names.is_empty() { "none".to_string() } else { names.join("+") }));
    // which calls: creating a group stores nothing, consumes nothing, needs no PSK
    let app_calls: Vec<&String> = names.iter().filter(|n| !n.starts_with("id.")).collect();
    if !app_calls.is_empty() {
        out.fails.push(format!("create[{tag}] calls the storage / key-package / PSK providers: {app_calls:?}"));
    } else {
        out.cover.insert("no-provider-call:create:storage-kp-psk-untouched".into());
    }
    if calls.is_empty() {
        out.fails.push(format!("nothing to fault in create[{tag}]"));
    }
    let groups0 = stored_group_count(&w.members[e].h.store);
    let mut created = None;
    for plan in plans_for(calls.len() as u64, pairs) {
        if plan.len() > 1 {
            out.cover.insert("pair:create".into());
        }
        let mut got = None;
        for &n in &plan {
            w.fault_arm(e, vec![n]);
            let r = std::panic::catch_unwind(std::panic::AssertUnwindSafe(|| w.members[e].client.create_group(Default::default(), Default::default(), None)));
            let fired = w.fault_fired(e);
            count_fired(out, &fired);
            match r {
                Err(_) => out.fails.push(format!("create[{tag}]: panic with fault at call {n}")),
                Ok(Ok(g)) => {
                    if !fired.is_empty() {
                        out.fails.push(format!("create[{tag}] returned a group although {} failed", fired.join(",")));
                    }
                    got = Some(g);
                    break;
                }
                Ok(Err(err)) => {
                    if fired.is_empty() {
                        out.fails.push(format!("create[{tag}] failed without an injected fault: {}", err_class(&err)));
                    } else {
                        out.cover.insert(format!("fault-reported-as:{}", err_class(&err)));
                    }
                    if stored_group_count(&w.members[e].h.store) != groups0 || !kp_ids(&w.members[e].h).is_empty() {
                        out.fails.push(format!("create[{tag}]: the creation that failed at {} left something in the storage / key-package store", fired.join(",")));
                    }
                }
            }
        }
        if got.is_none() {
            w.fault_arm(e, vec![]);
            match w.members[e].client.create_group(Default::default(), Default::default(), None) {
                Ok(g) => got = Some(g),
                Err(err) => out.fails.push(format!("create[{tag}]: retry after fault(s) at {plan:?} fails: {}", err_class(&err))),
            }
        }
        if let Some(g) = got {
            if g.current_epoch() != 0 || g.roster().members_iter().count() != 1 || g.has_pending_commit() {
                out.fails.push(format!("create[{tag}]: the group created after fault(s) at {plan:?} is not a fresh one-member group"));
            }
            out.cover.insert("create:retry-ok".into());
            created = Some(g);
        }
    }
    w.fault_reset(e);
    let Some(g) = created.or(dry.ok()) else { return };
    w.members[e].group = Some(g);
    // ---- key-package generation by F -------------------------------------------------------------------
    let f = new_client(w, mk, "F", sqlite, ret);
    set_prefixes(&w.members[f].h, prefixes);
    w.fault_arm(f, vec![]);
    let dry = w.members[f].client.generate_key_package_message(Default::default(), Default::default(), None);
    let calls = w.fault_log(f);
    out.ops += 1;
    if dry.is_err() {
        out.fails.push(format!("keygen[{tag}] fails without fault"));
        return;
    }
    if !calls.iter().any(|c| c.contains("kp.insert")) {
        out.fails.push(format!("nothing to fault in keygen[{tag}] (calls {calls:?})"));
    }
    out.cover.insert(format!("keygen:calls={}", calls.iter().map(|c| c.split(':').nth(1).unwrap_or("")).collect::<Vec<_>>().join("+")));
    let mut kp_msg = None;
    for plan in plans_for(calls.len() as u64, pairs) {
        if plan.len() > 1 {
            out.cover.insert("pair:keygen".into());
        }
        let kp0 = kp_ids(&w.members[f].h);
        let mut got = None;
        for &n in &plan {
            w.fault_arm(f, vec![n]);
            let r = std::panic::catch_unwind(std::panic::AssertUnwindSafe(|| w.members[f].client.generate_key_package_message(Default::default(), Default::default(), None)));
            let fired = w.fault_fired(f);
            count_fired(out, &fired);
            match r {
                Err(_) => out.fails.push(format!("keygen[{tag}]: panic with fault at call {n}")),
                Ok(Ok(m)) => {
                    if !fired.is_empty() {
                        out.fails.push(format!("keygen[{tag}] returned a key package although {} failed", fired.join(",")));
                    }
                    got = Some(m);
                    break;
                }
                Ok(Err(err)) => {
                    if fired.is_empty() {
                        out.fails.push(format!("keygen[{tag}] failed without an injected fault: {}", err_class(&err)));
                    } else {
                        out.cover.insert(format!("fault-reported-as:{}", err_class(&err)));
                    }
                    if kp_ids(&w.members[f].h) != kp0 {
                        out.fails.push(format!("keygen[{tag}]: the generation that failed at {} stored something", fired.join(",")));
                    }
                    out.cover.insert("keygen:fault-stores-nothing".into());
                }
            }
        }
        if got.is_none() {
            w.fault_arm(f, vec![]);
            match w.members[f].client.generate_key_package_message(Default::default(), Default::default(), None) {
                Ok(m) => got = Some(m),
                Err(err) => out.fails.push(format!("keygen[{tag}]: retry after fault(s) at {plan:?} fails: {}", err_class(&err))),
            }
        }
        if got.is_some() && kp_ids(&w.members[f].h).len() != kp0.len() + 1 {
            out.fails.push(format!("keygen[{tag}]: after fault(s) at {plan:?} and retry the store holds {} packages, expected {}", kp_ids(&w.members[f].h).len(), kp0.len() + 1));
        }
        kp_msg = got.or(kp_msg);
    }
    w.fault_reset(f);
    // the package made by the retry works: E adds F, F joins
    if let Some(kp) = kp_msg {
        let (r, o) = w.with_group(e, |g| g.commit_builder().add_member(kp)?.build());
        match o {
            Some(o) => {
                w.with_group(e, |g| g.apply_pending_commit());
                match o.welcome_messages.first().map(|wm| w.members[f].client.join_group(None, wm, None)) {
                    Some(Ok((g, _))) => {
                        if g.epoch_authenticator().ok().map(|s| s.as_bytes().to_vec()) != w.group(e).epoch_authenticator().ok().map(|s| s.as_bytes().to_vec()) {
                            out.fails.push(format!("keygen[{tag}]: the joiner disagrees with the group created after a fault"));
                        }
                        out.cover.insert("keygen:retry-package-joins-created-group".into());
                    }
                    other => out.fails.push(format!("keygen[{tag}]: the key package made by the retry cannot join: {:?}", other.map(|r| r.err().map(|e| err_class(&e))))),
                }
            }
            None => out.fails.push(format!("create[{tag}]: the group created after a fault cannot add a member: {}", r.s())),
        }
    }
    // E writes and loads its group
    let (r, _) = w.with_group(e, |g| g.write_to_storage());
    if !r.ok() {
        out.fails.push(format!("create[{tag}]: the created group cannot be written: {}", r.s()));
        return;
    }
    load_sweep(w, e, prefixes, pairs, out, &format!("{tag}-created"));
}

/// write_to_storage mutates the storage.  The subject's group is cloned and its storage / key-package store put back before
/// every attempt, so every run starts from the same member state on the same stored history and the stored BYTES (snapshot and
/// every epoch record) after fault + retry are compared with the fault-free write.
#[allow(clippy::too_many_arguments)]
fn write_sweep<C: MlsConfig>(rng: &mut Rng, mk: Mk<C>, out: &mut Out, prefixes: &[&str], pairs: Pairs, variant: u64, flavor: Flavor, sqlite: bool, tag: &str) {
    let seed = rng.next();
    let build = |seed: u64| -> Option<World<C>> {
        let mut r = Rng::new(seed);
        let sc = scene(&mut r, mk, variant, sqlite, flavor).ok()?;
        let Scene { mut w, commit_for_b, welcome_for_d, proposals, .. } = sc;
        let cm = commit_for_b?;
        for i in 1..3 {
            for (s, p) in &proposals {
                if *s != i {
                    let p = p.clone();
                    w.with_group(i, |g| g.process_incoming_message(p));
                }
            }
        }
        w.with_group(0, |g| g.apply_pending_commit());
        for i in 1..3 {
            let m = cm.clone();
            let (r, _) = w.with_group(i, |g| g.process_incoming_message(m));
            if !r.ok() {
                return None;
            }
        }
        if let Some(wm) = welcome_for_d {
            let (g, _) = w.members[3].client.join_group(None, &wm, None).ok()?;
            w.members[3].group = Some(g);
        }
        Some(w)
    };
    let Some(mut w) = build(seed) else {
        out.fails.push(format!("write-sweep scene {tag} cannot be built"));
        return;
    };
    // subject: member 3 (D) right after joining (its first write also deletes the used key package), or B
    for subject in [1usize, 3] {
        if w.members[subject].group.is_none() {
            continue;
        }
        let base = w.members[subject].group.clone().unwrap();
        let gid = base.group_id().to_vec();
        let env0 = env_snap(&w.members[subject].h, &gid);
        set_prefixes(&w.members[subject].h, prefixes);
        w.fault_arm(subject, vec![]);
        let (r, _) = w.with_group(subject, |g| g.write_to_storage());
        let calls = w.fault_log(subject);
        out.ops += 1;
        if !r.ok() {
            out.fails.push(format!("write[{tag}] by member {subject} fails without fault: {}", r.s()));
            continue;
        }
        if calls.is_empty() {
            out.fails.push(format!("nothing to fault in write[{tag}] by member {subject}"));
        }
        let exp_store = stored(&w, subject);
        let exp_ids: Vec<u64> = exp_store.2.iter().map(|x| x.0).collect();
        let exp_comp = comps_relevant(&w.components(subject));
        let exp_kp = kp_ids(&w.members[subject].h);
        out.cover.insert(format!("write:subject={subject}:calls={}", calls.len()));
        // second fault on the retry: the retry's first call (few) or each of its calls (all)
        let mut plans: Vec<Vec<u64>> = (1..=calls.len() as u64).map(|n| vec![n]).collect();
        for n in 1..=calls.len() as u64 {
            let seconds: Vec<u64> = match pairs {
                Pairs::None => vec![],
                Pairs::Few => vec![1],
                Pairs::All => (1..=calls.len() as u64).collect(),
            };
            for m in seconds {
                plans.push(vec![n, m]);
            }
        }
        for plan in plans {
            if !env_restore(&w.members[subject].h, &env0) {
                out.fails.push(format!("write[{tag}] by member {subject}: harness cannot restore the storage"));
                break;
            }
            w.members[subject].group = Some(base.clone());
            if plan.len() > 1 {
                out.cover.insert("pair:write".into());
            }
            let mut done = false;
            let mut broken = false;
            let mut all_fired: Vec<String> = vec![];
            for &n in &plan {
                let before = comps_relevant(&w.components(subject));
                let stored_before = stored(&w, subject);
                w.fault_arm(subject, vec![n]);
                let (r, _) = w.with_group(subject, |g| g.write_to_storage());
                let fired = w.fault_fired(subject);
                count_fired(out, &fired);
                all_fired.extend(fired.iter().cloned());
                if r.ok() {
                    if !fired.is_empty() {
                        out.fails.push(format!("write[{tag}] by member {subject} succeeded although {} failed", fired.join(",")));
                        broken = true;
                    }
                    done = true;
                    break;
                }
                if fired.is_empty() {
                    out.fails.push(format!("write[{tag}] by member {subject} failed without an injected fault: {}", r.s()));
                    broken = true;
                    break;
                }
                out.cover.insert(format!("fault-reported-as:{}", r.s().trim_start_matches("err:")));
                let after = comps_relevant(&w.components(subject));
                // A storage write that succeeded before the failing call is an external effect that cannot be taken
                // back; the member's list of not-yet-stored epochs then has to reflect it.  So that list is compared
                // together with the storage: every epoch is either stored or still pending, never both, none lost.
                let ch: Vec<String> = World::<C>::changed(&before, &after).into_iter().filter(|c| c != "repo_pending_inserts").collect();
                if !ch.is_empty() {
                    out.fails.push(format!("write[{tag}] by member {subject}: fault at {} changed the member in {:?}", fired.join(","), ch));
                }
                let pend = |c: &[(String, Vec<u8>)]| -> Vec<u64> { comp(c, "repo_pending_inserts").chunks(8).map(|b| u64::from_be_bytes(b.try_into().unwrap())).collect() };
                let (p0, p1) = (pend(&before), pend(&after));
                let st1 = stored(&w, subject);
                let s1: Vec<u64> = st1.2.iter().map(|x| x.0).collect();
                let s0: Vec<u64> = stored_before.2.iter().map(|x| x.0).collect();
                for e in &p0 {
                    let kept = p1.contains(e) as u8 + s1.contains(e) as u8;
                    // an epoch older than the retention window may legitimately be trimmed by the write
                    if kept == 2 {
                        out.fails.push(format!("write[{tag}] by member {subject}: after fault at {} epoch {e} is both stored and still pending", fired.join(",")));
                    }
                    if kept == 0 && s1.iter().all(|x| x < e) {
                        out.fails.push(format!("write[{tag}] by member {subject}: after fault at {} epoch {e} is neither stored nor pending", fired.join(",")));
                    }
                }
                if p1.iter().any(|e| !p0.contains(e)) || (s1 != s0 && p1 == p0) {
                    out.fails.push(format!("write[{tag}] by member {subject}: inconsistent bookkeeping after fault at {}: pending {:?}->{:?}, stored {:?}->{:?}", fired.join(","), p0, p1, s0, s1));
                }
                // a write that failed before the storage accepted anything leaves the stored bytes alone
                if fired.iter().any(|c| c.contains("storage.write")) && st1 != stored_before {
                    out.fails.push(format!("write[{tag}] by member {subject}: the storage refused the write ({}) but the stored bytes changed: {:?}", fired.join(","), stored_diff(&stored_before, &st1)));
                }
            }
            if broken {
                continue;
            }
            if !done {
                w.fault_arm(subject, vec![]);
                let (r2, _) = w.with_group(subject, |g| g.write_to_storage());
                if !r2.ok() {
                    out.fails.push(format!("write[{tag}] by member {subject}: retry after fault at {} fails: {}", all_fired.join(","), r2.s()));
                    continue;
                }
            }
            let fired = all_fired;
            let st = stored(&w, subject);
            let ids: Vec<u64> = st.2.iter().map(|x| x.0).collect();
            if ids != exp_ids || st.1 != exp_store.1 {
                out.fails.push(format!(
                    "write[{tag}] by member {subject}: after fault at {} and retry the stored epochs are {:?} (max {:?}), fault-free run has {:?} (max {:?})",
                    fired.join(","),
                    ids,
                    st.1,
                    exp_ids,
                    exp_store.1
                ));
            } else {
                let d = stored_diff(&exp_store, &st);
                if !d.is_empty() {
                    out.fails.push(format!("write[{tag}] by member {subject}: after fault at {} and retry the stored bytes differ from the fault-free write in {d:?}", fired.join(",")));
                }
                out.cover.insert("written-bytes-compared:write".into());
            }
            // every retained record must be the one written for that id (index arithmetic of the in-memory store)
            for (id, data) in &st.2 {
                match mls_rs::verif::stored::prior_epoch_id(data) {
                    Some((inner, _)) if inner == *id => {}
                    other => out.fails.push(format!(
                        "write[{tag}] by member {subject}: after fault at {} and retry, storage returns for epoch {id} a record of epoch {:?}",
                        fired.join(","),
                        other.map(|x| x.0)
                    )),
                }
            }
            let fin = comps_relevant(&w.components(subject));
            let ch: Vec<String> = World::<C>::changed(&exp_comp, &fin);
            if !ch.is_empty() {
                out.fails.push(format!("write[{tag}] by member {subject}: after fault at {} and retry the member differs from the fault-free run in {:?}", fired.join(","), ch));
            }
            if kp_ids(&w.members[subject].h) != exp_kp {
                out.fails.push(format!("write[{tag}] by member {subject}: key-package store after retry differs from the fault-free run"));
            }
            // one more write must be a no-op on the stored history
            let (r3, _) = w.with_group(subject, |g| g.write_to_storage());
            let st3 = stored(&w, subject);
            let ids3: Vec<u64> = st3.2.iter().map(|x| x.0).collect();
            if !r3.ok() || ids3 != exp_ids {
                out.fails.push(format!("write[{tag}] by member {subject}: a further write after the retry gives {} and epochs {:?} (expected {:?})", r3.s(), ids3, exp_ids));
            } else if st3 != exp_store {
                out.fails.push(format!("write[{tag}] by member {subject}: a further write after the retry changes the stored bytes in {:?}", stored_diff(&exp_store, &st3)));
            }
        }
        w.fault_reset(subject);
    }
    for m in &w.members {
        if let Some(p) = &m.h.sqlite_path {
            let _ = std::fs::remove_file(p);
        }
    }
}

pub fn report(out: &Out, dir: &str, stem: &str) {
    println!("cases {}", out.injected);
    println!("operations {}", out.ops);
    println!("cover {}", out.cover.iter().cloned().collect::<Vec<_>>().join(";"));
    println!("faulted_calls {}", out.by_call.iter().map(|(k, v)| format!("{k}={v}")).collect::<Vec<_>>().join(","));
    println!("oracle_failures {}", out.fails.len());
    std::fs::create_dir_all(dir).ok();
    std::fs::write(format!("{dir}/{stem}.failures"), out.fails.iter().cloned().collect::<Vec<_>>().join("\n")).unwrap();
    std::fs::write(format!("{dir}/{stem}.samples"), out.samples.join("\n")).unwrap();
}

pub fn run(o: &Opts) -> i32 {
    crate::util::quiet_panics();
    let dir = o.str("out", "/verif/work/c15");
    let mut rng = Rng::new(o.seed());
    let mut out = Out { fails: vec![], injected: 0, ops: 0, cover: Default::default(), by_call: Default::default(), samples: vec![], skip_byref_build: o.u64("skip-byref-build", 0) == 1 };
    let mk = |s: &Setup, hd: &Handles, id, sk| mk_client(s, hd, id, sk);
    let variants = o.u64("variants", if o.thorough() { 12 } else { 4 });
    run_sweeps(&mut rng, &mk, &mut out, &["storage.", "kp.", "psk."], if o.thorough() { Pairs::All } else { Pairs::Few }, variants);
    report(&out, &dir, "c15");
    let _ = std::fs::remove_dir_all(&crate::util::scratch("c15"));
    0
}

#[allow(dead_code)]
fn _unused(_: ReceivedMessage) {}

/// C04's provider-error part: the same sweep with the identity provider's calls counted as well; failures are
/// appended to the C04 failure file and the counters are printed with a `faults_` prefix.
pub fn run_c04_faults(o: &Opts) -> i32 {
    let dir = o.str("out", "/verif/work/c04");
    let mut rng = Rng::new(o.seed() ^ 0xC04);
    let mut out = Out { fails: vec![], injected: 0, ops: 0, cover: Default::default(), by_call: Default::default(), samples: vec![], skip_byref_build: o.u64("skip-byref-build", 0) == 1 };
    let mk = |s: &Setup, hd: &Handles, id, sk| mk_client(s, hd, id, sk);
    let variants = o.u64("variants", if o.thorough() { 8 } else { 2 });
    run_sweeps(&mut rng, &mk, &mut out, &["id.", "storage.", "kp.", "psk."], Pairs::None, variants);
    println!("faults_injected {}", out.injected);
    println!("faulted_calls {}", out.by_call.iter().map(|(k, v)| format!("{k}={v}")).collect::<Vec<_>>().join(","));
    println!("fault_oracle_failures {}", out.fails.len());
    use std::io::Write;
    if let Ok(mut f) = std::fs::OpenOptions::new().append(true).open(format!("{dir}/c04.failures")) {
        for l in out.fails.iter() {
            let _ = writeln!(f, "C04: {l}");
        }
    }
    let _ = std::fs::remove_dir_all(&crate::util::scratch("c15"));
    0
}
