//! vharness — drives the real mls-rs crates for the correspondence checks of /verif.
//! One sub-command per property; all randomness from one SplitMix64 seeded by --seed.
mod anyprov;
mod c05;
mod c06;
mod c10;
mod c07;
mod c11;
mod c12;
mod c12types;
mod c13;
mod c14;
mod c15;
mod c16;
mod c17;
mod c18;
mod c20;
mod eks;
mod hist;
mod mutate;
mod providers;
mod world;
mod util;

/// Allocation meter (C12): counts live heap bytes and their peak; a single request above 1 GiB is reported with the
/// current decode case on stderr before the process aborts (such a request can only come from an unchecked length).
pub mod alloc_meter {
    use std::alloc::{GlobalAlloc, Layout, System};
    use std::sync::atomic::{AtomicUsize, Ordering::Relaxed};
    pub struct Meter;
    static CUR: AtomicUsize = AtomicUsize::new(0);
    static PEAK: AtomicUsize = AtomicUsize::new(0);
    static CASE_LEN: AtomicUsize = AtomicUsize::new(0);
    static mut CASE: [u8; 4096] = [0; 4096];
    unsafe impl GlobalAlloc for Meter {
        unsafe fn alloc(&self, l: Layout) -> *mut u8 {
            if l.size() > (1 << 30) {
                use std::io::Write;
                let n = CASE_LEN.load(Relaxed);
                let _ = std::io::stderr().write_all(b"HUGE-ALLOC while decoding: ");
                let _ = std::io::stderr().write_all(&*std::ptr::addr_of!(CASE).cast::<[u8; 4096]>().as_ref().unwrap()[..n].as_ref());
                let _ = std::io::stderr().write_all(b"\n");
                std::process::abort();
            }
            let p = System.alloc(l);
            if !p.is_null() {
                let c = CUR.fetch_add(l.size(), Relaxed) + l.size();
                PEAK.fetch_max(c, Relaxed);
            }
            p
        }
        unsafe fn dealloc(&self, p: *mut u8, l: Layout) {
            CUR.fetch_sub(l.size(), Relaxed);
            System.dealloc(p, l)
        }
    }
    pub fn set_case(name: &str, bytes: &[u8]) {
        let mut s = String::with_capacity(4096);
        s.push_str(name);
        s.push(' ');
        for b in bytes.iter().take(2000) {
            s.push_str(&format!("{b:02x}"));
        }
        let n = s.len().min(4096);
        unsafe {
            std::ptr::addr_of_mut!(CASE).cast::<u8>().copy_from_nonoverlapping(s.as_ptr(), n);
        }
        CASE_LEN.store(n, Relaxed);
    }
    /// returns the baseline (live bytes now) and resets the peak to it
    pub fn start() -> usize {
        let c = CUR.load(Relaxed);
        PEAK.store(c, Relaxed);
        c
    }
    pub fn peak_since(base: usize) -> usize {
        PEAK.load(Relaxed).saturating_sub(base)
    }
}

#[global_allocator]
static METER: alloc_meter::Meter = alloc_meter::Meter;

fn main() {
    let args: Vec<String> = std::env::args().collect();
    if args.len() < 2 {
        eprintln!("usage: vharness <cmd> [--key value]...");
        std::process::exit(2);
    }
    let opts = util::Opts::parse(&args[2..]);
    let rc = match args[1].as_str() {
        "c20" => c20::run(&opts),
        "hist" => hist::run(&opts),
        "c03" => mutate::run(&opts, "C03"),
        "c04m" => mutate::run(&opts, "C04"),
        "c04" => {
            mutate::run(&opts, "C04");
            c15::run_c04_faults(&opts);
            let n = std::fs::read_to_string(format!("{}/c04.failures", opts.str("out", "/verif/work/c04")))
                .map(|s| s.lines().filter(|l| !l.trim().is_empty()).count())
                .unwrap_or(0);
            println!("oracle_failures {n}");
            0
        }
        "c13" => c13::run(&opts),
        "c14" => c14::run(&opts),
        "c15" => c15::run(&opts),
        "c16" => c16::run(&opts),
        "c17" => c17::run(&opts),
        "c18" => c18::run(&opts),
        "c10x" => c10::run(&opts),
        "c11" => c11::run(&opts),
        "c12" => c12::run(&opts),
        "c05" => c05::run(&opts),
        "c06" => c06::run(&opts),
        "c07" => c07::run(&opts),
        other => {
            eprintln!("unknown command {other}");
            2
        }
    };
    std::process::exit(rc);
}
