//! vharness — drives the real mls-rs crates for the correspondence checks of /verif.
//! One sub-command per property; all randomness from one SplitMix64 seeded by --seed.
mod c05;
mod c06;
mod c07;
mod c11;
mod c13;
mod c15;
mod c16;
mod c17;
mod c18;
mod c20;
mod hist;
mod mutate;
mod providers;
mod world;
mod util;

fn main() {
    let args: Vec<String> = std::env::args().collect();
    if args.len() < 2 {
        eprintln!("usage: vharness <cmd> [--key value]...");
        std::process::exit(2);
    }
    let opts = util::Opts::parse(&args[2..]);
    let rc = match args[1].as_str() {
        "c20" => c20::run(&opts),
        "hist" => hist::run(&opts),
        "c03" => mutate::run(&opts, "C03"),
        "c04m" => mutate::run(&opts, "C04"),
        "c04" => {
            mutate::run(&opts, "C04");
            c15::run_c04_faults(&opts);
            let n = std::fs::read_to_string(format!("{}/c04.failures", opts.str("out", "/verif/work/c04")))
                .map(|s| s.lines().filter(|l| !l.trim().is_empty()).count())
                .unwrap_or(0);
            println!("oracle_failures {n}");
            0
        }
        "c13" => c13::run(&opts),
        "c15" => c15::run(&opts),
        "c16" => c16::run(&opts),
        "c17" => c17::run(&opts),
        "c18" => c18::run(&opts),
        "c11" => c11::run(&opts),
        "c05" => c05::run(&opts),
        "c06" => c06::run(&opts),
        "c07" => c07::run(&opts),
        other => {
            eprintln!("unknown command {other}");
            2
        }
    };
    std::process::exit(rc);
}
