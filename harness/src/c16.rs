//! C16: external observers attached to random histories with public handshake messages.  After every
//! commit each observer must hold the members' context, roster and tree; ciphertext admission must follow
//! the epoch window (`adm` rows for the Lean model `External`), for every jitter setting, across
//! snapshot/restore, and nothing may panic.
use crate::hist::*;
use crate::util::{Opts, Rng, QA};
use crate::world::*;
use mls_rs::client_builder::MlsConfig;
use mls_rs::external_client::builder::MlsConfig as ExtConfig;
use mls_rs::external_client::{ExternalClient, ExternalGroup, ExternalReceivedMessage, ExternalSnapshot};
use mls_rs::identity::basic::BasicIdentityProvider;
use mls_rs::group::{CommitEffect, Node, Sender};
use mls_rs::mls_rs_codec::MlsEncode;
use mls_rs::verif::insider::InsiderEdit;
use mls_rs::{MlsMessage, MlsMessageDescription, WireFormat};
use mls_rs_crypto_rustcrypto::RustCryptoProvider;
use std::collections::{BTreeMap, BTreeSet};

fn ext_client(jitter: Option<u64>, cache: bool) -> ExternalClient<impl ExtConfig> {
    // `cache == false`: the application keeps the proposals and inserts them by hand (ExternalGroup::insert_proposal_from_message)
    // `cache == true` is the documented default of the builder: it is left unset, so that the default itself is under test
    let b = ExternalClient::builder().crypto_provider(RustCryptoProvider::default()).identity_provider(BasicIdentityProvider);
    let b = if cache { b } else { b.cache_proposals(false) };
    match jitter {
        Some(j) => b.max_epoch_jitter(j).build(),
        None => b.max_epoch_jitter(u64::MAX).build(), // same type; None is modelled by a separate flag below
    }
}

struct Obs<E: ExtConfig> {
    client: ExternalClient<E>,
    group: ExternalGroup<E>,
    jitter: u64,
    lost: bool,
    /// built with cache_proposals(false): proposals are inserted by the tap
    manual: bool,
    /// (message index, snapshot of the observer's group before that commit was delivered): the probes work on groups loaded from it
    pre: Option<(usize, ExternalSnapshot)>,
    /// kinds of the proposals the last commit applied, as this observer reported them
    applied: Vec<&'static str>,
}

/// what the observer has to do with a probe message
#[derive(Clone, Copy, PartialEq)]
enum Expect {
    Reject,
    Accept,
    /// not decidable without the group's secrets (confirmation tag, ciphertexts): recorded only
    Either,
}

pub struct ObsTap<'q, E: ExtConfig, C: MlsConfig> {
    obs: Vec<Obs<E>>,
    mk: &'q dyn Fn(Option<u64>, bool) -> ExternalClient<E>,
    qa: &'q mut QA,
    old_apps: Vec<usize>,
    /// an application ciphertext of ANOTHER group (the previous history) and its epoch
    foreign: Option<(mls_rs::MlsMessage, u64)>,
    pub attached: u64,
    pub compared: u64,
    pub restored: u64,
    pub deliveries: u64,
    /// generator of the probes: the history's own generator is left alone, so that histories and rows stay what they were
    xrng: Rng,
    /// the members' groups as of the last commit: the next committer re-signs edited versions of its commit with them
    prev: BTreeMap<String, mls_rs::Group<C>>,
    /// public handshake messages of this history (indices into `w.msgs`)
    old_hs: Vec<usize>,
    pub probes: u64,
    pub cover: BTreeSet<String>,
}

fn fail(what: String) -> Failure {
    Failure { prop: "C16", what, at_op: 0 }
}

impl<'q, C: MlsConfig, E: ExtConfig> Tap<C> for ObsTap<'q, E, C> {
    fn broadcast(&mut self, w: &World<C>, mi: usize, rng: &mut Rng) -> Vec<Failure> {
        let mut out = vec![];
        let m = &w.msgs[mi];
        let mut to_send = vec![mi];
        if (m.kind == "commit" || m.kind == "proposal") && m.msg.wire_format() == WireFormat::PublicMessage {
            self.old_hs.push(mi);
        }
        if m.kind == "commit" {
            for o in self.obs.iter_mut().filter(|o| !o.lost) {
                o.pre = Some((mi, o.group.snapshot()));
                o.applied.clear();
            }
        }
        if m.kind == "app" {
            self.old_apps.push(mi);
            // also replay some older ciphertexts to probe the window
            for _ in 0..2 {
                if self.old_apps.len() > 1 {
                    to_send.push(*rng.pick(&self.old_apps));
                }
            }
        }
        for o in self.obs.iter_mut().filter(|o| !o.lost) {
            for &k in &to_send {
                let msg = w.msgs[k].msg.clone();
                let kind = w.msgs[k].kind;
                let obs_epoch = o.group.group_context().epoch;
                let r = std::panic::catch_unwind(std::panic::AssertUnwindSafe(|| o.group.process_incoming_message(msg)));
                self.deliveries += 1;
                match r {
                    Err(_) => out.push(fail(format!("observer (jitter {}) panicked on m{k} ({kind}) at epoch {obs_epoch}", o.jitter))),
                    Ok(res) => {
                        let ok = res.is_ok();
                        match kind {
                            "app" => {
                                self.qa.put(
                                    &format!("adm {obs_epoch} {} 1 {} app", o.jitter, w.msgs[k].epoch),
                                    if ok { "ok" } else { "err" },
                                );
                                if let Ok(x) = &res {
                                    if !matches!(x, ExternalReceivedMessage::Ciphertext(_)) {
                                        out.push(fail(format!("observer returned something else than Ciphertext for application message m{k}")));
                                    }
                                }
                            }
                            "proposal" | "commit" => {
                                if let Ok(ExternalReceivedMessage::Commit(d)) = &res {
                                    if let CommitEffect::NewEpoch(n) = &d.effect {
                                        o.applied = n.applied_proposals.iter().map(|p| proposal_kind(&p.proposal)).collect();
                                    }
                                }
                                if ok && kind == "proposal" && o.manual {
                                    // the application-side cache of an observer that does not cache on its own: either the
                                    // description returned by the observer itself, or the raw message
                                    match (res.as_ref().ok(), o.jitter % 2 == 0) {
                                        (Some(ExternalReceivedMessage::Proposal(desc)), true) => o.group.insert_proposal(desc.clone().cached_proposal()),
                                        _ => {
                                            if o.group.insert_proposal_from_message(w.msgs[k].msg.clone()).is_err() {
                                                out.push(fail(format!("observer cannot insert the proposal m{k} it just validated")));
                                            }
                                        }
                                    }
                                }
                                if !ok && w.msgs[k].epoch == obs_epoch {
                                    out.push(fail(format!(
                                        "observer rejected the {kind} m{k} that the members accept: {}",
                                        res.err().map(|e| err_class(&e)).unwrap_or_default()
                                    )));
                                    o.lost = true;
                                }
                            }
                            _ => {}
                        }
                    }
                }
            }
        }
        out
    }

    fn after_commit(&mut self, w: &World<C>, active: &[usize], cmi: usize, rng: &mut Rng) -> Vec<Failure> {
        let mut out = vec![];
        let Some(&a) = active.first() else { return out };
        let g = w.group(a);
        let ctx = g.context().mls_encode_to_vec().unwrap();
        let tree = g.export_tree().to_bytes().unwrap();
        let roster: Vec<(u32, Vec<u8>)> = g.roster().members_iter().map(|m| (m.index, m.signing_identity.signature_key.to_vec())).collect();
        for o in self.obs.iter_mut().filter(|o| !o.lost) {
            self.compared += 1;
            if o.group.group_context().mls_encode_to_vec().unwrap() != ctx {
                out.push(fail(format!("observer's group context differs from the members' after m{cmi}")));
                o.lost = true;
                continue;
            }
            if o.group.export_tree().unwrap_or_default() != tree {
                out.push(fail(format!("observer's ratchet tree differs from the members' after m{cmi}")));
            }
            let r: Vec<(u32, Vec<u8>)> = o.group.roster().members_iter().map(|m| (m.index, m.signing_identity.signature_key.to_vec())).collect();
            if r != roster {
                out.push(fail(format!("observer's roster differs from the members' after m{cmi}")));
            }
            // proposals are bound to their epoch: after the commit the observer's cache equals the members' (empty)
            let member_cached = g.verif_cached_proposals_in_bundle_order().len();
            let obs_cached = o.group.get_cached_proposals().len();
            if obs_cached != member_cached {
                out.push(fail(format!(
                    "observer ({}) holds {obs_cached} cached proposals after m{cmi}, the members hold {member_cached}",
                    if o.manual { "application-side cache" } else { "own cache" }
                )));
            }
            // snapshot / restore
            if rng.chance(1, 4) {
                let bytes = o.group.snapshot().to_bytes().unwrap();
                match ExternalSnapshot::from_bytes(&bytes).and_then(|s| o.client.load_group(s)) {
                    Ok(g2) => {
                        if g2.group_context().mls_encode_to_vec().unwrap() != ctx || g2.export_tree().unwrap_or_default() != tree {
                            out.push(fail(format!("observer restored from its snapshot differs (after m{cmi})")));
                        }
                        o.group = g2;
                        self.restored += 1;
                    }
                    Err(e) => out.push(fail(format!("observer snapshot does not load: {}", err_class(&e)))),
                }
            }
        }
        // a ciphertext of another group: refused for its group id whatever the window (`adm … 0 …` rows)
        if let Some((fm, fe)) = self.foreign.clone() {
            if rng.chance(1, 3) {
                for o in self.obs.iter_mut().filter(|o| !o.lost) {
                    let obs_epoch = o.group.group_context().epoch;
                    let r = std::panic::catch_unwind(std::panic::AssertUnwindSafe(|| o.group.process_incoming_message(fm.clone())));
                    self.deliveries += 1;
                    match r {
                        Err(_) => out.push(fail("observer panicked on a ciphertext of another group".into())),
                        Ok(res) => {
                            self.qa.put(&format!("adm {obs_epoch} {} 0 {fe} app priv", o.jitter), if res.is_ok() { "ok" } else { "err" });
                            if res.is_ok() {
                                out.push(fail("observer admitted a ciphertext of another group".into()));
                            }
                        }
                    }
                }
            }
        }
        // application content framed as a PublicMessage, signed and MACed by a current member (insider): the wire-format test of
        // `check_metadata` is then the only thing that stops it, for observers and members alike
        if rng.chance(1, 2) {
            if let Ok(pm) = g.verif_public_application_message(b"plain".to_vec(), vec![]) {
                let epoch = g.current_epoch();
                for o in self.obs.iter_mut().filter(|o| !o.lost) {
                    let obs_epoch = o.group.group_context().epoch;
                    let r = std::panic::catch_unwind(std::panic::AssertUnwindSafe(|| o.group.process_incoming_message(pm.clone())));
                    self.deliveries += 1;
                    match r {
                        Err(_) => out.push(fail("observer panicked on application content in a PublicMessage".into())),
                        Ok(res) => {
                            self.qa.put(&format!("adm {obs_epoch} {} 1 {epoch} app pub", o.jitter), if res.is_ok() { "ok" } else { "err" });
                            if res.is_ok() {
                                out.push(fail(format!("observer (jitter {}) accepted application content sent as a PublicMessage", o.jitter)));
                            }
                        }
                    }
                }
                for &m in active.iter().skip(1).take(2) {
                    let mut gm = w.group(m).clone();
                    let me = gm.current_epoch();
                    let r = gm.process_incoming_message(pm.clone());
                    self.qa.put(&format!("adm {me} - 1 {epoch} app pub"), if r.is_ok() { "ok" } else { "err" });
                    if r.is_ok() {
                        out.push(fail("a member accepted application content sent as a PublicMessage".into()));
                    }
                }
            }
        }
        // attach a new observer at this epoch
        if self.obs.len() < 6 && rng.chance(1, 2) {
            let epoch = g.current_epoch();
            let jitter = match rng.below(9) {
                0 => 0,
                1 => 1,
                2 => 2,
                3 => epoch.saturating_sub(1),
                4 => epoch,
                5 => epoch + 1,
                6 => 1 << 63,
                7 => u64::MAX,
                _ => rng.below(6),
            };
            let manual = rng.chance(1, 3);
            let client = (self.mk)(Some(jitter), !manual);
            match g.group_info_message_allowing_ext_commit(true) {
                Ok(gi) => match std::panic::catch_unwind(std::panic::AssertUnwindSafe(|| client.observe_group(gi, None, None))) {
                    Ok(Ok(group)) => {
                        self.obs.push(Obs { client, group, jitter, lost: false, manual, pre: None, applied: vec![] });
                        self.attached += 1;
                    }
                    Ok(Err(e)) => out.push(fail(format!("observer cannot start from the members' GroupInfo of epoch {epoch}: {}", err_class(&e)))),
                    Err(_) => out.push(fail("observe_group panicked".into())),
                },
                Err(e) => out.push(fail(format!("member cannot export group info: {}", err_class(&e)))),
            }
        }
        out.extend(self.probe(w, active, cmi));
        // the members as they are now: whoever commits next re-signs with its copy
        self.prev.clear();
        for &i in active {
            self.prev.insert(w.members[i].setup.name.clone(), w.group(i).clone());
        }
        out
    }
}

fn unchanged<E: ExtConfig>(a: &ExternalGroup<E>, b: &ExternalGroup<E>) -> bool {
    a.group_context().mls_encode_to_vec().ok() == b.group_context().mls_encode_to_vec().ok()
        && a.export_tree().ok() == b.export_tree().ok()
        && a.get_cached_proposals().len() == b.get_cached_proposals().len()
}

/// One bit of the signature of a public handshake message flipped.  The message ends with the signature, the confirmation tag
/// (commits) and the membership tag (member senders); the tags are `nh` bytes long.
fn flip_signature_bit(rng: &mut Rng, m: &MlsMessage, nh: usize, is_commit: bool) -> Option<MlsMessage> {
    let b = m.to_bytes().ok()?;
    let member = matches!(m.description(), MlsMessageDescription::PublicProtocolMessage { sender: Sender::Member(_), .. });
    let tag = nh + if nh < 64 { 1 } else { 2 };
    let tail = tag * (is_commit as usize + member as usize);
    if b.len() < tail + 64 {
        return None;
    }
    // every signature of the seven suites is longer than 32 bytes
    let pos = b.len() - tail - 1 - rng.below(32) as usize;
    let mut b2 = b.clone();
    b2[pos] ^= 1 << rng.below(8);
    let m2 = MlsMessage::from_bytes(&b2).ok()?;
    (m2.to_bytes().ok()? == b2).then_some(m2)
}

impl<'q, E: ExtConfig, C: MlsConfig> ObsTap<'q, E, C> {
    /// Deliveries to COPIES of the observers' groups (the observers themselves and the row stream are not touched): what the
    /// committer of `cmi` could have sent instead (its commit re-signed after a structural edit), a flipped signature, messages
    /// of earlier epochs.  Whatever members refuse on grounds that need no secret must be refused, nothing may panic, and a
    /// refusal leaves the copy as it was.
    fn probe(&mut self, w: &World<C>, active: &[usize], cmi: usize) -> Vec<Failure> {
        let mut out = vec![];
        let Some(&a) = active.first() else { return out };
        let ga = w.group(a);
        let msg = &w.msgs[cmi];
        if msg.msg.wire_format() != WireFormat::PublicMessage {
            return out;
        }
        let new_ctx = ga.context().mls_encode_to_vec().unwrap();
        let new_tree = ga.export_tree().to_bytes().unwrap();
        let nh = ga.context().tree_hash.len();
        let mut chosen: Vec<usize> = (0..self.obs.len()).filter(|&i| !self.obs[i].lost && matches!(&self.obs[i].pre, Some((m, _)) if *m == cmi)).collect();
        while chosen.len() > 2 {
            let k = self.xrng.below(chosen.len() as u64) as usize;
            chosen.remove(k);
        }
        if chosen.is_empty() {
            return out;
        }
        // ---- messages for an observer that has not seen the commit yet ------------------------------------------------------
        let mut vars: Vec<(String, MlsMessage, Expect)> = vec![];
        let member_sender = matches!(msg.msg.description(), MlsMessageDescription::PublicProtocolMessage { sender: Sender::Member(_), .. });
        let pc = self.prev.get(&msg.from).filter(|g| g.current_epoch() == msg.epoch && member_sender);
        if let Some(pc) = pc {
            let cleaf = pc.current_member_index();
            let has_path = msg.msg.commit_path_leaf_node().is_some();
            // number of update-path nodes: the nodes of the committer's direct path that are not filtered out
            let plen = if has_path { ga.verif_filtered_direct_path(cleaf).map(|f| f.iter().filter(|x| !**x).count()).unwrap_or(0) } else { 0 };
            // HPKE key of another leaf of the new tree (a member that stays, or one the commit adds)
            let foreign: Option<Vec<u8>> = ga.export_tree().nodes().iter().enumerate().find_map(|(i, n)| match n {
                Some(Node::Leaf(l)) if i != 2 * cleaf as usize => Some(l.public_key.to_vec()),
                _ => None,
            });
            let own_old: Option<Vec<u8>> = match pc.export_tree().nodes().get(2 * cleaf as usize) {
                Some(Some(Node::Leaf(l))) => Some(l.public_key.to_vec()),
                _ => None,
            };
            let fresh: Vec<u8> = {
                use mls_rs::{CipherSuite, CipherSuiteProvider, CryptoProvider};
                RustCryptoProvider::default().cipher_suite_provider(CipherSuite::from(1u16)).unwrap().kem_generate().unwrap().1.to_vec()
            };
            let mut edits: Vec<(String, InsiderEdit, Expect)> = vec![("resign-only".into(), InsiderEdit::Nothing, Expect::Accept), ("confirmation-tag".into(), InsiderEdit::SetConfirmationTag(self.xrng.bytes(nh)), Expect::Either)];
            if has_path {
                // the observer reports what the genuine commit applied: the path may be omitted only over Adds / PSKs
                let applied = &self.obs[chosen[0]].applied;
                let required = applied.is_empty() || applied.iter().any(|k| ["update", "remove", "extinit", "gce"].contains(k));
                let optional = !applied.is_empty() && applied.iter().all(|k| ["add", "psk"].contains(k));
                edits.push(("remove-path".into(), InsiderEdit::RemovePath, if required { Expect::Reject } else { Expect::Either }));
                self.cover.insert(format!("insider:remove-path:path-required={}:optional={}", required as u8, optional as u8));
                if let Some(k) = &foreign {
                    edits.push(("leaf-foreign-key-stale-signature".into(), InsiderEdit::SetLeafKey(k.clone()), Expect::Reject));
                    edits.push(("leaf-duplicate-key-resigned".into(), InsiderEdit::SetLeafKeyResigned(k.clone()), Expect::Reject));
                }
                if let Some(k) = &own_old {
                    edits.push(("leaf-keeps-old-key-resigned".into(), InsiderEdit::SetLeafKeyResigned(k.clone()), Expect::Reject));
                }
            }
            if has_path && plen >= 1 {
                edits.push(("path-empty".into(), InsiderEdit::TruncatePath(0), Expect::Reject));
                edits.push(("path-empty-consistent".into(), InsiderEdit::TruncatePathConsistent(0), Expect::Reject));
                if plen >= 2 {
                    edits.push(("path-short".into(), InsiderEdit::TruncatePath(plen - 1), Expect::Reject));
                    edits.push(("path-short-consistent".into(), InsiderEdit::TruncatePathConsistent(plen - 1), Expect::Reject));
                }
                edits.push(("path-long".into(), InsiderEdit::ExtendPath, Expect::Reject));
                edits.push(("parent-hash-empty".into(), InsiderEdit::SetLeafParentHash(Some(vec![]), 0), Expect::Reject));
                edits.push(("parent-hash-prefix".into(), InsiderEdit::SetLeafParentHash(None, 16), Expect::Reject));
                edits.push(("parent-hash-other".into(), InsiderEdit::SetLeafParentHash(Some(self.xrng.bytes(nh)), 0), Expect::Reject));
                edits.push(("path-fresh-key-first".into(), InsiderEdit::SetPathKey(0, fresh.clone()), Expect::Reject));
                edits.push(("path-fresh-key-last".into(), InsiderEdit::SetPathKey(plen - 1, fresh), Expect::Reject));
                if let Some(k) = &foreign {
                    edits.push(("path-foreign-key".into(), InsiderEdit::SetPathKey(self.xrng.below(plen as u64) as usize, k.clone()), Expect::Reject));
                }
                edits.push(("drop-ciphertexts".into(), InsiderEdit::DropCiphertexts(self.xrng.below(plen as u64) as usize), Expect::Either));
            }
            self.cover.insert(format!("insider:commit:path={}:nodes={}", has_path as u8, plen.min(3)));
            for (label, e, x) in edits {
                match std::panic::catch_unwind(std::panic::AssertUnwindSafe(|| pc.verif_resign_commit(&msg.msg, &e))) {
                    Ok(Ok(m2)) => vars.push((format!("insider:{label}"), m2, x)),
                    Ok(Err(err)) => {
                        self.cover.insert(format!("insider:{label}:not-built:{}", err_class(&err)));
                    }
                    Err(_) => {
                        self.cover.insert(format!("insider:{label}:not-built:panic-in-hook"));
                    }
                }
            }
        } else {
            self.cover.insert(format!("insider:none:{}", if member_sender { "no-copy-of-the-committer" } else { "external-commit" }));
        }
        match flip_signature_bit(&mut self.xrng, &msg.msg, nh, true) {
            Some(m2) => vars.push(("signature-bit".into(), m2, Expect::Reject)),
            None => {
                self.cover.insert("signature-bit:not-built".into());
            }
        }
        // ---- messages of earlier epochs, for the observer as it is now ------------------------------------------------------
        let mut stale: Vec<usize> = vec![cmi];
        let older: Vec<usize> = self.old_hs.iter().copied().filter(|&k| k != cmi && w.msgs[k].epoch < msg.epoch + 1).collect();
        for _ in 0..2 {
            if !older.is_empty() {
                stale.push(*self.xrng.pick(&older));
            }
        }
        for &oi in &chosen {
            let jitter = self.obs[oi].jitter;
            let Some((_, pre_snap)) = self.obs[oi].pre.clone() else { continue };
            let Ok(pre) = self.obs[oi].client.load_group(pre_snap.clone()) else {
                out.push(fail(format!("observer (jitter {jitter}): the snapshot taken before m{cmi} does not load")));
                continue;
            };
            for (label, m2, x) in &vars {
                let Ok(mut g) = self.obs[oi].client.load_group(pre_snap.clone()) else { continue };
                self.probes += 1;
                match std::panic::catch_unwind(std::panic::AssertUnwindSafe(|| g.process_incoming_message(m2.clone()))) {
                    Err(_) => out.push(fail(format!("observer (jitter {jitter}) panicked on {label} of m{cmi}"))),
                    Ok(Ok(_)) => {
                        self.cover.insert(format!("{label}:accepted"));
                        if *x == Expect::Reject {
                            out.push(fail(format!("observer (jitter {jitter}) accepted {label} of the commit m{cmi} ({})", msg.note)));
                        }
                        if *x == Expect::Accept && (g.group_context().mls_encode_to_vec().unwrap() != new_ctx || g.export_tree().unwrap_or_default() != new_tree) {
                            out.push(fail(format!("observer (jitter {jitter}) accepted {label} of m{cmi} but does not hold the members' state")));
                        }
                    }
                    Ok(Err(e)) => {
                        self.cover.insert(format!("{label}:rejected:{}", err_class(&e)));
                        if *x == Expect::Accept {
                            out.push(fail(format!("observer (jitter {jitter}) rejected {label} of m{cmi}, which is the members' commit signed again: {}", err_class(&e))));
                        }
                        if !unchanged(&g, &pre) {
                            out.push(fail(format!("observer (jitter {jitter}) rejected {label} of m{cmi} ({}) but its context, tree or proposal cache changed", err_class(&e))));
                        }
                    }
                }
            }
            let cur_snap = self.obs[oi].group.snapshot();
            let Ok(cur) = self.obs[oi].client.load_group(cur_snap.clone()) else {
                out.push(fail(format!("observer (jitter {jitter}): the snapshot taken after m{cmi} does not load")));
                continue;
            };
            for &k in &stale {
                let kind = w.msgs[k].kind;
                let Ok(mut g) = self.obs[oi].client.load_group(cur_snap.clone()) else { continue };
                self.probes += 1;
                match std::panic::catch_unwind(std::panic::AssertUnwindSafe(|| g.process_incoming_message(w.msgs[k].msg.clone()))) {
                    Err(_) => out.push(fail(format!("observer (jitter {jitter}) panicked on the stale {kind} m{k}"))),
                    Ok(Ok(_)) => out.push(fail(format!("observer (jitter {jitter}) at epoch {} accepted the {kind} m{k} of epoch {}", cur.group_context().epoch, w.msgs[k].epoch))),
                    Ok(Err(e)) => {
                        self.cover.insert(format!("stale-{kind}:rejected:{}", err_class(&e)));
                        if !unchanged(&g, &cur) {
                            out.push(fail(format!("observer (jitter {jitter}) rejected the stale {kind} m{k} but its context, tree or proposal cache changed")));
                        }
                    }
                }
            }
        }
        // the copies are of no use after this commit
        for o in self.obs.iter_mut() {
            o.pre = None;
        }
        out
    }
}

pub fn run(o: &Opts) -> i32 {
    crate::util::quiet_panics();
    let dir = o.str("out", "/verif/work/c16");
    std::fs::create_dir_all(&dir).ok();
    let n = o.u64("histories", if o.thorough() { 300 } else { 25 });
    let mut prof = Profile::default_mix();
    prof.public_handshake = true;
    prof.p_reload = 30;
    let mut qa = QA::create(&dir, "c16");
    let mut seedgen = Rng::new(o.seed());
    let mut total = Report::default();
    let mut failing = vec![];
    let (mut attached, mut compared, mut restored, mut deliveries) = (0, 0, 0, 0);
    let mut probes = 0u64;
    let mut probe_cover: BTreeSet<String> = Default::default();
    // window rows that do not depend on a history: boundaries around every jitter / epoch combination
    let mut foreign: Option<(mls_rs::MlsMessage, u64)> = None;
    for h in 0..n {
        let hseed = seedgen.next();
        let mkc = |s: &Setup, hd: &Handles, id, sk| mk_client(s, hd, id, sk);
        let mke = |j: Option<u64>, cache: bool| ext_client(j, cache);
        let mut tap = ObsTap {
            obs: vec![],
            mk: &mke,
            qa: &mut qa,
            old_apps: vec![],
            foreign: foreign.clone(),
            attached: 0,
            compared: 0,
            restored: 0,
            deliveries: 0,
            xrng: Rng::new(hseed ^ 0xC16C_16C1_6C16_C16C),
            prev: Default::default(),
            old_hs: vec![],
            probes: 0,
            cover: Default::default(),
        };
        let mut treeqa = QA::create(&dir, "c16-tree");
        {
            let mut hist = Hist {
                w: new_world(Default::default(), &crate::util::scratch("c16")),
                rng: Rng::new(hseed),
                prof: prof.clone(),
                rep: Report::default(),
                mk: &mkc,
                next_name: 0,
                pending_bad_caps: 0,
                bad_kp_ids: vec![],
                forgers: vec![],
                zombies: vec![],
                tree_qa: Some(&mut treeqa),
                filter_qa: None,
                tap: Some(&mut tap),
                kps: vec![],
                last_commit_epoch_ok: true,
            };
            hist.run();
            let rep = std::mem::take(&mut hist.rep);
            let oplog = std::mem::take(&mut hist.w.oplog);
            if let Some(m) = hist.w.msgs.iter().rev().find(|m| m.kind == "app") {
                foreign = Some((m.msg.clone(), m.epoch));
            }
            let rel: Vec<&Failure> = rep.failures.iter().filter(|f| f.prop == "C16").collect();
            if !rel.is_empty() && failing.len() < 5 {
                let mut l = vec![format!("history {h} seed {hseed}")];
                l.extend(oplog.iter().cloned());
                for f in &rel {
                    l.push(format!("FAIL {}: {}", f.prop, f.what));
                }
                failing.push((hseed, l));
            }
            if h < 2 {
                total.samples.push(oplog.iter().take(20).cloned().collect::<Vec<_>>().join(" ; "));
            }
            total.failures.extend(rep.failures);
            total.commits += rep.commits;
            total.cover.extend(rep.cover);
            for (k, v) in rep.ops {
                *total.ops.entry(k).or_default() += v;
            }
            for (k, v) in rep.results {
                *total.results.entry(k).or_default() += v;
            }
        }
        treeqa.finish();
        attached += tap.attached;
        compared += tap.compared;
        restored += tap.restored;
        deliveries += tap.deliveries;
        probes += tap.probes;
        probe_cover.extend(std::mem::take(&mut tap.cover));
    }
    let rows = qa.finish();
    let focus = ["C16"];
    print_report(&total, &failing, &focus, &dir, "c16");
    println!("rows {rows}");
    println!("observers {attached}");
    println!("comparisons {compared}");
    println!("restores {restored}");
    println!("deliveries {deliveries}");
    println!("probes {probes}");
    println!("probe_cover {}", probe_cover.iter().cloned().collect::<Vec<_>>().join(";"));
    let _ = std::fs::remove_dir_all(&crate::util::scratch("c16"));
    0
}
