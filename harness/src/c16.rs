//! C16: external observers attached to random histories with public handshake messages.  After every
//! commit each observer must hold the members' context, roster and tree; ciphertext admission must follow
//! the epoch window (`adm` rows for the Lean model `External`), for every jitter setting, across
//! snapshot/restore, and nothing may panic.
use crate::hist::*;
use crate::util::{Opts, Rng, QA};
use crate::world::*;
use mls_rs::client_builder::MlsConfig;
use mls_rs::external_client::builder::MlsConfig as ExtConfig;
use mls_rs::external_client::{ExternalClient, ExternalGroup, ExternalReceivedMessage, ExternalSnapshot};
use mls_rs::identity::basic::BasicIdentityProvider;
use mls_rs::mls_rs_codec::MlsEncode;
use mls_rs_crypto_rustcrypto::RustCryptoProvider;

fn ext_client(jitter: Option<u64>, cache: bool) -> ExternalClient<impl ExtConfig> {
    // `cache == false`: the application keeps the proposals and inserts them by hand (ExternalGroup::insert_proposal_from_message)
    // `cache == true` is the documented default of the builder: it is left unset, so that the default itself is under test
    let b = ExternalClient::builder().crypto_provider(RustCryptoProvider::default()).identity_provider(BasicIdentityProvider);
    let b = if cache { b } else { b.cache_proposals(false) };
    match jitter {
        Some(j) => b.max_epoch_jitter(j).build(),
        None => b.max_epoch_jitter(u64::MAX).build(), // same type; None is modelled by a separate flag below
    }
}

struct Obs<E: ExtConfig> {
    client: ExternalClient<E>,
    group: ExternalGroup<E>,
    jitter: u64,
    lost: bool,
    /// built with cache_proposals(false): proposals are inserted by the tap
    manual: bool,
}

pub struct ObsTap<'q, E: ExtConfig> {
    obs: Vec<Obs<E>>,
    mk: &'q dyn Fn(Option<u64>, bool) -> ExternalClient<E>,
    qa: &'q mut QA,
    old_apps: Vec<usize>,
    /// an application ciphertext of ANOTHER group (the previous history) and its epoch
    foreign: Option<(mls_rs::MlsMessage, u64)>,
    pub attached: u64,
    pub compared: u64,
    pub restored: u64,
    pub deliveries: u64,
}

fn fail(what: String) -> Failure {
    Failure { prop: "C16", what, at_op: 0 }
}

impl<'q, C: MlsConfig, E: ExtConfig> Tap<C> for ObsTap<'q, E> {
    fn broadcast(&mut self, w: &World<C>, mi: usize, rng: &mut Rng) -> Vec<Failure> {
        let mut out = vec![];
        let m = &w.msgs[mi];
        let mut to_send = vec![mi];
        if m.kind == "app" {
            self.old_apps.push(mi);
            // also replay some older ciphertexts to probe the window
            for _ in 0..2 {
                if self.old_apps.len() > 1 {
                    to_send.push(*rng.pick(&self.old_apps));
                }
            }
        }
        for o in self.obs.iter_mut().filter(|o| !o.lost) {
            for &k in &to_send {
                let msg = w.msgs[k].msg.clone();
                let kind = w.msgs[k].kind;
                let obs_epoch = o.group.group_context().epoch;
                let r = std::panic::catch_unwind(std::panic::AssertUnwindSafe(|| o.group.process_incoming_message(msg)));
                self.deliveries += 1;
                match r {
                    Err(_) => out.push(fail(format!("observer (jitter {}) panicked on m{k} ({kind}) at epoch {obs_epoch}", o.jitter))),
                    Ok(res) => {
                        let ok = res.is_ok();
                        match kind {
                            "app" => {
                                self.qa.put(
                                    &format!("adm {obs_epoch} {} 1 {} app", o.jitter, w.msgs[k].epoch),
                                    if ok { "ok" } else { "err" },
                                );
                                if let Ok(x) = &res {
                                    if !matches!(x, ExternalReceivedMessage::Ciphertext(_)) {
                                        out.push(fail(format!("observer returned something else than Ciphertext for application message m{k}")));
                                    }
                                }
                            }
                            "proposal" | "commit" => {
                                if ok && kind == "proposal" && o.manual {
                                    // the application-side cache of an observer that does not cache on its own: either the
                                    // description returned by the observer itself, or the raw message
                                    match (res.as_ref().ok(), o.jitter % 2 == 0) {
                                        (Some(ExternalReceivedMessage::Proposal(desc)), true) => o.group.insert_proposal(desc.clone().cached_proposal()),
                                        _ => {
                                            if o.group.insert_proposal_from_message(w.msgs[k].msg.clone()).is_err() {
                                                out.push(fail(format!("observer cannot insert the proposal m{k} it just validated")));
                                            }
                                        }
                                    }
                                }
                                if !ok && w.msgs[k].epoch == obs_epoch {
                                    out.push(fail(format!(
                                        "observer rejected the {kind} m{k} that the members accept: {}",
                                        res.err().map(|e| err_class(&e)).unwrap_or_default()
                                    )));
                                    o.lost = true;
                                }
                            }
                            _ => {}
                        }
                    }
                }
            }
        }
        out
    }

    fn after_commit(&mut self, w: &World<C>, active: &[usize], cmi: usize, rng: &mut Rng) -> Vec<Failure> {
        let mut out = vec![];
        let Some(&a) = active.first() else { return out };
        let g = w.group(a);
        let ctx = g.context().mls_encode_to_vec().unwrap();
        let tree = g.export_tree().to_bytes().unwrap();
        let roster: Vec<(u32, Vec<u8>)> = g.roster().members_iter().map(|m| (m.index, m.signing_identity.signature_key.to_vec())).collect();
        for o in self.obs.iter_mut().filter(|o| !o.lost) {
            self.compared += 1;
            if o.group.group_context().mls_encode_to_vec().unwrap() != ctx {
                out.push(fail(format!("observer's group context differs from the members' after m{cmi}")));
                o.lost = true;
                continue;
            }
            if o.group.export_tree().unwrap_or_default() != tree {
                out.push(fail(format!("observer's ratchet tree differs from the members' after m{cmi}")));
            }
            let r: Vec<(u32, Vec<u8>)> = o.group.roster().members_iter().map(|m| (m.index, m.signing_identity.signature_key.to_vec())).collect();
            if r != roster {
                out.push(fail(format!("observer's roster differs from the members' after m{cmi}")));
            }
            // proposals are bound to their epoch: after the commit the observer's cache equals the members' (empty)
            let member_cached = g.verif_cached_proposals_in_bundle_order().len();
            let obs_cached = o.group.get_cached_proposals().len();
            if obs_cached != member_cached {
                out.push(fail(format!(
                    "observer ({}) holds {obs_cached} cached proposals after m{cmi}, the members hold {member_cached}",
                    if o.manual { "application-side cache" } else { "own cache" }
                )));
            }
            // snapshot / restore
            if rng.chance(1, 4) {
                let bytes = o.group.snapshot().to_bytes().unwrap();
                match ExternalSnapshot::from_bytes(&bytes).and_then(|s| o.client.load_group(s)) {
                    Ok(g2) => {
                        if g2.group_context().mls_encode_to_vec().unwrap() != ctx || g2.export_tree().unwrap_or_default() != tree {
                            out.push(fail(format!("observer restored from its snapshot differs (after m{cmi})")));
                        }
                        o.group = g2;
                        self.restored += 1;
                    }
                    Err(e) => out.push(fail(format!("observer snapshot does not load: {}", err_class(&e)))),
                }
            }
        }
        // a ciphertext of another group: refused for its group id whatever the window (`adm … 0 …` rows)
        if let Some((fm, fe)) = self.foreign.clone() {
            if rng.chance(1, 3) {
                for o in self.obs.iter_mut().filter(|o| !o.lost) {
                    let obs_epoch = o.group.group_context().epoch;
                    let r = std::panic::catch_unwind(std::panic::AssertUnwindSafe(|| o.group.process_incoming_message(fm.clone())));
                    self.deliveries += 1;
                    match r {
                        Err(_) => out.push(fail("observer panicked on a ciphertext of another group".into())),
                        Ok(res) => {
                            self.qa.put(&format!("adm {obs_epoch} {} 0 {fe} app priv", o.jitter), if res.is_ok() { "ok" } else { "err" });
                            if res.is_ok() {
                                out.push(fail("observer admitted a ciphertext of another group".into()));
                            }
                        }
                    }
                }
            }
        }
        // application content framed as a PublicMessage, signed and MACed by a current member (insider): the wire-format test of
        // `check_metadata` is then the only thing that stops it, for observers and members alike
        if rng.chance(1, 2) {
            if let Ok(pm) = g.verif_public_application_message(b"plain".to_vec(), vec![]) {
                let epoch = g.current_epoch();
                for o in self.obs.iter_mut().filter(|o| !o.lost) {
                    let obs_epoch = o.group.group_context().epoch;
                    let r = std::panic::catch_unwind(std::panic::AssertUnwindSafe(|| o.group.process_incoming_message(pm.clone())));
                    self.deliveries += 1;
                    match r {
                        Err(_) => out.push(fail("observer panicked on application content in a PublicMessage".into())),
                        Ok(res) => {
                            self.qa.put(&format!("adm {obs_epoch} {} 1 {epoch} app pub", o.jitter), if res.is_ok() { "ok" } else { "err" });
                            if res.is_ok() {
                                out.push(fail(format!("observer (jitter {}) accepted application content sent as a PublicMessage", o.jitter)));
                            }
                        }
                    }
                }
                for &m in active.iter().skip(1).take(2) {
                    let mut gm = w.group(m).clone();
                    let me = gm.current_epoch();
                    let r = gm.process_incoming_message(pm.clone());
                    self.qa.put(&format!("adm {me} - 1 {epoch} app pub"), if r.is_ok() { "ok" } else { "err" });
                    if r.is_ok() {
                        out.push(fail("a member accepted application content sent as a PublicMessage".into()));
                    }
                }
            }
        }
        // attach a new observer at this epoch
        if self.obs.len() < 6 && rng.chance(1, 2) {
            let epoch = g.current_epoch();
            let jitter = match rng.below(9) {
                0 => 0,
                1 => 1,
                2 => 2,
                3 => epoch.saturating_sub(1),
                4 => epoch,
                5 => epoch + 1,
                6 => 1 << 63,
                7 => u64::MAX,
                _ => rng.below(6),
            };
            let manual = rng.chance(1, 3);
            let client = (self.mk)(Some(jitter), !manual);
            match g.group_info_message_allowing_ext_commit(true) {
                Ok(gi) => match std::panic::catch_unwind(std::panic::AssertUnwindSafe(|| client.observe_group(gi, None, None))) {
                    Ok(Ok(group)) => {
                        self.obs.push(Obs { client, group, jitter, lost: false, manual });
                        self.attached += 1;
                    }
                    Ok(Err(e)) => out.push(fail(format!("observer cannot start from the members' GroupInfo of epoch {epoch}: {}", err_class(&e)))),
                    Err(_) => out.push(fail("observe_group panicked".into())),
                },
                Err(e) => out.push(fail(format!("member cannot export group info: {}", err_class(&e)))),
            }
        }
        out
    }
}

pub fn run(o: &Opts) -> i32 {
    crate::util::quiet_panics();
    let dir = o.str("out", "/verif/work/c16");
    std::fs::create_dir_all(&dir).ok();
    let n = o.u64("histories", if o.thorough() { 300 } else { 25 });
    let mut prof = Profile::default_mix();
    prof.public_handshake = true;
    prof.p_reload = 30;
    let mut qa = QA::create(&dir, "c16");
    let mut seedgen = Rng::new(o.seed());
    let mut total = Report::default();
    let mut failing = vec![];
    let (mut attached, mut compared, mut restored, mut deliveries) = (0, 0, 0, 0);
    // window rows that do not depend on a history: boundaries around every jitter / epoch combination
    let mut foreign: Option<(mls_rs::MlsMessage, u64)> = None;
    for h in 0..n {
        let hseed = seedgen.next();
        let mkc = |s: &Setup, hd: &Handles, id, sk| mk_client(s, hd, id, sk);
        let mke = |j: Option<u64>, cache: bool| ext_client(j, cache);
        let mut tap = ObsTap { obs: vec![], mk: &mke, qa: &mut qa, old_apps: vec![], foreign: foreign.clone(), attached: 0, compared: 0, restored: 0, deliveries: 0 };
        let mut treeqa = QA::create(&dir, "c16-tree");
        {
            let mut hist = Hist {
                w: new_world(Default::default(), "/tmp/vharness-scratch-c16"),
                rng: Rng::new(hseed),
                prof: prof.clone(),
                rep: Report::default(),
                mk: &mkc,
                next_name: 0,
                pending_bad_caps: 0,
                bad_kp_ids: vec![],
                forgers: vec![],
                zombies: vec![],
                tree_qa: Some(&mut treeqa),
                filter_qa: None,
                tap: Some(&mut tap),
                kps: vec![],
                last_commit_epoch_ok: true,
            };
            hist.run();
            let rep = std::mem::take(&mut hist.rep);
            let oplog = std::mem::take(&mut hist.w.oplog);
            if let Some(m) = hist.w.msgs.iter().rev().find(|m| m.kind == "app") {
                foreign = Some((m.msg.clone(), m.epoch));
            }
            let rel: Vec<&Failure> = rep.failures.iter().filter(|f| f.prop == "C16").collect();
            if !rel.is_empty() && failing.len() < 5 {
                let mut l = vec![format!("history {h} seed {hseed}")];
                l.extend(oplog.iter().cloned());
                for f in &rel {
                    l.push(format!("FAIL {}: {}", f.prop, f.what));
                }
                failing.push((hseed, l));
            }
            if h < 2 {
                total.samples.push(oplog.iter().take(20).cloned().collect::<Vec<_>>().join(" ; "));
            }
            total.failures.extend(rep.failures);
            total.commits += rep.commits;
            total.cover.extend(rep.cover);
            for (k, v) in rep.ops {
                *total.ops.entry(k).or_default() += v;
            }
            for (k, v) in rep.results {
                *total.results.entry(k).or_default() += v;
            }
        }
        treeqa.finish();
        attached += tap.attached;
        compared += tap.compared;
        restored += tap.restored;
        deliveries += tap.deliveries;
    }
    let rows = qa.finish();
    let focus = ["C16"];
    print_report(&total, &failing, &focus, &dir, "c16");
    println!("rows {rows}");
    println!("observers {attached}");
    println!("comparisons {compared}");
    println!("restores {restored}");
    println!("deliveries {deliveries}");
    let _ = std::fs::remove_dir_all("/tmp/vharness-scratch-c16");
    0
}
