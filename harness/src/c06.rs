//! C06 / C19: persistence.  One subject member per storage back end (in-memory and SQLite, same retention)
//! follows the same traffic; random write / reload / crash points; a never-reloaded twin of the in-memory
//! subject runs in lockstep; late application messages of every age are delivered.
//! Oracles: loaded state == written state (every component), crash returns the last write, twin lockstep,
//! both back ends expose the same stored history and the same verdicts, late messages readable exactly
//! inside the retention window, a late message whose sender leaf was vacated / reused / re-identified is
//! rejected.  `repo` rows replay the repository operations on the Lean model `Repo`.
use crate::c15::{new_client, Mk};
use crate::util::{Opts, Rng, QA};
use crate::world::*;
use mls_rs::client_builder::MlsConfig;
use mls_rs::group::{CommitEffect, ReceivedMessage};
use mls_rs_core::group::GroupStateStorage;
use mls_rs::{Group, MlsMessage};
use std::collections::{BTreeMap, BTreeSet};

struct Out {
    fails: Vec<(String, String)>,
    cases: u64,
    lates: u64,
    reloads: u64,
    crashes: u64,
    cover: BTreeSet<String>,
    samples: Vec<String>,
}

fn comps_no_repo<C: MlsConfig>(g: &Group<C>) -> Vec<(String, Vec<u8>)> {
    g.verif_components().into_iter().filter(|(k, _)| !k.starts_with("repo_")).collect()
}

fn stored_ids<C: MlsConfig>(w: &World<C>, i: usize) -> Vec<u64> {
    crate::c15::stored(w, i).2.iter().map(|x| x.0).collect()
}

fn list(v: &[u64]) -> String {
    if v.is_empty() {
        "-".into()
    } else {
        v.iter().map(|x| x.to_string()).collect::<Vec<_>>().join(",")
    }
}

/// members: 0 = P (driver, commits), 1 = M (in-memory subject), 2 = S (SQLite subject), 3 = Q (sender whose leaf changes)
fn scenario<C: MlsConfig>(rng: &mut Rng, mk: Mk<C>, out: &mut Out, qa_mem: &mut QA, qa_sql: &mut QA, qa_side: &mut [QA; 2]) {
    let mut w: World<C> = new_world(Default::default(), "/tmp/vharness-scratch-c06");
    let ret = *rng.pick(&[1usize, 2, 3, 5]);
    new_client(&mut w, mk, "P", false, 3);
    new_client(&mut w, mk, "M", false, ret);
    new_client(&mut w, mk, "S", true, ret);
    new_client(&mut w, mk, "Q", false, 3);
    let g = w.members[0].client.create_group(Default::default(), Default::default(), None).unwrap();
    w.members[0].group = Some(g);
    let kps: Vec<MlsMessage> = (1..4).map(|i| w.members[i].client.generate_key_package_message(Default::default(), Default::default(), None).unwrap()).collect();
    let (_, o) = w.with_group(0, |g| {
        let mut b = g.commit_builder();
        for kp in kps {
            b = b.add_member(kp)?;
        }
        b.build()
    });
    let Some(o) = o else {
        out.fails.push(("C06".into(), "setup commit".into()));
        return;
    };
    w.with_group(0, |g| g.apply_pending_commit());
    for i in 1..4 {
        for wm in &o.welcome_messages {
            if let Ok((g, _)) = w.members[i].client.join_group(None, wm, None) {
                w.members[i].group = Some(g);
                break;
            }
        }
        if w.members[i].group.is_none() {
            out.fails.push(("C06".into(), "setup join".into()));
            return;
        }
    }
    out.cover.insert(format!("ret={ret}"));
    qa_mem.put(&format!("repo.new mem {ret}"), "ok");
    qa_sql.put(&format!("repo.new sql {ret}"), "ok");
    let mut twin: Group<C> = w.group(1).clone();
    // each subject also runs a second, single-member group on the SAME storage, advanced and written in lockstep, so that both
    // groups hold prior epochs with the same epoch ids; whatever the subject writes for the main group must leave the stored
    // records of the side group untouched
    let mut side: BTreeMap<usize, Group<C>> = BTreeMap::new();
    let mut side_stored: BTreeMap<usize, BTreeMap<u64, Vec<u8>>> = BTreeMap::new();
    for i in [1usize, 2] {
        if let Ok(mut g) = w.members[i].client.create_group(Default::default(), Default::default(), None) {
            // the side group is CREATED by the subject, so its stored history starts at epoch 0 (a joiner's starts at its
            // joining epoch): its repository operations are a model stream of their own
            let qs = &mut qa_side[i - 1];
            qs.put(&format!("repo.new {} {ret}", if i == 1 { "mem" } else { "sql" }), "ok");
            if g.commit(vec![]).and_then(|_| g.apply_pending_commit()).is_ok() {
                qs.put("repo.ins 0", "ok");
            }
            if g.write_to_storage().is_ok() {
                qs.put("repo.write", "ok");
                let gid = g.group_id().to_vec();
                let ids: Vec<u64> = (0..g.current_epoch()).filter(|e| matches!(w.members[i].h.store.epoch(&gid, *e), Ok(Some(_)))).collect();
                qs.put("repo.ids", &list(&ids));
            }
            side.insert(i, g);
        }
    }
    // written[i] = components of subject i at its last successful write
    let mut written: BTreeMap<usize, Vec<(String, Vec<u8>)>> = BTreeMap::new();
    // unused late messages per epoch from P (and from Q for the sender-leaf cases)
    let mut pool: BTreeMap<u64, Vec<MlsMessage>> = BTreeMap::new();
    // late messages a subject accepted: (subject, message, epoch)
    let mut accepted_lates: Vec<(usize, MlsMessage, u64)> = vec![];
    let mut q_pool: Vec<(u64, MlsMessage)> = vec![];
    let mut q_state = "member"; // member | removed | replaced | reidentified
    let steps = rng.range(8, 22);
    for _step in 0..steps {
        let epoch = w.group(0).current_epoch();
        // P (and Q while a member) pre-send application messages of this epoch for later
        for _ in 0..3 {
            let (_, m) = w.with_group(0, |g| g.encrypt_application_message(b"late", vec![]));
            if let Some(m) = m {
                pool.entry(epoch).or_default().push(m);
            }
        }
        if q_state == "member" || q_state == "rekeyed" {
            if w.members[3].group.is_some() {
                let (_, m) = w.with_group(3, |g| g.encrypt_application_message(b"from-q", vec![]));
                if let Some(m) = m {
                    q_pool.push((epoch, m));
                }
            }
        }
        // ---- advance the epoch: P commits (sometimes touching Q's leaf) ------------------------------------------
        let roll = rng.below(10);
        let q_leaf = w.members[3].group.as_ref().map(|g| g.current_member_index());
        let mut newcomer_kp = None;
        let commit = if roll == 0 && q_state == "member" && q_leaf.is_some() {
            q_state = "removed";
            let ql = q_leaf.unwrap();
            w.with_group(0, |g| g.commit_builder().remove_member(ql)?.build())
        } else if roll == 1 && q_state == "removed" {
            // somebody else takes the vacated leaf
            let z = new_client(&mut w, mk, &format!("Z{epoch}"), false, 3);
            let kp = w.members[z].client.generate_key_package_message(Default::default(), Default::default(), None).unwrap();
            newcomer_kp = Some(z);
            q_state = "replaced";
            w.with_group(0, |g| g.commit_builder().add_member(kp)?.build())
        } else {
            w.with_group(0, |g| g.commit(vec![]))
        };
        let Some(co) = commit.1 else {
            out.fails.push(("C06".into(), format!("commit failed: {}", commit.0.s())));
            return;
        };
        w.with_group(0, |g| g.apply_pending_commit());
        let cm = co.commit_message.clone();
        for i in 1..w.members.len() {
            if w.members[i].group.is_none() {
                continue;
            }
            let m = cm.clone();
            let (r, o) = w.with_group(i, |g| g.process_incoming_message(m));
            if !r.ok() {
                out.fails.push(("C06".into(), format!("member {i} rejects the commit: {}", r.s())));
                return;
            }
            if let Some(ReceivedMessage::Commit(d)) = o {
                if matches!(d.effect, CommitEffect::Removed { .. }) {
                    w.members[i].group = None;
                }
            }
        }
        if let Some(z) = newcomer_kp {
            for wm in &co.welcome_messages {
                if let Ok((g, _)) = w.members[z].client.join_group(None, wm, None) {
                    w.members[z].group = Some(g);
                    break;
                }
            }
        }
        let _ = twin.process_incoming_message(cm.clone());
        qa_mem.put(&format!("repo.ins {epoch}"), "ok");
        qa_sql.put(&format!("repo.ins {epoch}"), "ok");
        // Q re-keys (same signature key) or changes its signing identity, by its own commit
        if q_state == "member" && w.members[3].group.is_some() && rng.chance(1, 6) {
            let reid = rng.chance(1, 2);
            let (nid, nsk) = make_identity("Q", 1);
            let (_, qo) = w.with_group(3, |g| {
                let b = g.commit_builder();
                let b = if reid { b.set_new_signing_identity(nsk, nid) } else { b };
                b.build()
            });
            if let Some(qo) = qo {
                let ep2 = w.group(0).current_epoch();
                w.with_group(3, |g| g.apply_pending_commit());
                for i in 0..3 {
                    let m = qo.commit_message.clone();
                    w.with_group(i, |g| g.process_incoming_message(m));
                }
                for i in 4..w.members.len() {
                    if w.members[i].group.is_some() {
                        let m = qo.commit_message.clone();
                        w.with_group(i, |g| g.process_incoming_message(m));
                    }
                }
                let _ = twin.process_incoming_message(qo.commit_message.clone());
                qa_mem.put(&format!("repo.ins {ep2}"), "ok");
                qa_sql.put(&format!("repo.ins {ep2}"), "ok");
                q_state = if reid { "reidentified" } else { "rekeyed" };
                out.cover.insert(format!("q:{q_state}"));
            }
        }
        // out of order inside the new epoch: P sends two application messages, the subjects receive only the second one now
        // (the first goes to the pool of late messages), so their ratchets hold a skipped key when they are written / reloaded
        if rng.chance(1, 2) {
            let ep_now = w.group(0).current_epoch();
            let (_, m_a) = w.with_group(0, |g| g.encrypt_application_message(b"skipped", vec![]));
            let (_, m_b) = w.with_group(0, |g| g.encrypt_application_message(b"first-delivered", vec![]));
            if let (Some(m_a), Some(m_b)) = (m_a, m_b) {
                for i in [1usize, 2] {
                    if w.members[i].group.is_some() {
                        let mm = m_b.clone();
                        let (r, _) = w.with_group(i, |g| g.process_incoming_message(mm));
                        if !r.ok() {
                            out.fails.push(("C05".into(), format!("subject {i} cannot read an application message that overtook another one: {}", r.s())));
                        }
                    }
                }
                // the never-reloaded twin of subject 1 sees the same traffic
                let _ = twin.process_incoming_message(m_b.clone());
                pool.entry(ep_now).or_default().push(m_a.clone());
                pool.entry(ep_now).or_default().push(m_a);
                out.cover.insert("skipped-generation-before-write".into());
            }
        }
        // the side groups advance and are written; their stored prior epochs are recorded
        for i in [1usize, 2] {
            if let Some(g) = side.get_mut(&i) {
                let before = g.current_epoch();
                // sometimes two epochs per write, so that the trim at a write removes more than one record
                let two = rng.chance(1, 4);
                let mut ok = g.commit(vec![]).and_then(|_| g.apply_pending_commit()).is_ok();
                if ok && two {
                    ok = g.commit(vec![]).and_then(|_| g.apply_pending_commit()).is_ok();
                }
                let ok = ok && g.write_to_storage().is_ok();
                if ok {
                    let qs = &mut qa_side[i - 1];
                    for e in before..g.current_epoch() {
                        qs.put(&format!("repo.ins {e}"), "ok");
                    }
                    qs.put("repo.write", "ok");
                }
                if !ok {
                    out.fails.push(("C06".into(), format!("subject {i}: side group cannot advance / be written")));
                    continue;
                }
                let gid = g.group_id().to_vec();
                let cur = g.current_epoch();
                let mut m = BTreeMap::new();
                for e in 0..cur {
                    if let Ok(Some(rec)) = w.members[i].h.store.epoch(&gid, e) {
                        m.insert(e, rec.to_vec());
                    }
                }
                qa_side[i - 1].put("repo.ids", &list(&m.keys().cloned().collect::<Vec<u64>>()));
                side_stored.insert(i, m);
            }
        }
        // ---- persistence events on the two subjects -----------------------------------------------------------------
        for (i, tag) in [(1usize, "mem"), (2usize, "sql")] {
            let qa: &mut QA = if i == 1 { &mut *qa_mem } else { &mut *qa_sql };
            let ev = rng.below(10);
            if ev < 3 {
                // write
                let (r, _) = w.with_group(i, |g| g.write_to_storage());
                out.cases += 1;
                if !r.ok() {
                    out.fails.push(("C06".into(), format!("{tag}: write_to_storage fails: {}", r.s())));
                    continue;
                }
                written.insert(i, w.components(i));
                w.members[i].wrote = true;
                qa.put("repo.write", "ok");
                qa.put("repo.ids", &list(&stored_ids(&w, i)));
            } else if ev < 6 && written.contains_key(&i) {
                // reload: write first (ev 3,4) or crash (ev 5: drop unwritten state)
                let crash = ev == 5;
                if !crash {
                    let (r, _) = w.with_group(i, |g| g.write_to_storage());
                    if !r.ok() {
                        out.fails.push(("C06".into(), format!("{tag}: write before reload fails: {}", r.s())));
                        continue;
                    }
                    written.insert(i, w.components(i));
                    qa.put("repo.write", "ok");
                }
                let gid = w.group(i).group_id().to_vec();
                match w.members[i].client.load_group(&gid) {
                    Ok(g) => {
                        let loaded: Vec<(String, Vec<u8>)> = g.verif_components();
                        let exp = &written[&i];
                        let ch: Vec<String> = World::<C>::changed(exp, &loaded)
                            .into_iter()
                            .filter(|c| c != "repo_pending_kp_removal" && c != "repo_pending_updates" && c != "repo_pending_inserts")
                            .collect();
                        if !ch.is_empty() {
                            out.fails.push(("C06".into(), format!("{tag}: group loaded after {} differs from the written one in {ch:?}", if crash { "a crash" } else { "a write" })));
                        }
                        if crash {
                            out.crashes += 1;
                            // the subject lost its unwritten epochs: it has to catch up from the written epoch; replace it
                            // by the loaded group only if nothing was unwritten, otherwise keep running the live one
                            let live_epoch = w.group(i).current_epoch();
                            if g.current_epoch() == live_epoch {
                                w.members[i].group = Some(g);
                                qa.put("repo.reload", "ok");
                            }
                        } else {
                            out.reloads += 1;
                            w.members[i].group = Some(g);
                            qa.put("repo.reload", "ok");
                            if i == 1 {
                                let a = comps_no_repo(w.group(1));
                                let b = comps_no_repo(&twin);
                                let ch = World::<C>::changed(&a, &b);
                                if !ch.is_empty() {
                                    out.fails.push(("C06".into(), format!("reloaded member and its never-reloaded twin differ in {ch:?}")));
                                }
                            }
                        }
                    }
                    Err(e) => out.fails.push(("C06".into(), format!("{tag}: cannot load the written group: {}", err_class(&e)))),
                }
            }
        }
        // provider level: a write whose epoch part cannot succeed (an insert of an epoch id that is already stored) must not
        // store its snapshot part either -- a failed write changes nothing
        if rng.chance(1, 3) {
            // (only on the SQLite subject: the in-memory provider has no uniqueness constraint and simply appends)
            for (i, tag) in [(2usize, "sql")] {
                if w.members[i].group.is_none() || !written.contains_key(&i) || !w.members[i].setup.sqlite {
                    continue;
                }
                let gid = w.group(i).group_id().to_vec();
                let ids = stored_ids(&w, i);
                let Some(&dup) = ids.first() else { continue };
                let before_state = w.members[i].h.store.state(&gid).ok().flatten().map(|z| z.to_vec());
                let before_epoch = w.members[i].h.store.epoch(&gid, dup).ok().flatten().map(|z| z.to_vec());
                let mut store = w.members[i].h.store.clone();
                let poisoned = mls_rs_core::group::GroupState { id: gid.clone(), data: zeroize::Zeroizing::new(b"poisoned-snapshot".to_vec()) };
                let r = store.write(poisoned, vec![mls_rs_core::group::EpochRecord::new(dup, zeroize::Zeroizing::new(b"poisoned-epoch".to_vec()))], vec![]);
                out.cases += 1;
                let after_state = w.members[i].h.store.state(&gid).ok().flatten().map(|z| z.to_vec());
                let after_epoch = w.members[i].h.store.epoch(&gid, dup).ok().flatten().map(|z| z.to_vec());
                match r {
                    Err(_) => {
                        if after_state != before_state || after_epoch != before_epoch {
                            out.fails.push(("C06".into(), format!("{tag}: a storage write that failed (duplicate epoch {dup}) still changed the stored {}", if after_state != before_state { "snapshot" } else { "epoch record" })));
                        }
                        out.cover.insert(format!("failed-write:{tag}:rejected"));
                    }
                    Ok(()) => {
                        // the provider accepted the duplicate: put the genuine records back so that the scenario continues
                        out.cover.insert(format!("failed-write:{tag}:accepted"));
                        if let (Some(s0), Some(e0)) = (before_state, before_epoch) {
                            let _ = store.write(
                                mls_rs_core::group::GroupState { id: gid.clone(), data: zeroize::Zeroizing::new(s0) },
                                vec![],
                                vec![mls_rs_core::group::EpochRecord::new(dup, zeroize::Zeroizing::new(e0))],
                            );
                        }
                    }
                }
            }
        }
        // the main group's writes left the other group's stored prior epochs alone
        for (i, tag) in [(1usize, "mem"), (2usize, "sql")] {
            if let (Some(g), Some(exp)) = (side.get(&i), side_stored.get(&i)) {
                let gid = g.group_id().to_vec();
                for (e, rec) in exp {
                    let now_rec = w.members[i].h.store.epoch(&gid, *e).ok().flatten().map(|z| z.to_vec());
                    if now_rec.as_ref() != Some(rec) {
                        out.fails.push(("C06".into(), format!("{tag}: writing the main group changed the stored prior epoch {e} of another group in the same storage")));
                        break;
                    }
                }
                out.cover.insert(format!("side-group:{tag}:stored={}", exp.len().min(5)));
            }
        }
        // which resumption secrets of past epochs the repository resolves (read-only lookup path of its own, `repo.psk` rows):
        // for the own group and, from the side group on the same storage, for the main group as "another group"
        for (i, _tag) in [(1usize, "mem"), (2usize, "sql")] {
            if w.members[i].group.is_none() {
                continue;
            }
            let cur = w.group(i).current_epoch();
            let gid = w.group(i).group_id().to_vec();
            for _ in 0..3 {
                let e = cur.saturating_sub(rng.below(ret as u64 + 3));
                if e >= cur {
                    continue;
                }
                if let Ok(av) = w.group(i).verif_resumption_secret_available(&gid, e) {
                    let qa: &mut QA = if i == 1 { &mut *qa_mem } else { &mut *qa_sql };
                    qa.put(&format!("repo.psk {e}"), if av { "some" } else { "none" });
                    out.cover.insert(format!("psk-lookup:{}", if av { "some" } else { "none" }));
                    // the side group (another group on the same storage) resolves it exactly when the record is STORED
                    if let Some(sg) = side.get(&i) {
                        let stored = matches!(w.members[i].h.store.epoch(&gid, e), Ok(Some(_)));
                        match sg.verif_resumption_secret_available(&gid, e) {
                            Ok(x) if x != stored => out.fails.push(("C06".into(), format!("another group on the same storage resolves the resumption secret of epoch {e}: {x}, stored: {stored}"))),
                            _ => {}
                        }
                    }
                }
            }
        }
        // both back ends expose the same stored history when written at the same points -- compared through the model rows;
        // ---- late messages of random age to both subjects (fresh message each) ----------------------------------------
        let now = w.group(0).current_epoch();
        for _ in 0..2 {
            let age = rng.below(ret as u64 + 3);
            if age > now {
                continue;
            }
            let e = now - age;
            let Some(msgs) = pool.get_mut(&e) else { continue };
            if msgs.len() < 2 {
                continue;
            }
            let m1 = msgs.pop().unwrap();
            let m2 = msgs.pop().unwrap();
            let mut verdicts = vec![];
            for (i, m) in [(1usize, m1), (2usize, m2)] {
                if w.members[i].group.is_none() {
                    continue;
                }
                let m_copy = m.clone();
                let (r, _) = w.with_group(i, |g| g.process_incoming_message(m));
                out.lates += 1;
                let v = match &r {
                    Res::Ok => "some",
                    Res::Err(e) if e == "EpochNotFound" => "none",
                    Res::Err(e) => {
                        out.fails.push(("C19".into(), format!("late message of age {age} (ret {ret}): unexpected error {e}")));
                        "none"
                    }
                    Res::Panic(p) => {
                        out.fails.push(("C19".into(), format!("panic on late message: {p}")));
                        "none"
                    }
                };
                if age > 0 {
                    let qa: &mut QA = if i == 1 { &mut *qa_mem } else { &mut *qa_sql };
                    qa.put(&format!("repo.get {e}"), v);
                }
                verdicts.push(v);
                out.cover.insert(format!("late:age={}:{}", age.min(6), v));
                if v == "some" {
                    accepted_lates.push((i, m_copy, e));
                }
            }
            // C05: a late message that was accepted is never accepted again, whatever other epochs were touched in between
            // (the ratchet state of a prior epoch loaded from storage must stay the one that consumed the key)
            if !accepted_lates.is_empty() {
                let k = rng.below(accepted_lates.len() as u64) as usize;
                let (i, m, e) = accepted_lates[k].clone();
                if w.members[i].group.is_some() {
                    let (r, _) = w.with_group(i, |g| g.process_incoming_message(m));
                    out.lates += 1;
                    if r.ok() {
                        out.fails.push(("C05".into(), format!("subject {i} accepted the late application message of epoch {e} a second time (now at epoch {now})")));
                    }
                    out.cover.insert(format!("late-replay:{}", if r.ok() { "accepted" } else { "rejected" }));
                }
            }
            // the twin (never written, never reloaded) keeps every epoch it entered: no oracle on it here
        }
        // ---- Q's old messages after its leaf changed -------------------------------------------------------------------
        if !q_pool.is_empty() && rng.chance(1, 2) {
            let k = rng.below(q_pool.len() as u64) as usize;
            let (qe, qm) = q_pool.remove(k);
            let now = w.group(0).current_epoch();
            if qe < now {
                let (r, o) = w.with_group(0, |g| g.process_incoming_message(qm));
                out.lates += 1;
                let accepted = r.ok();
                match q_state {
                    "removed" | "replaced" | "reidentified" => {
                        if accepted {
                            out.fails.push(("C19".into(), format!("late message of Q (epoch {qe}) accepted at epoch {now} although Q's leaf is now {q_state}: {:?}", o.map(|x| received_summary(&x)))));
                        }
                        out.cover.insert(format!("late-sender:{q_state}:{}", if accepted { "accepted" } else { "rejected" }));
                    }
                    _ => {
                        // member / rekeyed with the same signature key: accepted while retained (P retains 3)
                        if let Some(ReceivedMessage::ApplicationMessage(a)) = o {
                            if Some(a.sender_index) != q_leaf {
                                out.fails.push(("C19".into(), "late message attributed to another member".into()));
                            }
                        }
                        out.cover.insert(format!("late-sender:{q_state}:{}", if accepted { "accepted" } else { "rejected" }));
                    }
                }
            }
        }
    }
    // ---- re-join on a storage that still holds prior epochs of the earlier membership ----------------------------------------
    // the repository only accepts a prior epoch whose id continues the stored ones (`insert`): after P removed a subject and
    // added it again, the first commit the new group object processes inserts the epoch it joined at (known finding F14 when
    // that is refused; here only the repository verdict is compared with the model: `repo.reload`, `repo.ins`)
    if rng.chance(1, 2) {
        for (i, _tag) in [(1usize, "mem"), (2usize, "sql")] {
            if w.members[i].group.is_none() || !w.members[i].wrote {
                continue;
            }
            let leaf = w.group(i).current_member_index();
            let (_, o) = w.with_group(0, |g| g.commit_builder().remove_member(leaf)?.build());
            if o.is_none() {
                continue;
            }
            w.with_group(0, |g| g.apply_pending_commit());
            let removal = o.unwrap().commit_message;
            for j in 1..w.members.len() {
                if w.members[j].group.is_some() {
                    let m = removal.clone();
                    let _ = w.with_group(j, |g| g.process_incoming_message(m));
                }
            }
            w.members[i].group = None;
            let Ok(kp) = w.members[i].client.generate_key_package_message(Default::default(), Default::default(), None) else { continue };
            let (_, o) = w.with_group(0, |g| g.commit_builder().add_member(kp)?.build());
            let Some(o) = o else { continue };
            w.with_group(0, |g| g.apply_pending_commit());
            for j in 1..w.members.len() {
                if w.members[j].group.is_some() {
                    let m = o.commit_message.clone();
                    let _ = w.with_group(j, |g| g.process_incoming_message(m));
                }
            }
            let joined = o.welcome_messages.iter().find_map(|wm| w.members[i].client.join_group(None, wm, None).ok().map(|x| x.0));
            let Some(g) = joined else { continue };
            let joined_at = g.current_epoch();
            w.members[i].group = Some(g);
            // the next commit makes the re-joined member insert the epoch it joined at
            let (_, o) = w.with_group(0, |g| g.commit(vec![]));
            let Some(o) = o else { continue };
            w.with_group(0, |g| g.apply_pending_commit());
            let m = o.commit_message.clone();
            let (r, _) = w.with_group(i, |g| g.process_incoming_message(m));
            let qa: &mut QA = if i == 1 { &mut *qa_mem } else { &mut *qa_sql };
            qa.put("repo.reload", "ok");
            match &r {
                Res::Ok => qa.put(&format!("repo.ins {joined_at}"), "ok"),
                Res::Err(e) if e == "InvalidEpoch" => qa.put(&format!("repo.ins {joined_at}"), "err"),
                _ => {}
            }
            out.cover.insert(format!("rejoin-on-old-storage:{}", r.s()));
            break;
        }
    }
    if out.samples.len() < 4 {
        out.samples.push(format!("ret={ret} steps={steps} q_state={q_state}"));
    }
    for m in &w.members {
        if let Some(p) = &m.h.sqlite_path {
            let _ = std::fs::remove_file(p);
        }
    }
}

pub fn run(o: &Opts) -> i32 {
    crate::util::quiet_panics();
    let dir = o.str("out", "/verif/work/c06");
    let mut rng = Rng::new(o.seed());
    let mut qa_mem = QA::create(&dir, "c06");
    let mut qa_sql = QA::create(&dir, "c06sql");
    let mut qa_side = [QA::create(&dir, "c06sidemem"), QA::create(&dir, "c06sidesql")];
    let n = o.u64("scenarios", if o.thorough() { 1500 } else { 80 });
    let mut out = Out { fails: vec![], cases: 0, lates: 0, reloads: 0, crashes: 0, cover: Default::default(), samples: vec![] };
    let mk = |s: &Setup, hd: &Handles, id, sk| mk_client(s, hd, id, sk);
    for _ in 0..n {
        let mut r = rng.fork();
        scenario(&mut r, &mk, &mut out, &mut qa_mem, &mut qa_sql, &mut qa_side);
    }
    let rows = qa_mem.finish();
    let [qs_mem, qs_sql] = qa_side;
    let rows2 = qa_sql.finish() + qs_mem.finish() + qs_sql.finish();
    // one stream for the driver: concatenate
    let cat = |ext: &str| {
        let mut s = String::new();
        for a in ["c06", "c06sql", "c06sidemem", "c06sidesql"] {
            s.push_str(&std::fs::read_to_string(format!("{dir}/{a}.{ext}")).unwrap_or_default());
        }
        std::fs::write(format!("{dir}/c06all.{ext}"), s).unwrap();
    };
    cat("q");
    cat("rust");
    println!("rows {}", rows + rows2);
    println!("cases {}", out.cases);
    println!("late_deliveries {}", out.lates);
    println!("reloads {}", out.reloads);
    println!("crashes {}", out.crashes);
    println!("cover {}", out.cover.iter().cloned().collect::<Vec<_>>().join(";"));
    let focus = o.str("focus", "");
    let rel: Vec<&(String, String)> = out.fails.iter().filter(|(p, _)| focus.is_empty() || focus.split(',').any(|f| f == p)).collect();
    println!("oracle_failures {}", rel.len());
    let stem = "c06all";
    std::fs::write(format!("{dir}/{stem}.failures"), rel.iter().map(|(p, w)| format!("{p}: {w}")).collect::<Vec<_>>().join("\n")).unwrap();
    std::fs::write(format!("{dir}/{stem}.samples"), out.samples.join("\n")).unwrap();
    let _ = std::fs::remove_dir_all("/tmp/vharness-scratch-c06");
    0
}
