//! C06 / C19: persistence.  One subject member per storage back end (in-memory and SQLite, same retention)
//! follows the same traffic; random write / reload / crash points; a never-reloaded twin of EACH subject runs in
//! lockstep for the whole scenario; late application messages of every age are delivered.
//! The subjects also take proposer and committer turns (own Update proposal, own pending commit that either wins or is
//! superseded by P's), so that the written / reloaded state carries a pending commit, cached proposals and a pending own
//! update.  A reload goes through a FRESH client object (SQLite: a new connection to the same database file).
//! After a crash (reload without write) that lost no own operation the restored group is fed the lost traffic again and
//! must catch up with its twin.
//! Oracles: loaded state == written state (every component), crash returns the last write, twin lockstep,
//! both back ends expose the same stored history and the same verdicts, late messages readable exactly
//! inside the retention window, a late message whose sender leaf was vacated / reused / re-identified is
//! rejected (by P and by both subjects).  `repo` rows replay the repository operations on the Lean model `Repo`.
use crate::c15::{new_client, Mk};
#[allow(unused_imports)]
use crate::providers::StoreBackend;
use crate::util::{Opts, Rng, QA};
use crate::world::*;
use mls_rs::client_builder::MlsConfig;
use mls_rs::crypto::SignatureSecretKey;
use mls_rs::error::MlsError;
use mls_rs::group::proposal::Proposal;
use mls_rs::group::{CommitEffect, ReceivedMessage, Sender};
use mls_rs::identity::SigningIdentity;
use mls_rs_core::group::GroupStateStorage;
use mls_rs::{Group, MlsMessage};
use std::collections::{BTreeMap, BTreeSet};

struct Out {
    fails: Vec<(String, String)>,
    cases: u64,
    lates: u64,
    reloads: u64,
    crashes: u64,
    cover: BTreeSet<String>,
    samples: Vec<String>,
}

type Comps = Vec<(String, Vec<u8>)>;

fn comps_no_repo<C: MlsConfig>(g: &Group<C>) -> Comps {
    g.verif_components().into_iter().filter(|(k, _)| !k.starts_with("repo_")).collect()
}

fn stored_ids<C: MlsConfig>(w: &World<C>, i: usize) -> Vec<u64> {
    crate::c15::stored(w, i).2.iter().map(|x| x.0).collect()
}

fn list(v: &[u64]) -> String {
    if v.is_empty() {
        "-".into()
    } else {
        v.iter().map(|x| x.to_string()).collect::<Vec<_>>().join(",")
    }
}

/// the database files are re-opened by path at every reload ("new process"): the directory is private to this run, so that a
/// concurrent run cleaning up its own scratch directory cannot remove them
fn scratch_dir() -> String {
    format!("/tmp/vharness-scratch-c06-{}", std::process::id())
}

fn tag_of(i: usize) -> &'static str {
    if i == 1 {
        "mem"
    } else {
        "sql"
    }
}

/// run an operation on a group that is not a member of the world (twin, clone, freshly loaded group), catching panics
fn guard<T>(f: impl FnOnce() -> Result<T, MlsError>) -> (Res, Option<T>) {
    match std::panic::catch_unwind(std::panic::AssertUnwindSafe(f)) {
        Ok(Ok(t)) => (Res::Ok, Some(t)),
        Ok(Err(e)) => (Res::Err(err_class(&e)), None),
        Err(p) => {
            let s = if let Some(s) = p.downcast_ref::<&str>() {
                s.to_string()
            } else if let Some(s) = p.downcast_ref::<String>() {
                s.clone()
            } else {
                "panic".into()
            };
            (Res::Panic(s), None)
        }
    }
}

/// `c15::new_client`, keeping the signing identity and key so that a fresh client object ("new process") can be built later
fn new_client_keep<C: MlsConfig>(w: &mut World<C>, mk: Mk<C>, name: &str, sqlite: bool, retention: usize) -> (usize, SigningIdentity, SignatureSecretKey) {
    let mut s = Setup::new(name);
    s.sqlite = sqlite;
    s.retention = retention;
    let h = handles(&s, &w.crypto_log, &w.scratch);
    let (id, sk) = make_identity(&s.name, s.suite);
    let client = mk(&s, &h, id.clone(), sk.clone());
    w.members.push(Member { identity: s.name.as_bytes().to_vec(), setup: s, h, client, group: None, ghosts: vec![], wrote: false });
    (w.members.len() - 1, id, sk)
}

/// the handles of a "new process" of the same member: for SQLite a NEW engine / connection on the same database file, for
/// the in-memory provider the same shared map (it lives in the process); everything else is shared
fn reopened_handles(h: &Handles, retention: usize) -> (Handles, &'static str) {
    #[cfg(feature = "sqlite")]
    if let Some(p) = &h.sqlite_path {
        use mls_rs_provider_sqlite::{connection_strategy::FileConnectionStrategy, SqLiteDataStorageEngine};
        if let Ok(st) = SqLiteDataStorageEngine::new(FileConnectionStrategy::new(p)).and_then(|e| e.group_state_storage()) {
            let mut h2 = h.clone();
            h2.store.backend = StoreBackend::Sql(st.with_max_epoch_retention(retention as u64));
            return (h2, "new-connection");
        }
        return (h.clone(), "new-connection-failed");
    }
    let _ = retention;
    (h.clone(), "fresh-client")
}

/// applied / unused proposals of a commit effect, order-insensitive
fn effect_summary(e: &CommitEffect) -> String {
    match e {
        CommitEffect::NewEpoch(n) => {
            let mut a: Vec<String> = n.applied_proposals.iter().map(|p| format!("{}@{:?}", proposal_kind(&p.proposal), p.sender)).collect();
            let mut u: Vec<String> = n.unused_proposals.iter().map(|p| format!("{}@{:?}", proposal_kind(&p.proposal), p.sender)).collect();
            a.sort();
            u.sort();
            format!("applied=[{}] unused=[{}]", a.join(","), u.join(","))
        }
        CommitEffect::Removed { .. } => "removed".into(),
        CommitEffect::ReInit(_) => "reinit".into(),
    }
}

/// what a commit built NOW on a clone of `g` would do with the cached proposals (the group itself is not touched)
fn commit_summary<C: MlsConfig>(g: &Group<C>) -> String {
    let mut c = g.clone();
    c.clear_pending_commit();
    let (r, o) = guard(|| {
        let o = c.commit_builder().build()?;
        let d = c.apply_pending_commit()?;
        Ok((o.unused_proposals.len(), d))
    });
    match o {
        Some((n, d)) => format!("ok unused_at_build={n} {}", effect_summary(&d.effect)),
        None => r.s(),
    }
}

/// is the prior epoch `e` available to subject `i` (the lookup order of `GroupStateRepository::get_epoch_mut`: pending inserts
/// from the first pending id on, otherwise the storage -- the read-through cache only holds stored records)
fn retained<C: MlsConfig>(w: &World<C>, i: usize, e: u64) -> bool {
    let g = w.group(i);
    let ins: Vec<u64> = g
        .verif_components()
        .iter()
        .find(|(k, _)| k == "repo_pending_inserts")
        .map(|(_, v)| v.chunks(8).filter(|c| c.len() == 8).map(|c| u64::from_be_bytes(c.try_into().unwrap())).collect())
        .unwrap_or_default();
    if let Some(&min) = ins.first() {
        if e >= min {
            return ins.contains(&e);
        }
    }
    w.members[i].h.store.peek_epoch(g.group_id(), e).is_some()
}

#[derive(Clone, Copy, PartialEq)]
enum Ev {
    Write,
    Reload,
    Crash,
}

/// what subject i held at its last successful write
struct Written {
    comps: Comps,
    pending_commit: bool,
    cached: usize,
    pending_update: bool,
    epoch: u64,
}

/// one delivery to a subject since its last write (fed again to the group restored after a crash)
#[derive(Clone)]
struct Logged {
    msg: MlsMessage,
    kind: &'static str,
    epoch: u64,
    ok: bool,
}

/// the world plus everything the persistence events of the two subjects need
struct Sc<'a, C: MlsConfig> {
    w: World<C>,
    mk: Mk<'a, C>,
    out: &'a mut Out,
    qa_mem: &'a mut QA,
    qa_sql: &'a mut QA,
    ret: usize,
    step: u64,
    /// never written, never reloaded; fed exactly the messages of its subject; after an own (randomised) operation of the
    /// subject -- proposal, commit -- it is the clone of the subject taken right after that operation (lockstep checked before)
    twin: BTreeMap<usize, Group<C>>,
    written: BTreeMap<usize, Written>,
    log: BTreeMap<usize, Vec<Logged>>,
    /// the subject made an own operation (proposal sent / commit built) that it has not written yet: a crash loses it
    dirty: BTreeSet<usize>,
    ident: BTreeMap<usize, (SigningIdentity, SignatureSecretKey)>,
    /// late messages a subject accepted: (subject, message, epoch, accepted after the subject's last write)
    accepted_lates: Vec<(usize, MlsMessage, u64, bool)>,
    diverged: bool,
    reloaded: BTreeSet<usize>,
    /// the subject was reloaded / restored while it held a pending own update (cleared at the next epoch)
    pu_reloaded: BTreeSet<usize>,
    /// the subject was reloaded / restored while it held a pending commit (cleared at the next epoch)
    pc_reloaded: BTreeSet<usize>,
}

impl<'a, C: MlsConfig> Sc<'a, C> {
    fn qa(&mut self, i: usize) -> &mut QA {
        if i == 1 {
            &mut *self.qa_mem
        } else {
            &mut *self.qa_sql
        }
    }

    fn fail(&mut self, prop: &str, msg: String) {
        let s = self.step;
        self.out.fails.push((prop.into(), format!("step {s} (ret {}): {msg}", self.ret)));
    }

    fn cover(&mut self, k: String) {
        self.out.cover.insert(k);
    }

    /// the subject and its twin agree in every component outside the repository bookkeeping; first divergence only
    fn lockstep(&mut self, i: usize, at: &str) {
        if self.diverged || self.w.members[i].group.is_none() {
            return;
        }
        let Some(t) = self.twin.get(&i) else { return };
        let ch = World::<C>::changed(&comps_no_repo(self.w.group(i)), &comps_no_repo(t));
        if !ch.is_empty() {
            self.diverged = true;
            let (ea, eb) = (self.w.group(i).current_epoch(), t.current_epoch());
            let state = if self.reloaded.contains(&i) { "reloaded before" } else { "never reloaded" };
            self.fail("C06", format!("{}: subject ({state}, epoch {ea}) and its never-reloaded twin (epoch {eb}) differ {at} in {ch:?}", tag_of(i)));
        }
    }

    /// deliver one message to subject i and to its twin.  `late`: a message of a prior epoch (or a replay): not part of the
    /// traffic a restored group is fed again, and the twin (which keeps every epoch) may answer differently
    fn deliver(&mut self, i: usize, m: &MlsMessage, kind: &'static str, late: bool) -> (Res, Option<ReceivedMessage>) {
        let epoch = self.w.group(i).current_epoch();
        let mm = m.clone();
        let (r, o) = self.w.with_group(i, |g| g.process_incoming_message(mm));
        let mut twin_res = None;
        if let Some(t) = self.twin.get_mut(&i) {
            let mm = m.clone();
            twin_res = Some(guard(|| t.process_incoming_message(mm)).0);
        }
        if let Some(rt) = twin_res {
            if !late && rt.ok() != r.ok() && !self.diverged {
                self.diverged = true;
                self.fail("C06", format!("{}: subject answers {} to a {kind} of epoch {epoch}, its never-reloaded twin answers {}", tag_of(i), r.s(), rt.s()));
            }
        }
        if !late {
            self.log.entry(i).or_default().push(Logged { msg: m.clone(), kind, epoch, ok: r.ok() });
        }
        (r, o)
    }

    /// a message from `from` to every other member (subjects through `deliver`); false = somebody rejected it (reported)
    fn broadcast(&mut self, m: &MlsMessage, kind: &'static str, from: usize) -> bool {
        for j in 0..self.w.members.len() {
            if j == from || self.w.members[j].group.is_none() {
                continue;
            }
            let leaf = self.w.group(j).current_member_index();
            let (r, o) = if j == 1 || j == 2 {
                self.deliver(j, m, kind, false)
            } else {
                let mm = m.clone();
                self.w.with_group(j, |g| g.process_incoming_message(mm))
            };
            if !r.ok() {
                let note = if j == 1 || j == 2 {
                    let g = self.w.group(j);
                    let pu = g.verif_components().iter().any(|(k, v)| k == "pending_updates" && !v.is_empty());
                    format!(
                        " ({} subject; pending commit {}, cached proposals {}, pending own update {}, reloaded with it {}, reloaded before {})",
                        tag_of(j),
                        g.has_pending_commit(),
                        g.get_cached_proposals().len(),
                        pu,
                        self.pu_reloaded.contains(&j),
                        self.reloaded.contains(&j)
                    )
                } else {
                    String::new()
                };
                let from_name = self.w.members[from].setup.name.clone();
                self.fail("C06", format!("member {j} rejects the {kind} of {from_name}: {}{note}", r.s()));
                return false;
            }
            if let Some(ReceivedMessage::Commit(d)) = o {
                if let CommitEffect::NewEpoch(n) = &d.effect {
                    let own_update = n.applied_proposals.iter().any(|p| matches!(p.proposal, Proposal::Update(_)) && p.sender == Sender::Member(leaf));
                    if own_update && (j == 1 || j == 2) {
                        self.cover(format!("own-update-applied:{}", tag_of(j)));
                        if self.pu_reloaded.contains(&j) {
                            self.cover("reload:pending-update:commit-applied".into());
                            self.cover(format!("reload:{}:pending-update:commit-applied", tag_of(j)));
                        }
                    }
                }
                if matches!(d.effect, CommitEffect::Removed { .. }) {
                    self.w.members[j].group = None;
                }
            }
        }
        true
    }

    /// an own, randomised operation of subject x (proposal, commit): lockstep is checked before, the twin becomes the clone
    /// of the subject right after the operation
    fn own_op<T>(&mut self, x: usize, what: &str, f: impl FnOnce(&mut Group<C>) -> Result<T, MlsError>) -> Option<T> {
        self.lockstep(x, &format!("before the subject is to {what}"));
        let (r, o) = self.w.with_group(x, f);
        if !r.ok() {
            let st = if self.reloaded.contains(&x) { "reloaded before" } else { "never reloaded" };
            self.fail("C06", format!("{}: subject ({st}) cannot {what}: {}", tag_of(x), r.s()));
            return None;
        }
        self.twin.insert(x, self.w.group(x).clone());
        self.dirty.insert(x);
        o
    }

    fn note_written(&mut self, i: usize, point: &str) {
        let g = self.w.group(i);
        let comps = g.verif_components();
        let info = Written {
            pending_commit: g.has_pending_commit(),
            cached: g.get_cached_proposals().len(),
            pending_update: comps.iter().any(|(k, v)| k == "pending_updates" && !v.is_empty()),
            epoch: g.current_epoch(),
            comps,
        };
        let tag = tag_of(i);
        if info.pending_commit {
            self.cover(format!("write:{tag}:pending-commit"));
        }
        if info.cached > 0 {
            self.cover(format!("write:{tag}:cached-proposals"));
        }
        if info.pending_update {
            self.cover(format!("write:{tag}:pending-update"));
        }
        self.cover(format!("persist-point:{point}"));
        self.written.insert(i, info);
        self.log.remove(&i);
        self.dirty.remove(&i);
        for a in self.accepted_lates.iter_mut() {
            if a.0 == i {
                a.3 = false;
            }
        }
    }

    /// the member's "new process": a fresh client object on re-opened storage handles
    fn fresh_client(&mut self, i: usize) {
        let (h2, how) = reopened_handles(&self.w.members[i].h, self.w.members[i].setup.retention);
        let (id, sk) = self.ident[&i].clone();
        let client = (self.mk)(&self.w.members[i].setup, &h2, id, sk);
        self.w.members[i].client = client;
        self.w.members[i].h = h2;
        self.cover(format!("new-process:{}:{how}", tag_of(i)));
        if how == "new-connection-failed" {
            self.fail("C06", format!("{}: cannot open a second connection to the database file", tag_of(i)));
        }
    }

    /// one persistence event of subject i
    fn persist(&mut self, i: usize, ev: Ev, point: &str) {
        let tag = tag_of(i);
        if self.w.members[i].group.is_none() {
            return;
        }
        if ev == Ev::Write {
            let (r, _) = self.w.with_group(i, |g| g.write_to_storage());
            self.out.cases += 1;
            if !r.ok() {
                self.fail("C06", format!("{tag}: write_to_storage fails ({point}): {}", r.s()));
                return;
            }
            self.note_written(i, point);
            self.w.members[i].wrote = true;
            let ids = list(&stored_ids(&self.w, i));
            self.qa(i).put("repo.write", "ok");
            self.qa(i).put("repo.ids", &ids);
            return;
        }
        // reload: write first, or crash (drop the unwritten state)
        let crash = ev == Ev::Crash;
        if !crash {
            let (r, _) = self.w.with_group(i, |g| g.write_to_storage());
            if !r.ok() {
                self.fail("C06", format!("{tag}: write before reload fails ({point}): {}", r.s()));
                return;
            }
            self.note_written(i, point);
            self.qa(i).put("repo.write", "ok");
        }
        let gid = self.w.group(i).group_id().to_vec();
        self.fresh_client(i);
        let g = match self.w.members[i].client.load_group(&gid) {
            Ok(g) => g,
            Err(e) => {
                self.fail("C06", format!("{tag}: cannot load the written group ({point}): {}", err_class(&e)));
                return;
            }
        };
        let how = if crash { "a crash" } else { "a write" };
        let loaded: Comps = g.verif_components();
        let (w_pc, w_cached, w_pu, w_epoch) = {
            let x = &self.written[&i];
            (x.pending_commit, x.cached, x.pending_update, x.epoch)
        };
        let ch: Vec<String> = World::<C>::changed(&self.written[&i].comps, &loaded)
            .into_iter()
            .filter(|c| c != "repo_pending_kp_removal" && c != "repo_pending_updates" && c != "repo_pending_inserts")
            .collect();
        if !ch.is_empty() {
            self.fail("C06", format!("{tag}: group loaded after {how} ({point}) differs from the written one in {ch:?}"));
        }
        if g.has_pending_commit() != w_pc {
            self.fail("C06", format!("{tag}: group loaded after {how} ({point}): has_pending_commit() is {}, it was {w_pc} when written", g.has_pending_commit()));
        }
        if g.get_cached_proposals().len() != w_cached {
            self.fail("C06", format!("{tag}: group loaded after {how} ({point}) holds {} cached proposals, {w_cached} were written", g.get_cached_proposals().len()));
        }
        let kind = if crash { "crash" } else { "reload" };
        if w_pc {
            self.cover(format!("{kind}:pending-commit"));
            self.cover(format!("{kind}:{tag}:pending-commit"));
        }
        if w_cached > 0 {
            self.cover(format!("{kind}:cached-proposals"));
            self.cover(format!("{kind}:{tag}:cached-proposals"));
        }
        if w_pu {
            self.cover(format!("{kind}:pending-update"));
            self.cover(format!("{kind}:{tag}:pending-update"));
        }
        self.cover(format!("persist-point:{point}:{kind}"));
        if crash {
            self.out.crashes += 1;
            if self.dirty.contains(&i) {
                // an own proposal / commit of the subject was never written: the restored group cannot follow the traffic that
                // builds on it (the others hold the proposal); as before, the live group keeps running
                self.cover(format!("crash:{tag}:own-op-lost:live-continues"));
                return;
            }
            // the subject lost its unwritten epochs and messages: the restored group is fed the same traffic again and has to
            // end in the state of the twin
            let mut g = g;
            let entries = self.log.get(&i).cloned().unwrap_or_default();
            let live_epoch = self.w.group(i).current_epoch();
            let lost = live_epoch - g.current_epoch();
            self.qa(i).put("repo.reload", "ok");
            for l in &entries {
                let e0 = g.current_epoch();
                let mm = l.msg.clone();
                let (r, _) = guard(|| g.process_incoming_message(mm));
                if r.ok() != l.ok {
                    self.fail(
                        "C06",
                        format!(
                            "{tag}: crash catch-up ({point}): the group restored from the last write (epoch {w_epoch}) answers {} to the re-delivered {} of epoch {} (now at epoch {e0}); the live group had answered {}",
                            r.s(),
                            l.kind,
                            l.epoch,
                            if l.ok { "ok" } else { "an error" }
                        ),
                    );
                }
                if l.kind == "commit" {
                    match &r {
                        Res::Ok => self.qa(i).put(&format!("repo.ins {e0}"), "ok"),
                        Res::Err(e) if e == "InvalidEpoch" => self.qa(i).put(&format!("repo.ins {e0}"), "err"),
                        _ => {}
                    }
                }
            }
            if g.current_epoch() != live_epoch {
                self.fail("C06", format!("{tag}: crash catch-up ({point}): restored from epoch {w_epoch}, after the re-delivery of {} messages it is at epoch {}, the live group was at {live_epoch}", entries.len(), g.current_epoch()));
            }
            if let Some(t) = self.twin.get(&i) {
                let ch = World::<C>::changed(&comps_no_repo(&g), &comps_no_repo(t));
                if !ch.is_empty() && !self.diverged {
                    self.diverged = true;
                    self.fail("C06", format!("{tag}: crash catch-up ({point}): restored from epoch {w_epoch} and fed the {} lost messages ({lost} epochs) again, the group differs from its never-reloaded twin in {ch:?}", entries.len()));
                }
            }
            self.w.members[i].group = Some(g);
            self.reloaded.insert(i);
            self.accepted_lates.retain(|a| a.0 != i || !a.3);
            if lost > 0 {
                self.cover("crash:catch-up".into());
                self.cover(format!("crash:{tag}:catch-up:lost-epochs={}", lost.min(3)));
            } else {
                self.cover(format!("crash:{tag}:nothing-lost:messages={}", entries.len().min(3)));
            }
            if w_pu {
                self.pu_reloaded.insert(i);
            }
            if w_pc {
                self.pc_reloaded.insert(i);
            }
            return;
        }
        self.out.reloads += 1;
        self.w.members[i].group = Some(g);
        self.qa(i).put("repo.reload", "ok");
        self.reloaded.insert(i);
        if !self.diverged {
            if let Some(t) = self.twin.get(&i) {
                let ch = World::<C>::changed(&comps_no_repo(self.w.group(i)), &comps_no_repo(t));
                if !ch.is_empty() {
                    self.diverged = true;
                    self.fail("C06", format!("{tag}: reloaded member ({point}) and its never-reloaded twin differ in {ch:?}"));
                }
            }
        }
        // the pending commit survives: same flag, and applying it gives the epoch the twin gets
        if w_pc {
            self.pc_reloaded.insert(i);
            if let Some(t) = self.twin.get(&i) {
                let mut a = self.w.group(i).clone();
                let mut b = t.clone();
                let (ra, _) = guard(|| a.apply_pending_commit().map(|_| ()));
                let (rb, _) = guard(|| b.apply_pending_commit().map(|_| ()));
                if !ra.ok() || !rb.ok() {
                    self.fail("C06", format!("{tag}: apply_pending_commit on the group reloaded with a pending commit ({point}): {}, on the never-reloaded twin: {}", ra.s(), rb.s()));
                } else {
                    let aa = a.epoch_authenticator().map(|s| s.as_bytes().to_vec()).ok();
                    let ab = b.epoch_authenticator().map(|s| s.as_bytes().to_vec()).ok();
                    if aa.is_none() || aa != ab {
                        self.fail("C06", format!("{tag}: the pending commit applied by the reloaded group ({point}) gives epoch {} with another epoch authenticator than the never-reloaded twin applying the same pending commit (epoch {})", a.current_epoch(), b.current_epoch()));
                    }
                    let ch = World::<C>::changed(&comps_no_repo(&a), &comps_no_repo(&b));
                    if !ch.is_empty() {
                        self.fail("C06", format!("{tag}: after applying the pending commit, the reloaded group ({point}) and the never-reloaded twin differ in {ch:?}"));
                    }
                    self.cover(format!("reload:{tag}:pending-commit:applies-as-twin"));
                }
            }
        }
        // the cached proposals survive: a commit built now uses them exactly as the twin's would
        if w_cached > 0 {
            if let Some(t) = self.twin.get(&i) {
                let sa = commit_summary(self.w.group(i));
                let sb = commit_summary(t);
                if sa != sb {
                    self.fail("C06", format!("{tag}: a commit built by the group reloaded with {w_cached} cached proposals ({point}): {sa}; by the never-reloaded twin: {sb}"));
                }
                self.cover(format!("reload:{tag}:cached-proposals:commit-{}", if sa.starts_with("ok") { "ok" } else { "err" }));
            }
        }
        if w_pu {
            self.pu_reloaded.insert(i);
        }
    }

    /// random persistence events of both subjects at an intermediate point of a round
    fn persist_point(&mut self, rng: &mut Rng, point: &str, focus: Option<usize>) {
        for i in [1usize, 2] {
            let fire = if Some(i) == focus { rng.chance(3, 4) } else { rng.chance(1, 4) };
            if !fire {
                continue;
            }
            let ev = rng.below(6);
            let e = if !self.written.contains_key(&i) || ev < 2 {
                Ev::Write
            } else if ev < 4 {
                Ev::Reload
            } else {
                Ev::Crash
            };
            self.persist(i, e, point);
        }
    }
}

/// members: 0 = P (driver, commits), 1 = M (in-memory subject), 2 = S (SQLite subject), 3 = Q (sender whose leaf changes)
fn scenario<C: MlsConfig>(rng: &mut Rng, mk: Mk<C>, out: &mut Out, qa_mem: &mut QA, qa_sql: &mut QA, qa_side: &mut [QA; 2]) {
    let mut w: World<C> = new_world(Default::default(), &scratch_dir());
    let ret = *rng.pick(&[1usize, 2, 3, 5]);
    new_client(&mut w, mk, "P", false, 3);
    let (_, m_id, m_sk) = new_client_keep(&mut w, mk, "M", false, ret);
    let (_, s_id, s_sk) = new_client_keep(&mut w, mk, "S", true, ret);
    new_client(&mut w, mk, "Q", false, 3);
    let g = w.members[0].client.create_group(Default::default(), Default::default(), None).unwrap();
    w.members[0].group = Some(g);
    let kps: Vec<MlsMessage> = (1..4).map(|i| w.members[i].client.generate_key_package_message(Default::default(), Default::default(), None).unwrap()).collect();
    let (_, o) = w.with_group(0, |g| {
        let mut b = g.commit_builder();
        for kp in kps {
            b = b.add_member(kp)?;
        }
        b.build()
    });
    let Some(o) = o else {
        out.fails.push(("C06".into(), "setup commit".into()));
        return;
    };
    w.with_group(0, |g| g.apply_pending_commit());
    for i in 1..4 {
        for wm in &o.welcome_messages {
            if let Ok((g, _)) = w.members[i].client.join_group(None, wm, None) {
                w.members[i].group = Some(g);
                break;
            }
        }
        if w.members[i].group.is_none() {
            out.fails.push(("C06".into(), "setup join".into()));
            return;
        }
    }
    out.cover.insert(format!("ret={ret}"));
    qa_mem.put(&format!("repo.new mem {ret}"), "ok");
    qa_sql.put(&format!("repo.new sql {ret}"), "ok");
    // each subject also runs a second, single-member group on the SAME storage, advanced and written in lockstep, so that both
    // groups hold prior epochs with the same epoch ids; whatever the subject writes for the main group must leave the stored
    // records of the side group untouched
    let mut side: BTreeMap<usize, Group<C>> = BTreeMap::new();
    let mut side_stored: BTreeMap<usize, BTreeMap<u64, Vec<u8>>> = BTreeMap::new();
    for i in [1usize, 2] {
        if let Ok(mut g) = w.members[i].client.create_group(Default::default(), Default::default(), None) {
            // the side group is CREATED by the subject, so its stored history starts at epoch 0 (a joiner's starts at its
            // joining epoch): its repository operations are a model stream of their own
            let qs = &mut qa_side[i - 1];
            qs.put(&format!("repo.new {} {ret}", if i == 1 { "mem" } else { "sql" }), "ok");
            if g.commit(vec![]).and_then(|_| g.apply_pending_commit()).is_ok() {
                qs.put("repo.ins 0", "ok");
            }
            if g.write_to_storage().is_ok() {
                qs.put("repo.write", "ok");
                let gid = g.group_id().to_vec();
                let ids: Vec<u64> = (0..g.current_epoch()).filter(|e| matches!(w.members[i].h.store.epoch(&gid, *e), Ok(Some(_)))).collect();
                qs.put("repo.ids", &list(&ids));
            }
            side.insert(i, g);
        }
    }
    // one never-written, never-reloaded twin per subject
    let mut twin: BTreeMap<usize, Group<C>> = BTreeMap::new();
    twin.insert(1, w.group(1).clone());
    twin.insert(2, w.group(2).clone());
    let mut ident = BTreeMap::new();
    ident.insert(1usize, (m_id, m_sk));
    ident.insert(2usize, (s_id, s_sk));
    let mut sc: Sc<C> = Sc {
        w,
        mk,
        out,
        qa_mem,
        qa_sql,
        ret,
        step: 0,
        twin,
        written: BTreeMap::new(),
        log: BTreeMap::new(),
        dirty: BTreeSet::new(),
        ident,
        accepted_lates: vec![],
        diverged: false,
        reloaded: BTreeSet::new(),
        pu_reloaded: BTreeSet::new(),
        pc_reloaded: BTreeSet::new(),
    };
    // unused late messages per epoch from P (and from Q for the sender-leaf cases)
    let mut pool: BTreeMap<u64, Vec<MlsMessage>> = BTreeMap::new();
    let mut q_pool: Vec<(u64, MlsMessage)> = vec![];
    let mut q_state = "member"; // member | removed | replaced | reidentified
    let steps = rng.range(8, 22);
    for step in 0..steps {
        sc.step = step;
        let epoch = sc.w.group(0).current_epoch();
        // P (and Q while a member) pre-send application messages of this epoch for later
        for _ in 0..3 {
            let (_, m) = sc.w.with_group(0, |g| g.encrypt_application_message(b"late", vec![]));
            if let Some(m) = m {
                pool.entry(epoch).or_default().push(m);
            }
        }
        if q_state == "member" || q_state == "rekeyed" {
            if sc.w.members[3].group.is_some() {
                let (_, m) = sc.w.with_group(3, |g| g.encrypt_application_message(b"from-q", vec![]));
                if let Some(m) = m {
                    q_pool.push((epoch, m));
                }
            }
        }
        let roll = rng.below(10);
        let q_leaf = sc.w.members[3].group.as_ref().map(|g| g.current_member_index());
        // P's commit of this round touches Q's leaf (removal / the vacated leaf is taken): no competing committer, Q does not propose
        let special = (roll == 0 && q_state == "member" && q_leaf.is_some()) || (roll == 1 && q_state == "removed");
        // ---- proposals of this round: a subject's own Update (everybody caches it, the subject holds a pending own update), and
        // an Update of P or Q (the subjects cache it); persistence events in between ------------------------------------------
        if rng.chance(2, 5) {
            let x = 1 + rng.below(2) as usize;
            let Some(pm) = sc.own_op(x, "send an Update proposal", |g| g.propose_update(vec![])) else { return };
            sc.cover(format!("subject-proposal:{}", tag_of(x)));
            if !sc.broadcast(&pm, "proposal", x) {
                return;
            }
            sc.persist_point(rng, "own-proposal-sent", Some(x));
        }
        if rng.chance(2, 5) {
            let pr = if !special && sc.w.members[3].group.is_some() && rng.chance(1, 2) { 3 } else { 0 };
            let (r, pm) = sc.w.with_group(pr, |g| g.propose_update(vec![]));
            let Some(pm) = pm else {
                sc.fail("C06", format!("member {pr} cannot send an Update proposal: {}", r.s()));
                return;
            };
            if !sc.broadcast(&pm, "proposal", pr) {
                return;
            }
            sc.cover(format!("others-proposal:from={}", if pr == 0 { "P" } else { "Q" }));
            sc.persist_point(rng, "proposals-cached", None);
        }
        // ---- advance the epoch: a subject builds a commit without applying it (and then either P's competing commit wins or the
        // subject's commit goes out), or P commits (sometimes touching Q's leaf) ---------------------------------------------
        let committer = if !special && rng.chance(1, 3) { Some(1 + rng.below(2) as usize) } else { None };
        let mut own: Option<(usize, MlsMessage)> = None;
        if let Some(y) = committer {
            let Some(co) = sc.own_op(y, "build a commit", |g| g.commit(vec![])) else { return };
            sc.cover(format!("subject-commit:{}:built", tag_of(y)));
            sc.persist_point(rng, "pending-commit", Some(y));
            sc.persist_point(rng, "pending-commit-later", Some(y));
            if rng.chance(1, 2) {
                own = Some((y, co.commit_message));
            }
        }
        let mut newcomer_kp = None;
        if let Some((y, cm)) = &own {
            let y = *y;
            let tag = tag_of(y);
            if !sc.broadcast(cm, "commit", y) {
                return;
            }
            // the subject applies its own commit: directly, or by receiving it back
            let direct = rng.chance(1, 2);
            let how = if direct { "apply_pending_commit" } else { "receiving its own commit" };
            let after = if sc.pc_reloaded.contains(&y) { "reloaded with it" } else { "not reloaded since it was built" };
            let mm = cm.clone();
            let (r, _) = if direct { sc.w.with_group(y, |g| g.apply_pending_commit().map(|_| ())) } else { sc.w.with_group(y, |g| g.process_incoming_message(mm).map(|_| ())) };
            if !r.ok() {
                sc.fail("C06", format!("{tag}: subject ({after}) cannot apply its own pending commit of epoch {epoch} by {how}: {}", r.s()));
                return;
            }
            if let Some(t) = sc.twin.get_mut(&y) {
                let mm = cm.clone();
                let (rt, _) = if direct { guard(|| t.apply_pending_commit().map(|_| ())) } else { guard(|| t.process_incoming_message(mm).map(|_| ())) };
                if !rt.ok() && !sc.diverged {
                    sc.diverged = true;
                    sc.fail("C06", format!("{tag}: the never-reloaded twin cannot apply the pending commit of epoch {epoch} by {how}: {}", rt.s()));
                }
            }
            sc.log.entry(y).or_default().push(Logged { msg: cm.clone(), kind: "commit", epoch, ok: true });
            sc.cover(format!("own-commit-applied:{tag}:{}", if direct { "apply" } else { "received-back" }));
            if sc.pc_reloaded.contains(&y) {
                sc.cover("reload:pending-commit:applied-live".into());
                sc.cover(format!("reload:{tag}:pending-commit:applied-live:{}", if direct { "apply" } else { "received-back" }));
            }
        } else {
            let commit = if committer.is_some() {
                sc.w.with_group(0, |g| g.commit(vec![]))
            } else if roll == 0 && q_state == "member" && q_leaf.is_some() {
                q_state = "removed";
                let ql = q_leaf.unwrap();
                sc.w.with_group(0, |g| g.commit_builder().remove_member(ql)?.build())
            } else if roll == 1 && q_state == "removed" {
                // somebody else takes the vacated leaf
                let z = new_client(&mut sc.w, mk, &format!("Z{epoch}"), false, 3);
                let kp = sc.w.members[z].client.generate_key_package_message(Default::default(), Default::default(), None).unwrap();
                newcomer_kp = Some(z);
                q_state = "replaced";
                sc.w.with_group(0, |g| g.commit_builder().add_member(kp)?.build())
            } else {
                sc.w.with_group(0, |g| g.commit(vec![]))
            };
            let Some(co) = commit.1 else {
                sc.fail("C06", format!("commit failed: {}", commit.0.s()));
                return;
            };
            sc.w.with_group(0, |g| g.apply_pending_commit());
            if !sc.broadcast(&co.commit_message, "commit", 0) {
                return;
            }
            if let Some(z) = newcomer_kp {
                for wm in &co.welcome_messages {
                    if let Ok((g, _)) = sc.w.members[z].client.join_group(None, wm, None) {
                        sc.w.members[z].group = Some(g);
                        break;
                    }
                }
            }
            if let Some(y) = committer {
                // P's competing commit won: the subject's pending commit is gone
                let tag = tag_of(y);
                if sc.w.group(y).has_pending_commit() {
                    sc.fail("C06", format!("{tag}: subject still holds its pending commit of epoch {epoch} after processing the competing commit of P"));
                }
                sc.cover(format!("pending-commit:{tag}:superseded{}", if sc.pc_reloaded.contains(&y) { ":after-reload" } else { "" }));
            }
        }
        sc.pu_reloaded.clear();
        sc.pc_reloaded.clear();
        sc.qa_mem.put(&format!("repo.ins {epoch}"), "ok");
        sc.qa_sql.put(&format!("repo.ins {epoch}"), "ok");
        // Q re-keys (same signature key) or changes its signing identity, by its own commit
        if q_state == "member" && sc.w.members[3].group.is_some() && rng.chance(1, 6) {
            let reid = rng.chance(1, 2);
            let (nid, nsk) = make_identity("Q", 1);
            let (_, qo) = sc.w.with_group(3, |g| {
                let b = g.commit_builder();
                let b = if reid { b.set_new_signing_identity(nsk, nid) } else { b };
                b.build()
            });
            if let Some(qo) = qo {
                let ep2 = sc.w.group(0).current_epoch();
                sc.w.with_group(3, |g| g.apply_pending_commit());
                {
                    let m = qo.commit_message.clone();
                    sc.w.with_group(0, |g| g.process_incoming_message(m));
                }
                for i in [1usize, 2] {
                    sc.deliver(i, &qo.commit_message, "commit", false);
                }
                for i in 4..sc.w.members.len() {
                    if sc.w.members[i].group.is_some() {
                        let m = qo.commit_message.clone();
                        sc.w.with_group(i, |g| g.process_incoming_message(m));
                    }
                }
                sc.qa_mem.put(&format!("repo.ins {ep2}"), "ok");
                sc.qa_sql.put(&format!("repo.ins {ep2}"), "ok");
                q_state = if reid { "reidentified" } else { "rekeyed" };
                sc.cover(format!("q:{q_state}"));
            }
        }
        // out of order inside the new epoch: P sends two application messages, the subjects receive only the second one now
        // (the first goes to the pool of late messages), so their ratchets hold a skipped key when they are written / reloaded
        if rng.chance(1, 2) {
            let ep_now = sc.w.group(0).current_epoch();
            let (_, m_a) = sc.w.with_group(0, |g| g.encrypt_application_message(b"skipped", vec![]));
            let (_, m_b) = sc.w.with_group(0, |g| g.encrypt_application_message(b"first-delivered", vec![]));
            if let (Some(m_a), Some(m_b)) = (m_a, m_b) {
                for i in [1usize, 2] {
                    if sc.w.members[i].group.is_some() {
                        // (the never-reloaded twin of the subject sees the same traffic)
                        let (r, _) = sc.deliver(i, &m_b, "app", false);
                        if !r.ok() {
                            sc.out.fails.push(("C05".into(), format!("subject {i} cannot read an application message that overtook another one: {}", r.s())));
                        }
                    }
                }
                pool.entry(ep_now).or_default().push(m_a.clone());
                pool.entry(ep_now).or_default().push(m_a);
                sc.cover("skipped-generation-before-write".into());
            }
        }
        // the side groups advance and are written; their stored prior epochs are recorded
        for i in [1usize, 2] {
            if let Some(g) = side.get_mut(&i) {
                let before = g.current_epoch();
                // sometimes two epochs per write, so that the trim at a write removes more than one record
                let two = rng.chance(1, 4);
                let mut ok = g.commit(vec![]).and_then(|_| g.apply_pending_commit()).is_ok();
                if ok && two {
                    ok = g.commit(vec![]).and_then(|_| g.apply_pending_commit()).is_ok();
                }
                let ok = ok && g.write_to_storage().is_ok();
                if ok {
                    let qs = &mut qa_side[i - 1];
                    for e in before..g.current_epoch() {
                        qs.put(&format!("repo.ins {e}"), "ok");
                    }
                    qs.put("repo.write", "ok");
                }
                if !ok {
                    sc.out.fails.push(("C06".into(), format!("subject {i}: side group cannot advance / be written")));
                    continue;
                }
                let gid = g.group_id().to_vec();
                let cur = g.current_epoch();
                let mut m = BTreeMap::new();
                for e in 0..cur {
                    if let Ok(Some(rec)) = sc.w.members[i].h.store.epoch(&gid, e) {
                        m.insert(e, rec.to_vec());
                    }
                }
                qa_side[i - 1].put("repo.ids", &list(&m.keys().cloned().collect::<Vec<u64>>()));
                side_stored.insert(i, m);
            }
        }
        // ---- persistence events on the two subjects -----------------------------------------------------------------
        for i in [1usize, 2] {
            let ev = rng.below(10);
            if ev < 3 {
                sc.persist(i, Ev::Write, "end-of-round");
            } else if ev < 6 && sc.written.contains_key(&i) {
                // reload: write first (ev 3,4) or crash (ev 5: drop unwritten state)
                sc.persist(i, if ev == 5 { Ev::Crash } else { Ev::Reload }, "end-of-round");
            }
        }
        // provider level: a write whose epoch part cannot succeed (an insert of an epoch id that is already stored) must not
        // store its snapshot part either -- a failed write changes nothing
        if rng.chance(1, 3) {
            // (only on the SQLite subject: the in-memory provider has no uniqueness constraint and simply appends)
            for (i, tag) in [(2usize, "sql")] {
                if sc.w.members[i].group.is_none() || !sc.written.contains_key(&i) || !sc.w.members[i].setup.sqlite {
                    continue;
                }
                let w = &sc.w;
                let gid = w.group(i).group_id().to_vec();
                let ids = stored_ids(w, i);
                let Some(&dup) = ids.first() else { continue };
                let before_state = w.members[i].h.store.state(&gid).ok().flatten().map(|z| z.to_vec());
                let before_epoch = w.members[i].h.store.epoch(&gid, dup).ok().flatten().map(|z| z.to_vec());
                let mut store = w.members[i].h.store.clone();
                let poisoned = mls_rs_core::group::GroupState { id: gid.clone(), data: zeroize::Zeroizing::new(b"poisoned-snapshot".to_vec()) };
                let r = store.write(poisoned, vec![mls_rs_core::group::EpochRecord::new(dup, zeroize::Zeroizing::new(b"poisoned-epoch".to_vec()))], vec![]);
                sc.out.cases += 1;
                let after_state = w.members[i].h.store.state(&gid).ok().flatten().map(|z| z.to_vec());
                let after_epoch = w.members[i].h.store.epoch(&gid, dup).ok().flatten().map(|z| z.to_vec());
                match r {
                    Err(_) => {
                        if after_state != before_state || after_epoch != before_epoch {
                            sc.out.fails.push(("C06".into(), format!("{tag}: a storage write that failed (duplicate epoch {dup}) still changed the stored {}", if after_state != before_state { "snapshot" } else { "epoch record" })));
                        }
                        sc.out.cover.insert(format!("failed-write:{tag}:rejected"));
                    }
                    Ok(()) => {
                        // the provider accepted the duplicate: put the genuine records back so that the scenario continues
                        sc.out.cover.insert(format!("failed-write:{tag}:accepted"));
                        if let (Some(s0), Some(e0)) = (before_state, before_epoch) {
                            let _ = store.write(
                                mls_rs_core::group::GroupState { id: gid.clone(), data: zeroize::Zeroizing::new(s0) },
                                vec![],
                                vec![mls_rs_core::group::EpochRecord::new(dup, zeroize::Zeroizing::new(e0))],
                            );
                        }
                    }
                }
            }
        }
        // the main group's writes left the other group's stored prior epochs alone
        for (i, tag) in [(1usize, "mem"), (2usize, "sql")] {
            if let (Some(g), Some(exp)) = (side.get(&i), side_stored.get(&i)) {
                let gid = g.group_id().to_vec();
                for (e, rec) in exp {
                    let now_rec = sc.w.members[i].h.store.epoch(&gid, *e).ok().flatten().map(|z| z.to_vec());
                    if now_rec.as_ref() != Some(rec) {
                        sc.out.fails.push(("C06".into(), format!("{tag}: writing the main group changed the stored prior epoch {e} of another group in the same storage")));
                        break;
                    }
                }
                sc.out.cover.insert(format!("side-group:{tag}:stored={}", exp.len().min(5)));
            }
        }
        // which resumption secrets of past epochs the repository resolves (read-only lookup path of its own, `repo.psk` rows):
        // for the own group and, from the side group on the same storage, for the main group as "another group"
        for (i, _tag) in [(1usize, "mem"), (2usize, "sql")] {
            if sc.w.members[i].group.is_none() {
                continue;
            }
            let cur = sc.w.group(i).current_epoch();
            let gid = sc.w.group(i).group_id().to_vec();
            for _ in 0..3 {
                let e = cur.saturating_sub(rng.below(ret as u64 + 3));
                if e >= cur {
                    continue;
                }
                if let Ok(av) = sc.w.group(i).verif_resumption_secret_available(&gid, e) {
                    sc.qa(i).put(&format!("repo.psk {e}"), if av { "some" } else { "none" });
                    sc.out.cover.insert(format!("psk-lookup:{}", if av { "some" } else { "none" }));
                    // the side group (another group on the same storage) resolves it exactly when the record is STORED
                    if let Some(sg) = side.get(&i) {
                        let stored = matches!(sc.w.members[i].h.store.epoch(&gid, e), Ok(Some(_)));
                        match sg.verif_resumption_secret_available(&gid, e) {
                            Ok(x) if x != stored => sc.out.fails.push(("C06".into(), format!("another group on the same storage resolves the resumption secret of epoch {e}: {x}, stored: {stored}"))),
                            _ => {}
                        }
                    }
                }
            }
        }
        // both back ends expose the same stored history when written at the same points -- compared through the model rows;
        // ---- late messages of random age to both subjects (fresh message each) ----------------------------------------
        let now = sc.w.group(0).current_epoch();
        for _ in 0..2 {
            let age = rng.below(ret as u64 + 3);
            if age > now {
                continue;
            }
            let e = now - age;
            let Some(msgs) = pool.get_mut(&e) else { continue };
            if msgs.len() < 2 {
                continue;
            }
            let m1 = msgs.pop().unwrap();
            let m2 = msgs.pop().unwrap();
            let mut verdicts = vec![];
            for (i, m) in [(1usize, m1), (2usize, m2)] {
                if sc.w.members[i].group.is_none() {
                    continue;
                }
                // (a message of the current epoch changes the live ratchet: it is part of the traffic proper, the twin must agree)
                let (r, _) = sc.deliver(i, &m, "app", age > 0);
                sc.out.lates += 1;
                let v = match &r {
                    Res::Ok => "some",
                    Res::Err(e) if e == "EpochNotFound" => "none",
                    Res::Err(e) => {
                        sc.out.fails.push(("C19".into(), format!("late message of age {age} (ret {ret}): unexpected error {e}")));
                        "none"
                    }
                    Res::Panic(p) => {
                        sc.out.fails.push(("C19".into(), format!("panic on late message: {p}")));
                        "none"
                    }
                };
                if age > 0 {
                    sc.qa(i).put(&format!("repo.get {e}"), v);
                }
                verdicts.push(v);
                sc.out.cover.insert(format!("late:age={}:{}", age.min(6), v));
                if v == "some" {
                    sc.accepted_lates.push((i, m, e, true));
                }
            }
            // C05: a late message that was accepted is never accepted again, whatever other epochs were touched in between
            // (the ratchet state of a prior epoch loaded from storage must stay the one that consumed the key)
            if !sc.accepted_lates.is_empty() {
                let k = rng.below(sc.accepted_lates.len() as u64) as usize;
                let (i, m, e, _) = sc.accepted_lates[k].clone();
                if sc.w.members[i].group.is_some() {
                    let (r, _) = sc.deliver(i, &m, "app", true);
                    sc.out.lates += 1;
                    if r.ok() {
                        sc.out.fails.push(("C05".into(), format!("subject {i} accepted the late application message of epoch {e} a second time (now at epoch {now})")));
                    }
                    sc.out.cover.insert(format!("late-replay:{}", if r.ok() { "accepted" } else { "rejected" }));
                }
            }
        }
        // ---- Q's old messages after its leaf changed: to P, and to both subjects as they are now (written / reloaded / restored),
        // on clones so that neither their state nor the model rows are touched ----------------------------------------------
        if !q_pool.is_empty() && rng.chance(1, 2) {
            let k = rng.below(q_pool.len() as u64) as usize;
            let (qe, qm) = q_pool.remove(k);
            let now = sc.w.group(0).current_epoch();
            if qe < now {
                for i in [1usize, 2] {
                    if sc.w.members[i].group.is_none() {
                        continue;
                    }
                    let tag = tag_of(i);
                    let avail = retained(&sc.w, i, qe);
                    let hist = if sc.reloaded.contains(&i) {
                        "reloaded"
                    } else if sc.written.contains_key(&i) {
                        "written"
                    } else {
                        "never written"
                    };
                    let mut c = sc.w.group(i).clone();
                    let at = c.current_epoch();
                    let mm = qm.clone();
                    let (r, o) = guard(|| c.process_incoming_message(mm));
                    sc.out.lates += 1;
                    let what = format!("late message of Q (epoch {qe}) delivered to the {tag} subject ({hist}, epoch {at}, epoch {qe} {})", if avail { "retained" } else { "not retained" });
                    match q_state {
                        "removed" | "replaced" | "reidentified" => {
                            if r.ok() {
                                sc.fail("C19", format!("{what} accepted although Q's leaf is now {q_state}: {:?}", o.as_ref().map(received_summary)));
                            }
                            sc.cover(format!("late-sender:{tag}:{q_state}:{}", if r.ok() { "accepted" } else if avail { "rejected" } else { "not-retained" }));
                        }
                        _ => {
                            // member / rekeyed with the same signature key: accepted exactly while THIS subject retains the epoch
                            match (&r, avail) {
                                (Res::Ok, true) => match &o {
                                    Some(ReceivedMessage::ApplicationMessage(a)) => {
                                        if Some(a.sender_index) != q_leaf {
                                            sc.fail("C19", format!("{what} attributed to leaf {} instead of Q's leaf {q_leaf:?}", a.sender_index));
                                        }
                                    }
                                    other => sc.fail("C19", format!("{what} is not reported as an application message: {:?}", other.as_ref().map(received_summary))),
                                },
                                (Res::Ok, false) => sc.fail("C19", format!("{what} accepted")),
                                (Res::Err(e), false) if e == "EpochNotFound" => {}
                                (x, _) => sc.fail("C19", format!("{what}, Q's leaf unchanged ({q_state}): {}", x.s())),
                            }
                            sc.cover(format!("late-sender:{tag}:{q_state}:{}", if r.ok() { "accepted" } else if avail { "rejected" } else { "not-retained" }));
                        }
                    }
                    if hist == "reloaded" {
                        sc.cover(format!("late-sender:{tag}:after-reload"));
                    }
                }
                let (r, o) = sc.w.with_group(0, |g| g.process_incoming_message(qm));
                sc.out.lates += 1;
                let accepted = r.ok();
                match q_state {
                    "removed" | "replaced" | "reidentified" => {
                        if accepted {
                            sc.out.fails.push(("C19".into(), format!("late message of Q (epoch {qe}) accepted at epoch {now} although Q's leaf is now {q_state}: {:?}", o.map(|x| received_summary(&x)))));
                        }
                        sc.out.cover.insert(format!("late-sender:{q_state}:{}", if accepted { "accepted" } else { "rejected" }));
                    }
                    _ => {
                        // member / rekeyed with the same signature key: accepted while retained (P retains 3)
                        if let Some(ReceivedMessage::ApplicationMessage(a)) = o {
                            if Some(a.sender_index) != q_leaf {
                                sc.out.fails.push(("C19".into(), "late message attributed to another member".into()));
                            }
                        }
                        sc.out.cover.insert(format!("late-sender:{q_state}:{}", if accepted { "accepted" } else { "rejected" }));
                    }
                }
            }
        }
        // ---- both subjects are in lockstep with their never-reloaded twins at the end of every round ----------------------
        for i in [1usize, 2] {
            sc.lockstep(i, "at the end of the round");
        }
    }
    let Sc { mut w, out, qa_mem, qa_sql, .. } = sc;
    // ---- re-join on a storage that still holds prior epochs of the earlier membership ----------------------------------------
    // the repository only accepts a prior epoch whose id continues the stored ones (`insert`): after P removed a subject and
    // added it again, the first commit the new group object processes inserts the epoch it joined at (known finding F14 when
    // that is refused; here only the repository verdict is compared with the model: `repo.reload`, `repo.ins`)
    if rng.chance(1, 2) {
        for (i, _tag) in [(1usize, "mem"), (2usize, "sql")] {
            if w.members[i].group.is_none() || !w.members[i].wrote {
                continue;
            }
            let leaf = w.group(i).current_member_index();
            let (_, o) = w.with_group(0, |g| g.commit_builder().remove_member(leaf)?.build());
            if o.is_none() {
                continue;
            }
            w.with_group(0, |g| g.apply_pending_commit());
            let removal = o.unwrap().commit_message;
            for j in 1..w.members.len() {
                if w.members[j].group.is_some() {
                    let m = removal.clone();
                    let _ = w.with_group(j, |g| g.process_incoming_message(m));
                }
            }
            w.members[i].group = None;
            let Ok(kp) = w.members[i].client.generate_key_package_message(Default::default(), Default::default(), None) else { continue };
            let (_, o) = w.with_group(0, |g| g.commit_builder().add_member(kp)?.build());
            let Some(o) = o else { continue };
            w.with_group(0, |g| g.apply_pending_commit());
            for j in 1..w.members.len() {
                if w.members[j].group.is_some() {
                    let m = o.commit_message.clone();
                    let _ = w.with_group(j, |g| g.process_incoming_message(m));
                }
            }
            let joined = o.welcome_messages.iter().find_map(|wm| w.members[i].client.join_group(None, wm, None).ok().map(|x| x.0));
            let Some(g) = joined else { continue };
            let joined_at = g.current_epoch();
            w.members[i].group = Some(g);
            // the next commit makes the re-joined member insert the epoch it joined at
            let (_, o) = w.with_group(0, |g| g.commit(vec![]));
            let Some(o) = o else { continue };
            w.with_group(0, |g| g.apply_pending_commit());
            let m = o.commit_message.clone();
            let (r, _) = w.with_group(i, |g| g.process_incoming_message(m));
            let qa: &mut QA = if i == 1 { &mut *qa_mem } else { &mut *qa_sql };
            qa.put("repo.reload", "ok");
            match &r {
                Res::Ok => qa.put(&format!("repo.ins {joined_at}"), "ok"),
                Res::Err(e) if e == "InvalidEpoch" => qa.put(&format!("repo.ins {joined_at}"), "err"),
                _ => {}
            }
            out.cover.insert(format!("rejoin-on-old-storage:{}", r.s()));
            break;
        }
    }
    if out.samples.len() < 4 {
        out.samples.push(format!("ret={ret} steps={steps} q_state={q_state}"));
    }
    for m in &w.members {
        if let Some(p) = &m.h.sqlite_path {
            let _ = std::fs::remove_file(p);
        }
    }
}

pub fn run(o: &Opts) -> i32 {
    crate::util::quiet_panics();
    let dir = o.str("out", "/verif/work/c06");
    let mut rng = Rng::new(o.seed());
    let mut qa_mem = QA::create(&dir, "c06");
    let mut qa_sql = QA::create(&dir, "c06sql");
    let mut qa_side = [QA::create(&dir, "c06sidemem"), QA::create(&dir, "c06sidesql")];
    let n = o.u64("scenarios", if o.thorough() { 1500 } else { 80 });
    let mut out = Out { fails: vec![], cases: 0, lates: 0, reloads: 0, crashes: 0, cover: Default::default(), samples: vec![] };
    let mk = |s: &Setup, hd: &Handles, id, sk| mk_client(s, hd, id, sk);
    for _ in 0..n {
        let mut r = rng.fork();
        scenario(&mut r, &mk, &mut out, &mut qa_mem, &mut qa_sql, &mut qa_side);
    }
    let rows = qa_mem.finish();
    let [qs_mem, qs_sql] = qa_side;
    let rows2 = qa_sql.finish() + qs_mem.finish() + qs_sql.finish();
    // one stream for the driver: concatenate
    let cat = |ext: &str| {
        let mut s = String::new();
        for a in ["c06", "c06sql", "c06sidemem", "c06sidesql"] {
            s.push_str(&std::fs::read_to_string(format!("{dir}/{a}.{ext}")).unwrap_or_default());
        }
        std::fs::write(format!("{dir}/c06all.{ext}"), s).unwrap();
    };
    cat("q");
    cat("rust");
    println!("rows {}", rows + rows2);
    println!("cases {}", out.cases);
    println!("late_deliveries {}", out.lates);
    println!("reloads {}", out.reloads);
    println!("crashes {}", out.crashes);
    println!("cover {}", out.cover.iter().cloned().collect::<Vec<_>>().join(";"));
    let focus = o.str("focus", "");
    let rel: Vec<&(String, String)> = out.fails.iter().filter(|(p, _)| focus.is_empty() || focus.split(',').any(|f| f == p)).collect();
    println!("oracle_failures {}", rel.len());
    let stem = "c06all";
    std::fs::write(format!("{dir}/{stem}.failures"), rel.iter().map(|(p, w)| format!("{p}: {w}")).collect::<Vec<_>>().join("\n")).unwrap();
    std::fs::write(format!("{dir}/{stem}.samples"), out.samples.join("\n")).unwrap();
    let _ = std::fs::remove_dir_all(scratch_dir());
    0
}
