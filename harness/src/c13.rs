//! C13: byte-level derivations of the real crate (hook `verif::kdf`) on fresh random inputs; the Lean
//! driver recomputes every value with the Lean reference HKDF/HMAC/SHA-2 through the key-schedule /
//! secret-tree model.  Also used by C05 (ratchet scripts) through `st.*` queries.
use crate::util::{hex, Opts, Rng, QA};
use mls_rs::group::GroupContext;
use mls_rs::mls_rs_codec::{MlsDecode, MlsEncode};
use mls_rs::verif::kdf;
use mls_rs::{CipherSuite, CipherSuiteProvider, CryptoProvider};
use mls_rs_crypto_openssl::OpensslCryptoProvider;
use mls_rs_crypto_rustcrypto::RustCryptoProvider;

pub fn varint(n: usize) -> Vec<u8> {
    if n < 64 {
        vec![n as u8]
    } else if n < 16384 {
        vec![0x40 | (n >> 8) as u8, n as u8]
    } else {
        vec![0x80 | (n >> 24) as u8, (n >> 16) as u8, (n >> 8) as u8, n as u8]
    }
}

pub fn varbytes(b: &[u8]) -> Vec<u8> {
    let mut v = varint(b.len());
    v.extend_from_slice(b);
    v
}

fn random_context(rng: &mut Rng, suite: u16) -> GroupContext {
    let mut b = vec![0u8, 1];
    b.extend_from_slice(&suite.to_be_bytes());
    let gl = rng.below(40) as usize;
    b.extend(varbytes(&rng.bytes(gl)));
    b.extend_from_slice(&rng.next().to_be_bytes());
    let tl = rng.below(70) as usize;
    b.extend(varbytes(&rng.bytes(tl)));
    let cl = rng.below(70) as usize;
    b.extend(varbytes(&rng.bytes(cl)));
    // extensions: 0..2 extensions of unknown type
    let mut exts = vec![];
    for i in 0..rng.below(3) {
        exts.extend_from_slice(&(0xF000u16 + i as u16).to_be_bytes());
        let el = rng.below(80) as usize;
        exts.extend(varbytes(&rng.bytes(el)));
    }
    b.extend(varbytes(&exts));
    GroupContext::mls_decode(&mut &*b).expect("context decodes")
}

fn random_psk_id(rng: &mut Rng) -> Vec<u8> {
    let mut b = vec![];
    if rng.chance(1, 2) {
        b.push(1);
        let l = rng.below(40) as usize;
        b.extend(varbytes(&rng.bytes(l)));
    } else {
        b.push(2);
        b.push(rng.range(1, 3) as u8);
        let l = rng.below(40) as usize;
        b.extend(varbytes(&rng.bytes(l)));
        b.extend_from_slice(&rng.below(1 << 40).to_be_bytes());
    }
    let nl = rng.below(70) as usize;
    b.extend(varbytes(&rng.bytes(nl)));
    b
}

fn secret(rng: &mut Rng, nh: usize) -> Vec<u8> {
    // mostly Nh-sized, sometimes longer (the providers reject a PRK shorter than Nh and an empty
    // IKM with an error before any derivation; that guard is outside the RFC formulas)
    match rng.below(10) {
        0 => {
            let l = nh + rng.below(100) as usize;
            rng.bytes(l)
        }
        _ => rng.bytes(nh),
    }
}

pub fn err_class(e: &mls_rs::error::MlsError) -> String {
    use mls_rs::error::MlsError as E;
    match e {
        E::KeyMissing(_) => "err:KeyMissing".into(),
        E::InvalidFutureGeneration(_) => "err:FutureGen".into(),
        E::LeafNodeNoChildren => "err:NoChildren".into(),
        E::InvalidLeafConsumption => "err:LeafConsumption".into(),
        _ => "err:Other".to_string(),
    }
}

fn epoch_line(o: &kdf::EpochOut) -> String {
    [
        &o.joiner, &o.resumption, &o.sender_data, &o.encryption, &o.exporter, &o.authentication,
        &o.external, &o.membership, &o.init, &o.confirmation_key,
    ]
    .iter()
    .map(|b| hex(b))
    .collect::<Vec<_>>()
    .join(" ")
}

fn vectors<P: CipherSuiteProvider>(cs: &P, suite: u16, n: u64, rng: &mut Rng, qa: &mut QA) {
    let nh = cs.kdf_extract_size();
    for _ in 0..n {
        let ctx = random_context(rng, suite);
        let ctxb = ctx.mls_encode_to_vec().unwrap();
        let (init, commit, psk) = (secret(rng, nh), secret(rng, nh), secret(rng, nh));
        let size = 1u32 << rng.below(8);
        let r = kdf::from_key_schedule(cs, &init, &commit, &ctx, size, &psk);
        qa.put(
            &format!("ks {suite} {} {} {} {} {size}", hex(&init), hex(&commit), hex(&ctxb), hex(&psk)),
            &r.as_ref().map(epoch_line).unwrap_or("err".into()),
        );
        let joiner = r.map(|o| o.joiner).unwrap_or_else(|_| rng.bytes(nh));
        let r2 = kdf::from_joiner(cs, &joiner, &ctx, size, &psk);
        qa.put(
            &format!("fj {suite} {} {} {} {size}", hex(&joiner), hex(&ctxb), hex(&psk)),
            &r2.as_ref().map(epoch_line).unwrap_or("err".into()),
        );
        let w = kdf::welcome_key_nonce(cs, &joiner, &psk);
        qa.put(
            &format!("wel {suite} {} {}", hex(&joiner), hex(&psk)),
            &w.map(|(k, n)| format!("{} {}", hex(&k), hex(&n))).unwrap_or("err".into()),
        );
        // exporter
        let exporter = r2.as_ref().map(|o| o.exporter.clone()).unwrap_or_else(|_| rng.bytes(nh));
        let ll = rng.below(40) as usize;
        let label = rng.bytes(ll);
        let cl = rng.below(150) as usize;
        let ectx = rng.bytes(cl);
        let len = match rng.below(6) {
            0 => 1,
            1 => nh,
            2 => rng.below(255 * nh as u64 + 1) as usize,
            _ => rng.range(1, 100) as usize,
        };
        let e = kdf::export_secret(cs, &exporter, &label, &ectx, len);
        qa.put(
            &format!("exp {suite} {} {} {} {len}", hex(&exporter), hex(&label), hex(&ectx)),
            &e.map(|b| hex(&b)).unwrap_or("err".into()),
        );
        // raw expand-with-label incl. lengths around the HKDF limit
        let s = secret(rng, nh);
        let len2 = match rng.below(8) {
            0 => Some(255 * nh),
            1 => Some(255 * nh + 1),
            2 => None,
            _ => Some(1 + rng.below(3 * nh as u64 + 2) as usize),
        };
        let e = kdf::expand_with_label(cs, &s, &label, &ectx, len2);
        qa.put(
            &format!(
                "ewl {suite} {} {} {} {}",
                hex(&s),
                hex(&label),
                hex(&ectx),
                len2.map(|l| l.to_string()).unwrap_or("-".into())
            ),
            &e.map(|b| hex(&b)).unwrap_or("err".into()),
        );
        // PSK secret chain
        let np = rng.below(5) as usize;
        let inputs: Vec<(Vec<u8>, Vec<u8>)> = (0..np)
            .map(|_| {
                let l = 1 + rng.below(70) as usize; // an empty PSK value is rejected by the providers (empty IKM)
                (random_psk_id(rng), rng.bytes(l))
            })
            .collect();
        let p = kdf::psk_secret(cs, &inputs);
        let mut q = format!("psk {suite} {np}");
        for (id, v) in &inputs {
            q.push_str(&format!(" {} {}", hex(id), hex(v)));
        }
        qa.put(&q, &p.map(|b| hex(&b)).unwrap_or("err".into()));
        // confirmation tag
        let (ck, ch) = (secret(rng, nh), secret(rng, nh));
        let t = kdf::confirmation_tag(cs, &ck, &ch);
        qa.put(&format!("ctag {suite} {} {}", hex(&ck), hex(&ch)), &t.map(|b| hex(&b)).unwrap_or("err".into()));
    }
}

/// A secret-tree script: requests in random order over several leaves, both key types, forward
/// jumps, replays, boundary generations, optional encode/decode of the tree in the middle.
pub fn secret_tree_script<P: CipherSuiteProvider>(cs: &P, suite: u16, rng: &mut Rng, qa: &mut QA, ops: u64, boundary: bool) {
    let nh = cs.kdf_extract_size();
    let k = rng.below(6) as u32;
    let size = 1u32 << k;
    let enc = rng.bytes(nh);
    let mut st = kdf::VSecretTree::new(size, &enc);
    qa.put(&format!("st.new {suite} {size} {}", hex(&enc)), "ok");
    let nleaves = size.min(1 + rng.below(4) as u32);
    let leaves: Vec<u32> = (0..nleaves).map(|_| 2 * rng.below(size as u64) as u32).collect();
    let mut top: std::collections::BTreeMap<(u32, bool), u32> = Default::default();
    for _ in 0..ops {
        let leaf = *rng.pick(&leaves);
        let app = rng.chance(2, 3);
        let kt = if app { "app" } else { "hs" };
        let cur = *top.get(&(leaf, app)).unwrap_or(&0);
        let fmt = |r: Result<(Vec<u8>, Vec<u8>, u32), mls_rs::error::MlsError>| match r {
            Ok((n, k, g)) => format!("{} {} {g}", hex(&n), hex(&k)),
            Err(e) => err_class(&e),
        };
        match rng.below(if boundary { 12 } else { 10 }) {
            0..=2 => {
                let r = st.next(cs, leaf, app);
                if r.is_ok() {
                    top.insert((leaf, app), cur + 1);
                }
                qa.put(&format!("st.next {leaf} {kt}"), &fmt(r));
            }
            3..=5 => {
                // small forward jump or exact next
                let g = cur + rng.below(6) as u32;
                let r = st.get(cs, leaf, app, g);
                if r.is_ok() {
                    top.insert((leaf, app), g + 1);
                }
                qa.put(&format!("st.get {leaf} {kt} {g}"), &fmt(r));
            }
            6..=7 => {
                // a past generation (skipped or already used)
                let g = rng.below(cur as u64 + 1) as u32;
                let r = st.get(cs, leaf, app, g);
                qa.put(&format!("st.get {leaf} {kt} {g}"), &fmt(r));
            }
            8 => {
                let r = st.known();
                let s = r.iter().map(|(i, k)| format!("{i}:{k}")).collect::<Vec<_>>().join(",");
                qa.put("st.known", if s.is_empty() { "-" } else { &s });
            }
            9 => {
                let b = st.encode();
                st = kdf::VSecretTree::decode(&b).expect("secret tree re-decodes");
                qa.put("st.reload", "ok");
            }
            _ => {
                // window boundary: cur+1023, cur+1024 (accepted), cur+1025 (rejected)
                let g = cur + 1023 + rng.below(3) as u32;
                let r = st.get(cs, leaf, app, g);
                if r.is_ok() {
                    top.insert((leaf, app), g + 1);
                }
                qa.put(&format!("st.get {leaf} {kt} {g}"), &fmt(r));
            }
        }
    }
    // a node index that is not a leaf, and one outside the tree
    let r = st.next(cs, 2 * size + 2, true);
    qa.put(&format!("st.next {} app", 2 * size + 2), &match r {
        Ok((n, k, g)) => format!("{} {} {g}", hex(&n), hex(&k)),
        Err(e) => err_class(&e),
    });
}

pub fn run(o: &Opts) -> i32 {
    let dir = o.str("out", "/verif/work/c13");
    let mut qa = QA::create(&dir, "c13");
    let mut rng = Rng::new(o.seed());
    let n = o.u64("vectors", if o.thorough() { 20000 } else { 400 });
    let scripts = o.u64("scripts", if o.thorough() { 3000 } else { 60 });
    let rc = RustCryptoProvider::default();
    let ossl = OpensslCryptoProvider::default();
    let mut suites_done = vec![];
    for suite in 1u16..=7 {
        let cs_id = CipherSuite::from(suite);
        if let Some(cs) = rc.cipher_suite_provider(cs_id) {
            vectors(&cs, suite, n, &mut rng, &mut qa);
            for i in 0..scripts {
                secret_tree_script(&cs, suite, &mut rng, &mut qa, 40, i % 5 == 0);
            }
            suites_done.push(format!("{suite}:rustcrypto"));
        }
        if let Some(cs) = ossl.cipher_suite_provider(cs_id) {
            vectors(&cs, suite, n, &mut rng, &mut qa);
            for i in 0..scripts {
                secret_tree_script(&cs, suite, &mut rng, &mut qa, 40, i % 5 == 0);
            }
            suites_done.push(format!("{suite}:openssl"));
        }
    }
    let rows = qa.finish();
    println!("rows {rows}");
    println!("suites {}", suites_done.join(","));
    0
}
