//! Random group histories over the real library, with the direct oracles of the group-level properties
//! (C01 agreement, C02 removed members, C05 replay, C07 joiners, C08 tree validity, C09 private keys,
//! C10 commit acceptance, C06 reload) and emission of the per-layer query streams for the Lean models.
use crate::util::{Opts, Rng, QA};
use crate::providers::SharedCryptoLog;
use crate::world::*;
use mls_rs::client_builder::MlsConfig;
use mls_rs::crypto::{HpkePublicKey, HpkeSecretKey};
use mls_rs::group::{CommitEffect, Node, ReceivedMessage};
use mls_rs::{CipherSuite, CipherSuiteProvider, Client, CryptoProvider, MlsMessage};
use std::collections::{BTreeMap, BTreeSet};

#[derive(Clone, Debug)]
pub struct Profile {
    pub max_members: usize,
    pub rounds: usize,
    pub p_byref: u64,    // per-mille chance to issue by-reference proposals in a round
    pub p_remove: u64,   // chance that a proposal/commit removes someone
    pub p_update: u64,
    pub p_add: u64,
    pub p_psk: u64,
    pub p_reload: u64,
    pub p_race: u64,
    pub p_echo: u64,     // committer processes its own commit instead of apply_pending_commit
    pub p_newid: u64,
    pub p_extcommit: u64,
    pub apps_per_round: u64,
    pub sqlite_mix: bool,
    pub options_mix: bool,
    /// every member sends public (unencrypted) handshake messages, so external observers can follow
    pub public_handshake: bool,
    /// per-mille chance per round to add offending by-reference proposals (C10)
    pub p_offend: u64,
    /// per-mille chance per commit to remove the whole right half of the tree in one commit
    pub p_shrink: u64,
    /// per-mille chance per round that an outsider joins by an external commit instead of a member committing
    pub p_external: u64,
    /// C14: every member picks one of the three shipped providers at random; `suite` is the group's cipher suite
    pub mixed_providers: bool,
    pub suite: u16,
    /// suites to cycle through, one per history
    pub suites: Vec<u16>,
}

impl Profile {
    pub fn default_mix() -> Self {
        Profile {
            max_members: 9,
            rounds: 14,
            p_byref: 600,
            p_remove: 300,
            p_update: 350,
            p_add: 550,
            p_psk: 150,
            p_reload: 150,
            p_race: 120,
            p_echo: 300,
            p_newid: 80,
            p_extcommit: 100,
            apps_per_round: 2,
            sqlite_mix: false,
            options_mix: true,
            public_handshake: false,
            p_offend: 0,
            p_shrink: 60,
            p_external: 40,
            mixed_providers: false,
            suite: 1,
            suites: vec![1],
        }
    }
}

#[derive(Clone, Debug)]
pub struct Failure {
    pub prop: &'static str,
    pub what: String,
    pub at_op: usize,
}

#[derive(Default)]
pub struct Report {
    pub failures: Vec<Failure>,
    pub cover: BTreeSet<String>,
    pub ops: BTreeMap<String, u64>,
    pub results: BTreeMap<String, u64>,
    pub commits: u64,
    pub max_depth: u32,
    pub samples: Vec<String>,
}

impl Report {
    pub fn op(&mut self, k: &str, r: &Res) {
        *self.ops.entry(k.to_string()).or_default() += 1;
        let rc = match r {
            Res::Ok => "ok".to_string(),
            Res::Err(e) => format!("err:{e}"),
            Res::Panic(_) => "panic".to_string(),
        };
        *self.results.entry(format!("{k}:{rc}")).or_default() += 1;
    }
}

/// Something that listens to the traffic of a history (e.g. external observers, C16).
pub trait Tap<C: MlsConfig> {
    /// a message was handed to the delivery service
    fn broadcast(&mut self, w: &World<C>, mi: usize, rng: &mut Rng) -> Vec<Failure>;
    /// a commit was accepted by the group; `active` are the members of the new epoch
    fn after_commit(&mut self, w: &World<C>, active: &[usize], cmi: usize, rng: &mut Rng) -> Vec<Failure>;
}

pub struct Hist<'a, C: MlsConfig> {
    pub tap: Option<&'a mut dyn Tap<C>>,
    pub w: World<C>,
    pub rng: Rng,
    pub prof: Profile,
    pub rep: Report,
    pub mk: &'a dyn Fn(&Setup, &Handles, mls_rs::identity::SigningIdentity, mls_rs::crypto::SignatureSecretKey) -> Client<C>,
    pub next_name: usize,
    /// capability defect of the next client created by `new_member` (see `Setup::bad_caps`)
    pub pending_bad_caps: u8,
    /// identities of clients whose key packages are invalid by construction
    pub bad_kp_ids: Vec<Vec<u8>>,
    /// (member, epoch): members that sent an Update with an HPKE key they do not own (offender kind 7) in that epoch
    pub forgers: Vec<(usize, u64)>,
    /// forgers whose forged Update was committed: they cannot process that commit (their own doing) and drop out of the run
    pub zombies: Vec<usize>,
    pub tree_qa: Option<&'a mut QA>,
    pub filter_qa: Option<&'a mut QA>,
    /// outsiders that generated a key package not yet used: (member index, kp message)
    pub kps: Vec<(usize, MlsMessage)>,
    pub last_commit_epoch_ok: bool,
}

#[derive(Clone, Debug, Default)]
pub struct Edits {
    pub rm: Vec<u32>,
    pub up: Vec<(u32, usize, usize, usize)>,
    pub add: Vec<(usize, usize, usize)>,
}

fn list_u32(v: &[u32]) -> String {
    if v.is_empty() {
        "-".into()
    } else {
        v.iter().map(|x| x.to_string()).collect::<Vec<_>>().join(",")
    }
}

/// Rename the stamps that are not in `known` to 1000001, 1000002, … by first appearance in node order.
pub fn canon_tree(t: &[ANode], known: &BTreeSet<usize>) -> Vec<ANode> {
    let mut ren: BTreeMap<usize, usize> = BTreeMap::new();
    let mut f = |x: usize, ren: &mut BTreeMap<usize, usize>| {
        if known.contains(&x) {
            x
        } else {
            let n = 1_000_001 + ren.len();
            *ren.entry(x).or_insert(n)
        }
    };
    t.iter()
        .map(|n| match n {
            ANode::Blank => ANode::Blank,
            ANode::Leaf { ident, hpke, sig } => ANode::Leaf { ident: f(*ident, &mut ren), hpke: f(*hpke, &mut ren), sig: f(*sig, &mut ren) },
            ANode::Parent { key, unmerged } => ANode::Parent { key: f(*key, &mut ren), unmerged: unmerged.clone() },
        })
        .collect()
}

/// RFC 9420 §7.8 tree hash recomputed from scratch by plain recursion over the exported nodes
/// (independent of the library's incremental cache; only the node encodings come from the library).
pub fn independent_tree_hash(nodes: &[Option<Node>], suite: u16) -> Vec<u8> {
    use mls_rs::mls_rs_codec::MlsEncode;
    let cs = crate::anyprov::cs_for(suite);
    let n_leaves = (nodes.len() / 2 + 1).next_power_of_two();
    fn vb(b: &[u8]) -> Vec<u8> {
        let mut v = crate::c13::varint(b.len());
        v.extend_from_slice(b);
        v
    }
    fn go<P: CipherSuiteProvider>(cs: &P, nodes: &[Option<Node>], lo: usize, hi: usize) -> Vec<u8> {
        // subtree covering node indices [lo, hi] (hi - lo + 1 = 2^(k+1) - 1)
        if lo == hi {
            let mut inp = vec![1u8];
            inp.extend_from_slice(&((lo / 2) as u32).to_be_bytes());
            match nodes.get(lo).and_then(|n| n.as_ref()) {
                Some(Node::Leaf(l)) => {
                    inp.push(1);
                    inp.extend(l.mls_encode_to_vec().unwrap());
                }
                _ => inp.push(0),
            }
            return cs.hash(&inp).unwrap();
        }
        let mid = (lo + hi) / 2;
        let left = go(cs, nodes, lo, mid - 1);
        let right = go(cs, nodes, mid + 1, hi);
        let mut inp = vec![2u8];
        match nodes.get(mid).and_then(|n| n.as_ref()) {
            Some(Node::Parent(p)) => {
                inp.push(1);
                inp.extend(p.mls_encode_to_vec().unwrap());
            }
            _ => inp.push(0),
        }
        inp.extend(vb(&left));
        inp.extend(vb(&right));
        cs.hash(&inp).unwrap()
    }
    go(&cs, nodes, 0, 2 * n_leaves - 2)
}

/// key slots as a bit string without trailing zeros (`-` if none is set), as the Lean drivers print them
fn bits_str(b: &[bool]) -> String {
    let s: String = b.iter().map(|x| if *x { '1' } else { '0' }).collect();
    let s = s.trim_end_matches('0').to_string();
    if s.is_empty() {
        "-".to_string()
    } else {
        s
    }
}

fn name_of(n: usize) -> String {
    let c = (b'A' + (n % 26) as u8) as char;
    if n < 26 {
        c.to_string()
    } else {
        format!("{c}{}", n / 26)
    }
}

impl<'a, C: MlsConfig> Hist<'a, C> {
    pub fn fail(&mut self, prop: &'static str, what: String) {
        let at = self.w.oplog.len();
        if self.rep.failures.len() < 50 {
            self.rep.failures.push(Failure { prop, what, at_op: at });
        }
    }

    pub fn new_member(&mut self) -> usize {
        let mut s = Setup::new(&name_of(self.next_name));
        self.next_name += 1;
        if self.prof.options_mix {
            s.tree_ext = self.rng.chance(2, 3);
            s.single_welcome = self.rng.chance(1, 2);
            s.path_required = self.rng.chance(1, 4);
            s.enc_ctl = !self.prof.public_handshake && self.rng.chance(1, 3);
            s.retention = *self.rng.pick(&[1usize, 2, 3, 5]);
        }
        if self.prof.sqlite_mix {
            s.sqlite = self.rng.chance(1, 2);
        }
        s.suite = self.prof.suite;
        s.bad_caps = std::mem::take(&mut self.pending_bad_caps);
        if s.bad_caps == 4 {
            // a client of ANOTHER cipher suite: its key packages do not fit this group (suites 1 and 3 share KEM and signature
            // scheme, so that only the cipher-suite field itself tells them apart)
            s.suite = match s.suite {
                1 => 3,
                3 => 1,
                _ => 1,
            };
        }
        if self.prof.mixed_providers {
            // only providers that ship the group's suite
            let ok: Vec<u8> = (0..3u8)
                .filter(|i| crate::anyprov::AnyProvider::by_index(*i).cipher_suite_provider(CipherSuite::from(s.suite)).is_some())
                .collect();
            s.provider = *self.rng.pick(&ok);
        }
        let h = handles(&s, &self.w.crypto_log, &self.w.scratch);
        let (id, sk) = make_identity(&s.name, s.suite);
        for (id, val) in &self.w.psks {
            h.psk.inner.lock().unwrap().insert(ext_psk_id(id), psk_value(val));
        }
        h.idp.rejected.lock().unwrap().extend(self.w.rejected.iter().cloned());
        let client = (self.mk)(&s, &h, id, sk);
        self.w.log(format!(
            "client {} provider={} suite={} store={} R={} tree_ext={} single_welcome={} path_required={} enc_ctl={}",
            s.name,
            crate::anyprov::PROVIDER_NAMES[(s.provider % 3) as usize],
            s.suite,
            if s.sqlite { "sqlite" } else { "mem" },
            s.retention,
            s.tree_ext as u8,
            s.single_welcome as u8,
            s.path_required as u8,
            s.enc_ctl as u8
        ));
        if self.prof.mixed_providers {
            self.rep.cover.insert(format!("suite={}:provider={}", s.suite, crate::anyprov::PROVIDER_NAMES[(s.provider % 3) as usize]));
        }
        self.w.members.push(Member { identity: s.name.as_bytes().to_vec(), setup: s, h, client, group: None, ghosts: vec![], wrote: false });
        self.w.members.len() - 1
    }

    pub fn active(&self) -> Vec<usize> {
        (0..self.w.members.len()).filter(|&i| self.w.members[i].group.is_some()).collect()
    }

    pub fn outsiders(&self) -> Vec<usize> {
        (0..self.w.members.len())
            // a removed member whose storage still holds prior epochs of this group cannot advance after
            // re-joining (known finding F14, exercised by the directed scenario of C07), so the random
            // histories only bring back members that never persisted the group
            .filter(|&i| self.w.members[i].group.is_none() && !self.w.members[i].wrote && !self.kps.iter().any(|(j, _)| *j == i))
            .filter(|&i| !self.w.rejected.contains(&self.w.members[i].identity) && self.w.members[i].setup.bad_caps == 0 && !self.zombies.contains(&i))
            .collect()
    }

    pub fn gen_kp(&mut self, i: usize) -> Option<MlsMessage> {
        let r = self.w.members[i].client.generate_key_package_message(Default::default(), Default::default(), None);
        let name = self.w.members[i].setup.name.clone();
        match r {
            Ok(kp) => {
                self.w.log(format!("kp {name}"));
                Some(kp)
            }
            Err(e) => {
                self.w.log(format!("kp {name} -> err:{}", err_class(&e)));
                None
            }
        }
    }

    /// An outsider with a fresh key package (creating a new client if there is room).
    pub fn fresh_kp(&mut self) -> Option<(usize, MlsMessage)> {
        let outs = self.outsiders();
        let i = if !outs.is_empty() && self.rng.chance(1, 2) {
            *self.rng.pick(&outs)
        } else if self.w.members.len() < self.prof.max_members + 4 {
            self.new_member()
        } else if !outs.is_empty() {
            *self.rng.pick(&outs)
        } else {
            return None;
        };
        let r = self.gen_kp(i).map(|kp| (i, kp));
        if let Some(x) = &r {
            self.kps.push(x.clone());
        }
        r
    }

    pub fn leaf_of(&self, i: usize) -> u32 {
        self.w.group(i).current_member_index()
    }

    /// deliver message `mi` to member `i`; returns the result and the summary
    pub fn deliver(&mut self, i: usize, mi: usize) -> (Res, Option<ReceivedMessage>) {
        let msg = self.w.msgs[mi].msg.clone();
        let kind = self.w.msgs[mi].kind;
        let (r, out) = self.w.with_group(i, |g| g.process_incoming_message(msg));
        let name = self.w.members[i].setup.name.clone();
        self.w.log(format!(
            "deliver {name} m{mi}({kind}) -> {}{}",
            r.s(),
            out.as_ref().map(|o| format!(" {}", received_summary(o))).unwrap_or_default()
        ));
        self.rep.op(&format!("deliver-{kind}"), &r);
        if let Res::Panic(p) = &r {
            self.fail("C03", format!("panic while {name} processed m{mi} ({kind}): {p}"));
        }
        (r, out)
    }

    /// `id,kind,sender,src,target,ident:hpke:sig,ok,pskid`
    pub fn aprop(&mut self, id: usize, prop: &mls_rs::group::proposal::Proposal, sender: &mls_rs::group::Sender, src: &str, _x: Option<()>) -> String {
        use mls_rs::group::proposal::Proposal as P;
        let kind = proposal_kind(prop);
        let snd = match sender {
            mls_rs::group::Sender::Member(l) => format!("S{l}"),
            mls_rs::group::Sender::External(_) => "E".into(),
            mls_rs::group::Sender::NewMemberCommit => "NC".into(),
            mls_rs::group::Sender::NewMemberProposal => "NP".into(),
            #[allow(unreachable_patterns)]
            _ => "E".into(),
        };
        let target = match prop {
            P::Remove(r) => r.to_remove(),
            _ => 0,
        };
        let leaf = mls_rs::verif::proposal::leaf_keys(prop)
            .map(|(a, b, c)| (self.w.stamps.of(&a), self.w.stamps.of(&b), self.w.stamps.of(&c)))
            .unwrap_or((0, 0, 0));
        let pskid = match prop {
            P::Psk(_) => {
                let b = mls_rs::mls_rs_codec::MlsEncode::mls_encode_to_vec(prop).unwrap_or_default();
                self.w.stamps.of(&b)
            }
            _ => 0,
        };
        // payload validity: the application refuses the identity of this key package (credential rejected by the identity provider)
        let ok = match mls_rs::verif::proposal::leaf_keys(prop) {
            Some((ident, _, _)) if kind == "add" && (self.w.rejected.contains(&ident) || self.bad_kp_ids.contains(&ident)) => 0,
            Some((ident, _, _)) if kind == "update" && self.w.temp_rejected.contains(&ident) => 0,
            _ => 1,
        };
        format!("{id},{kind},{snd},{src},{target},{}:{}:{},{ok},{pskid}", leaf.0, leaf.1, leaf.2)
    }

    pub fn tap_broadcast(&mut self, mi: usize) {
        if let Some(t) = self.tap.as_deref_mut() {
            let f = t.broadcast(&self.w, mi, &mut self.rng);
            self.rep.failures.extend(f);
        }
    }

    pub fn register_psk(&mut self) -> Vec<u8> {
        let id = self.rng.bytes(8);
        let val = self.rng.bytes(32);
        for m in &self.w.members {
            m.h.psk.inner.lock().unwrap().insert(ext_psk_id(&id), psk_value(&val));
        }
        self.w.psks.insert(id.clone(), val);
        id
    }

    /// One round: proposals, application traffic, a commit (possibly raced), delivery, joins, oracles.
    pub fn round(&mut self) {
        // the temporary refusals of the previous round are lifted
        for id in std::mem::take(&mut self.w.temp_rejected) {
            for m in &self.w.members {
                let mut l = m.h.idp.rejected.lock().unwrap();
                if let Some(p) = l.iter().position(|x| *x == id) {
                    l.remove(p);
                }
            }
        }
        let active = self.active();
        if active.is_empty() {
            return;
        }
        let epoch = self.w.group(active[0]).current_epoch();
        // ---- application traffic (with a duplicate delivery: C05 replay oracle) --------------------
        for _ in 0..self.prof.apps_per_round {
            if active.len() < 2 {
                break;
            }
            let s = *self.rng.pick(&active);
            let sname = self.w.members[s].setup.name.clone();
            let payload = self.rng.bytes(5);
            let pl = payload.clone();
            // authenticated data travels in the clear next to the ciphertext and is reported to the receiver
            let aad = if self.rng.chance(1, 2) { vec![] } else { let n = 1 + self.rng.below(6) as usize; self.rng.bytes(n) };
            let aad2 = aad.clone();
            let (r, m) = self.w.with_group(s, |g| g.encrypt_application_message(&pl, aad2));
            self.rep.op("app", &r);
            self.w.log(format!("app {sname} -> {}", r.s()));
            let Some(m) = m else { continue };
            let mi = self.w.push_msg("app", &sname, epoch, m, "");
            self.tap_broadcast(mi);
            self.ghost_traffic(mi);
            for &i in &active {
                if i == s {
                    continue;
                }
                let (r, out) = self.deliver(i, mi);
                let n = self.w.members[i].setup.name.clone();
                match out {
                    Some(ReceivedMessage::ApplicationMessage(a)) => {
                        if a.data() != payload.as_slice() || a.sender_index != self.leaf_of(s) {
                            self.fail("C03", format!("{n} reports wrong sender/payload for m{mi}"));
                        }
                        if a.authenticated_data != aad {
                            self.fail("C03", format!("{n} reports other authenticated data than {sname} sent with m{mi}"));
                        }
                    }
                    _ => self.fail("C01", format!("{n} cannot decrypt application message m{mi} of {sname}: {}", r.s())),
                }
                if self.rng.chance(1, 3) {
                    let (r2, _) = self.deliver(i, mi);
                    if r2.ok() {
                        self.fail("C05", format!("{n} accepted application message m{mi} twice"));
                    }
                }
            }
        }
        // the committer of this round is fixed up front so that offending proposals can target it
        let c_pre = *self.rng.pick(&active);
        // ---- by-reference proposals ------------------------------------------------------------
        let mut round_props: Vec<usize> = vec![];
        let mut removed_targets: Vec<u32> = vec![];
        let mut updaters: Vec<usize> = vec![];
        let mut pending_adds: Vec<(usize, MlsMessage)> = vec![];
        if self.rng.chance(self.prof.p_byref, 1000) {
            for _ in 0..self.rng.range(1, 3) {
                let p = *self.rng.pick(&active);
                let pname = self.w.members[p].setup.name.clone();
                let roll = self.rng.below(1000);
                let mut note = String::new();
                let (r, m) = if roll < self.prof.p_add && active.len() + pending_adds.len() < self.prof.max_members {
                    match self.fresh_kp() {
                        Some((o, kp)) => {
                            note = format!("add {}", self.w.members[o].setup.name);
                            pending_adds.push((o, kp.clone()));
                            self.w.with_group(p, |g| g.propose_add(kp, vec![]))
                        }
                        None => continue,
                    }
                } else if roll >= 940 && active.len() + pending_adds.len() < self.prof.max_members {
                    // a new member proposes itself: an external Add proposal (sender new_member_proposal) built from the public
                    // GroupInfo and tree, delivered to every member like any by-reference proposal
                    let Some(o) = self.outsiders().into_iter().next().or_else(|| if self.w.members.len() < self.prof.max_members + 4 { Some(self.new_member()) } else { None }) else { continue };
                    let gi = self.w.group(p).group_info_message_allowing_ext_commit(true);
                    let Ok(gi) = gi else { continue };
                    let tree = self.w.group(p).export_tree().to_bytes().unwrap_or_default();
                    let oname = self.w.members[o].setup.name.clone();
                    let r = self.w.members[o].client.external_add_proposal(&gi, Some(tree_of(&tree)), vec![], Default::default(), Default::default(), None);
                    match r {
                        Ok(m) => {
                            let note = format!("add {oname} (external, by the new member itself)");
                            self.w.log(format!("propose {oname} {note} -> ok"));
                            pending_adds.push((o, m.clone()));
                            self.kps.push((o, m.clone())); // not available for another Add of this round
                            let mi = self.w.push_msg("proposal", &oname, epoch, m, &note);
                            round_props.push(mi);
                            self.tap_broadcast(mi);
                            self.rep.cover.insert("external-add-proposal".into());
                        }
                        Err(e) => self.w.log(format!("propose {oname} external add -> err:{}", err_class(&e))),
                    }
                    continue;
                } else if roll < self.prof.p_add + self.prof.p_update && !updaters.contains(&p) && p != c_pre {
                    note = "update".into();
                    updaters.push(p);
                    self.w.with_group(p, |g| g.propose_update(vec![]))
                } else if roll < self.prof.p_add + self.prof.p_update + self.prof.p_remove && active.len() > 2 {
                    let t = *self.rng.pick(&active);
                    if t == p || t == c_pre {
                        continue;
                    }
                    let tl = self.leaf_of(t);
                    if removed_targets.contains(&tl) {
                        continue;
                    }
                    removed_targets.push(tl);
                    note = format!("remove {tl}");
                    self.w.with_group(p, |g| g.propose_remove(tl, vec![]))
                } else if roll < self.prof.p_add + self.prof.p_update + self.prof.p_remove + self.prof.p_psk {
                    let id = self.register_psk();
                    note = "psk_ext".into();
                    self.w.with_group(p, |g| g.propose_external_psk(ext_psk_id(&id), vec![]))
                } else {
                    continue;
                };
                self.rep.op("propose", &r);
                self.w.log(format!("propose {pname} {note} -> {}", r.s()));
                if let Some(m) = m {
                    let mi = self.w.push_msg("proposal", &pname, epoch, m, &note);
                    round_props.push(mi);
                    self.tap_broadcast(mi);
                }
            }
        }
        // ---- offending by-reference proposals (must be dropped by the committer, C10) ----------------------
        let mut offenders = 0u64;
        let mut revoke_after_delivery: Vec<Vec<u8>> = vec![];
        let mut temp_revoke: Vec<Vec<u8>> = vec![];
        let mut reinit_with_update = false;
        // (member, key package) of `add-existing` offenders: if the same commit removes that member the Add is legitimate
        let mut existing_adds: Vec<usize> = vec![];
        if self.rng.chance(self.prof.p_offend, 1000) {
            for _ in 0..self.rng.range(1, 3) {
                let others: Vec<usize> = active.iter().copied().filter(|&i| i != c_pre).collect();
                if others.is_empty() {
                    break;
                }
                let p = *self.rng.pick(&others);
                let pname = self.w.members[p].setup.name.clone();
                let kind = self.rng.below(11);
                let mut note = String::new();
                let (r, m) = match kind {
                    0 => {
                        // removal of the committer
                        let cl = self.leaf_of(c_pre);
                        note = format!("OFFEND remove-committer {cl}");
                        self.w.with_group(p, |g| g.propose_remove(cl, vec![]))
                    }
                    1 => {
                        // update by the committer itself
                        note = "OFFEND update-by-committer".into();
                        let r = self.w.with_group(c_pre, |g| g.propose_update(vec![]));
                        if let Some(m) = r.1.clone() {
                            let cname = self.w.members[c_pre].setup.name.clone();
                            let mi = self.w.push_msg("proposal", &cname, epoch, m, &note);
                            round_props.push(mi);
                            self.tap_broadcast(mi);
                            self.w.log(format!("propose {cname} {note} -> ok"));
                            offenders += 1;
                        }
                        continue;
                    }
                    2 if !removed_targets.is_empty() => {
                        // a second removal of a leaf that is already being removed
                        let tl = *self.rng.pick(&removed_targets);
                        note = format!("OFFEND double-remove {tl}");
                        self.w.with_group(p, |g| g.propose_remove(tl, vec![]))
                    }
                    3 if !removed_targets.is_empty() => {
                        // update from a member that is being removed (two changes to one leaf)
                        let tl = *self.rng.pick(&removed_targets);
                        let Some(&x) = active.iter().find(|&&i| self.leaf_of(i) == tl) else { continue };
                        if updaters.contains(&x) || x == c_pre {
                            continue;
                        }
                        updaters.push(x);
                        note = format!("OFFEND update-of-removed {tl}");
                        let r = self.w.with_group(x, |g| g.propose_update(vec![]));
                        if let Some(m) = r.1.clone() {
                            let xname = self.w.members[x].setup.name.clone();
                            let mi = self.w.push_msg("proposal", &xname, epoch, m, &note);
                            round_props.push(mi);
                            self.tap_broadcast(mi);
                            self.w.log(format!("propose {xname} {note} -> ok"));
                            offenders += 1;
                        }
                        continue;
                    }
                    4 => {
                        // add of somebody who is already a member (fresh key package of a current member)
                        let t = *self.rng.pick(&active);
                        let Some(kp) = self.gen_kp(t) else { continue };
                        note = format!("OFFEND add-existing {}", self.w.members[t].setup.name);
                        existing_adds.push(t);
                        self.w.with_group(p, |g| g.propose_add(kp, vec![]))
                    }
                    5 => {
                        // removal of a blank / non-existing leaf
                        let n_leaves = self.w.group(p).export_tree().nodes().len() / 2 + 1;
                        let blank = (0..n_leaves as u32 + 2).find(|l| !active.iter().any(|&i| self.leaf_of(i) == *l));
                        let Some(bl) = blank else { continue };
                        note = format!("OFFEND remove-nonexisting {bl}");
                        self.w.with_group(p, |g| g.propose_remove(bl, vec![]))
                    }
                    6 => {
                        // payload-invalid Add: the key package's leaf lists a default proposal / extension type among its
                        // capabilities (RFC 9420 7.2: MUST NOT be listed), or its lifetime has expired; the committer drops
                        // it, by value it is refused
                        let bad = 1 + self.rng.below(4) as u8;
                        self.pending_bad_caps = bad;
                        let o = self.new_member();
                        let r = if bad == 4 {
                            self.w.members[o].client.generate_key_package_message(Default::default(), Default::default(), None)
                        } else {
                            self.w.members[o].client.verif_generate_key_package_unchecked(
                            |c| match bad {
                                1 => c.proposals.push(mls_rs::group::proposal::ProposalType::ADD),
                                2 => c.extensions.push(mls_rs::extension::ExtensionType::RATCHET_TREE),
                                _ => {}
                            },
                            // 3: a lifetime that ended long ago (the committer validates Adds against the current time)
                            if bad == 3 { Some((1_000, 2_000)) } else { None },
                        )
                        };
                        let Ok(kp) = r else { continue };
                        self.rep.cover.insert(format!("bad-kp:{bad}"));
                        let oid = self.w.members[o].identity.clone();
                        self.bad_kp_ids.push(oid);
                        let mut gc = self.w.group(c_pre).clone();
                        let bv = gc.commit_builder().add_member(kp.clone()).and_then(|b| b.build());
                        if bv.is_ok() {
                            self.fail("C10", format!("an invalid key package ({}) was committed by value", ["capabilities list a default proposal type", "capabilities list a default extension type", "lifetime expired", "key package of another cipher suite"][bad as usize - 1]));
                        }
                        note = format!("OFFEND add-default-listed {}", self.w.members[o].setup.name);
                        self.w.with_group(p, |g| g.propose_add(kp, vec![]))
                    }
                    10 => {
                        // payload-invalid Updates: two or three members propose an Update; before the commit every application
                        // starts refusing their identities for the rest of the round: the committer must drop exactly those
                        // Updates (next to the valid ones of the round), receivers never see them
                        let free: Vec<usize> = active
                            .iter()
                            .copied()
                            .filter(|&i| i != c_pre && !updaters.contains(&i) && !removed_targets.contains(&self.leaf_of(i)))
                            .collect();
                        if free.len() < 2 || !temp_revoke.is_empty() {
                            continue;
                        }
                        let k = if free.len() >= 3 && self.rng.chance(1, 2) { 3 } else { 2 };
                        for &x in free.iter().take(k) {
                            updaters.push(x);
                            let r = self.w.with_group(x, |g| g.propose_update(vec![]));
                            let xname = self.w.members[x].setup.name.clone();
                            let note = "OFFEND update-refused".to_string();
                            self.w.log(format!("propose {xname} {note} -> {}", r.0.s()));
                            if let Some(m) = r.1.clone() {
                                let mi = self.w.push_msg("proposal", &xname, epoch, m, &note);
                                round_props.push(mi);
                                self.tap_broadcast(mi);
                                offenders += 1;
                                temp_revoke.push(self.w.members[x].identity.clone());
                            }
                        }
                        continue;
                    }
                    9 => {
                        // a by-reference re-init next to a by-reference Update of another member: the re-init must be dropped
                        // (it may only be committed alone)
                        let free: Vec<usize> = active
                            .iter()
                            .copied()
                            .filter(|&i| i != c_pre && !updaters.contains(&i) && !removed_targets.contains(&self.leaf_of(i)))
                            .collect();
                        let Some(&x) = free.first() else { continue };
                        if reinit_with_update {
                            continue;
                        }
                        updaters.push(x);
                        let xname = self.w.members[x].setup.name.clone();
                        let r = self.w.with_group(x, |g| g.propose_update(vec![]));
                        self.w.log(format!("propose {xname} update (next to a re-init) -> {}", r.0.s()));
                        if let Some(m) = r.1.clone() {
                            let mi = self.w.push_msg("proposal", &xname, epoch, m, "update");
                            round_props.push(mi);
                            self.tap_broadcast(mi);
                        } else {
                            continue;
                        }
                        let suite = self.w.members[p].setup.suite;
                        note = "OFFEND reinit-with-others".into();
                        reinit_with_update = true;
                        self.w.with_group(p, |g| g.propose_reinit(None, mls_rs::ProtocolVersion::MLS_10, CipherSuite::from(suite), Default::default(), vec![]))
                    }
                    8 => {
                        // payload-invalid Adds: one to three outsiders are proposed while their credential is fine; before the commit
                        // every member's application starts refusing those identities (revocation): the committer must drop
                        // all of them, receivers must not see any
                        let k = self.rng.range(1, 3);
                        for _ in 0..k {
                            let Some((o, kp)) = self.fresh_kp() else { break };
                            self.kps.retain(|(j, _)| *j != o);
                            let oid = self.w.members[o].identity.clone();
                            // from now on this outsider is never picked again (the members start refusing it after delivery)
                            self.w.rejected.push(oid.clone());
                            let oname = self.w.members[o].setup.name.clone();
                            let r = self.w.with_group(p, |g| g.propose_add(kp, vec![]));
                            let note = format!("OFFEND add-revoked {oname}");
                            self.w.log(format!("propose {pname} {note} -> {}", r.0.s()));
                            if let Some(m) = r.1.clone() {
                                let mi = self.w.push_msg("proposal", &pname, epoch, m, &note);
                                round_props.push(mi);
                                self.tap_broadcast(mi);
                                offenders += 1;
                                revoke_after_delivery.push(oid);
                            }
                        }
                        continue;
                    }
                    7 => {
                        // two colluding members: x1's new leaf carries x2's current HPKE key, x2's new leaf carries the
                        // committer's (key collisions inside `batch_edit`, both orders of the cache)
                        let free: Vec<usize> = active
                            .iter()
                            .copied()
                            .filter(|&i| i != c_pre && !updaters.contains(&i) && !removed_targets.contains(&self.leaf_of(i)))
                            .collect();
                        if free.len() < 2 {
                            continue;
                        }
                        let (x1, x2) = (free[0], free[1]);
                        let key_of = |h: &Self, m: usize| -> Option<Vec<u8>> {
                            let t = h.w.group(m).export_tree();
                            t.nodes().get(2 * h.leaf_of(m) as usize).and_then(|n| n.as_ref()).map(|n| n.public_key().as_ref().to_vec())
                        };
                        let (Some(k2), Some(kc)) = (key_of(self, x2), key_of(self, c_pre)) else { continue };
                        for (x, k, tag) in [(x1, k2, "peer"), (x2, kc, "committer")] {
                            updaters.push(x);
                            self.forgers.push((x, epoch));
                            self.w.crypto_log.lock().unwrap().force_kem_pub = Some(k);
                            let r = self.w.with_group(x, |g| g.propose_update(vec![]));
                            self.w.crypto_log.lock().unwrap().force_kem_pub = None;
                            let xname = self.w.members[x].setup.name.clone();
                            let note = format!("OFFEND update-with-{tag}-key");
                            self.w.log(format!("propose {xname} {note} -> {}", r.0.s()));
                            if let Some(m) = r.1.clone() {
                                let mi = self.w.push_msg("proposal", &xname, epoch, m, &note);
                                round_props.push(mi);
                                self.tap_broadcast(mi);
                                offenders += 1;
                            }
                        }
                        continue;
                    }
                    _ => {
                        // an update from a member who already has one in this round (two changes to one leaf)
                        let Some(&x) = updaters.first() else { continue };
                        if x == c_pre {
                            continue;
                        }
                        note = "OFFEND second-update".into();
                        let r = self.w.with_group(x, |g| g.propose_update(vec![]));
                        if let Some(m) = r.1.clone() {
                            let xname = self.w.members[x].setup.name.clone();
                            let mi = self.w.push_msg("proposal", &xname, epoch, m, &note);
                            round_props.push(mi);
                            self.tap_broadcast(mi);
                            self.w.log(format!("propose {xname} {note} -> ok"));
                            offenders += 1;
                        }
                        continue;
                    }
                };
                self.rep.op("propose-offending", &r);
                self.w.log(format!("propose {pname} {note} -> {}", r.s()));
                if let Some(m) = m {
                    let mi = self.w.push_msg("proposal", &pname, epoch, m, &note);
                    round_props.push(mi);
                    self.tap_broadcast(mi);
                    offenders += 1;
                }
            }
        }
        if offenders > 0 {
            self.rep.cover.insert(format!("offenders={}", offenders.min(3)));
        }
        // deliver proposals to everyone else, in random order per receiver
        for &i in &active {
            let mut order = round_props.clone();
            for k in (1..order.len()).rev() {
                let j = self.rng.below(k as u64 + 1) as usize;
                order.swap(k, j);
            }
            for mi in order {
                if self.w.msgs[mi].from != self.w.members[i].setup.name {
                    let (r, _) = self.deliver(i, mi);
                    if !r.ok() {
                        let n = self.w.members[i].setup.name.clone();
                        self.fail("C10", format!("{n} rejected an honest proposal m{mi} ({}): {}", self.w.msgs[mi].note, r.s()));
                    }
                }
            }
        }
        for mi in round_props.clone() {
            self.ghost_traffic(mi);
        }
        // revocations take effect now: every member's application refuses these identities from here on
        if !revoke_after_delivery.is_empty() {
            for id in revoke_after_delivery.drain(..) {
                for m in &self.w.members {
                    m.h.idp.rejected.lock().unwrap().push(id.clone());
                }
            }
            self.rep.cover.insert("revoked-adds".into());
        }
        if !temp_revoke.is_empty() {
            // (current members only: a joiner validates the whole tree it receives, including the leaves of these members)
            for id in &temp_revoke {
                for &i in &active {
                    self.w.members[i].h.idp.rejected.lock().unwrap().push(id.clone());
                }
            }
            self.w.temp_rejected = temp_revoke.clone();
            self.rep.cover.insert(format!("refused-updates={}", temp_revoke.len()));
        }
        // ---- the commit -----------------------------------------------------------------------
        // committer: not a target of a pending removal (the library would filter that proposal anyway)
        let cands: Vec<usize> = active
            .iter()
            .copied()
            .filter(|&i| !removed_targets.contains(&self.leaf_of(i)) && !self.w.temp_rejected.contains(&self.w.members[i].identity))
            .collect();
        if cands.is_empty() {
            return;
        }
        let c = if cands.contains(&c_pre) { c_pre } else { *self.rng.pick(&cands) };
        let cname = self.w.members[c].setup.name.clone();
        let cleaf = self.leaf_of(c);
        // by-value extras
        let mut bv_adds: Vec<(usize, MlsMessage)> = vec![];
        let mut bv_removes: Vec<u32> = vec![];
        let mut bv_psk: Option<Vec<u8>> = None;
        let mut newid = None;
        if self.rng.chance(self.prof.p_add, 1000) && active.len() + pending_adds.len() < self.prof.max_members {
            for _ in 0..self.rng.range(1, 2) {
                if let Some(x) = self.fresh_kp() {
                    bv_adds.push(x);
                }
            }
        }
        if self.rng.chance(self.prof.p_remove, 1000) && active.len() > 2 {
            let t = *self.rng.pick(&active);
            let tl = self.leaf_of(t);
            if t != c && !removed_targets.contains(&tl) && !updaters.contains(&t) {
                bv_removes.push(tl);
            }
        }
        // shrink: one commit removes the whole right half of the tree (>= 2 members), so that the node vector is trimmed;
        // later adds make it grow again (stale caches of the trimmed part show up then)
        if self.rng.chance(self.prof.p_shrink, 1000) {
            let n_leaves = (self.w.group(c).export_tree().nodes().len() + 1) / 2;
            let half = (n_leaves / 2) as u32;
            let right: Vec<u32> = active.iter().map(|&i| self.leaf_of(i)).filter(|l| *l >= half).collect();
            let blocked = right.iter().any(|l| removed_targets.contains(l)) || updaters.iter().any(|&u| right.contains(&self.leaf_of(u)));
            if half >= 2 && cleaf < half && right.len() >= 2 && active.len() - right.len() >= 2 && !blocked && pending_adds.is_empty() {
                bv_removes = right;
                bv_adds.clear();
                self.rep.cover.insert("shrink".into());
            }
        }
        if self.rng.chance(self.prof.p_psk, 1000) {
            bv_psk = Some(self.register_psk());
        }
        if self.rng.chance(self.prof.p_newid, 1000) {
            newid = Some(make_identity(&cname, self.w.members[c].setup.suite));
        }
        let detail = format!(
            "add=[{}] remove={:?} psk={} newid={} byref={:?}",
            bv_adds.iter().map(|(o, _)| self.w.members[*o].setup.name.clone()).collect::<Vec<_>>().join(","),
            bv_removes,
            bv_psk.is_some() as u8,
            newid.is_some() as u8,
            round_props
        );
        let before = self.w.components(c);
        let tree_before = self.w.anodes(c);
        // inputs of the transcript-hash / membership-tag formulas of this epoch (C13 rows)
        let th_interim_before = self.w.group(c).verif_interim_transcript_hash();
        // a receiver as it is before the commit: it opens an ENCRYPTED commit for the transcript rows (on this copy)
        let th_opener: Option<mls_rs::Group<C>> = active.iter().find(|&&i| i != c).map(|&i| self.w.group(i).clone());
        let th_membership_key = self.w.group(c).verif_key_schedule()[1].clone();
        let th_context = mls_rs::mls_rs_codec::MlsEncode::mls_encode_to_vec(self.w.group(c).context()).unwrap_or_default();
        let th_suite = self.w.members[c].setup.suite;
        // the committer's side of the `eks` row (epoch secrets of a path-less commit recomputed by the key-schedule model)
        let eks_before = crate::eks::before(self.w.group(c));
        let eks_opener = th_opener.clone();
        // abstract bundle for the proposal-filter model (C10): cached by-reference proposals in bundle order,
        // then the by-value ones in the order the builder receives them
        let cached = self.w.group(c).verif_cached_proposals_in_bundle_order();
        let mut aprops: Vec<String> = vec![];
        let mut cached_refs: Vec<Vec<u8>> = vec![];
        for (idx, (rf, prop, sender)) in cached.iter().enumerate() {
            cached_refs.push(rf.clone());
            aprops.push(self.aprop(idx, prop, sender, "r", None));
        }
        let mut byvalue_kinds: Vec<(&'static str, usize)> = vec![];
        {
            let mut k = cached.len();
            for (_, kp) in &bv_adds {
                let lk = mls_rs::verif::proposal::key_package_leaf(kp);
                let leaf = lk.map(|(a, b, cc)| (self.w.stamps.of(&a), self.w.stamps.of(&b), self.w.stamps.of(&cc))).unwrap_or((0, 0, 0));
                aprops.push(format!("{k},add,S{cleaf},v,0,{}:{}:{},1,0", leaf.0, leaf.1, leaf.2));
                byvalue_kinds.push(("add", k));
                k += 1;
            }
            for t in &bv_removes {
                aprops.push(format!("{k},remove,S{cleaf},v,{t},0:0:0,1,0"));
                byvalue_kinds.push(("remove", k));
                k += 1;
            }
            if bv_psk.is_some() {
                aprops.push(format!("{k},psk,S{cleaf},v,0,0:0:0,1,{}", 900000 + k));
                byvalue_kinds.push(("psk", k));
            }
        }
        let adds2 = bv_adds.clone();
        let rem2 = bv_removes.clone();
        let psk2 = bv_psk.clone();
        let newid2 = newid.clone();
        {
            let mut l = self.w.crypto_log.lock().unwrap();
            l.hpke_seals.clear();
            l.enabled = true;
        }
        let (r, out) = self.w.with_group(c, |g| {
            let mut b = g.commit_builder();
            for (_, kp) in adds2 {
                b = b.add_member(kp)?;
            }
            for t in rem2 {
                b = b.remove_member(t)?;
            }
            if let Some(id) = psk2 {
                b = b.add_external_psk(ext_psk_id(&id))?;
            }
            if let Some((id, sk)) = newid2 {
                b = b.set_new_signing_identity(sk, id);
            }
            b.build()
        });
        let seals: Vec<(Vec<u8>, Vec<u8>)> = {
            let mut l = self.w.crypto_log.lock().unwrap();
            l.enabled = false;
            std::mem::take(&mut l.hpke_seals)
        };
        self.rep.op("commit", &r);
        self.w.log(format!("commit {cname} {detail} -> {}", r.s()));
        if out.is_none() {
            if let Some(qa) = self.filter_qa.as_deref_mut() {
                qa.put(&format!("filter send c={cleaf} {} {}", tree_str(&tree_before), if aprops.is_empty() { "-".to_string() } else { aprops.join(";") }), "err");
            }
        }
        let Some(out) = out else {
            // C04: a failed build leaves the member unchanged
            let after = self.w.components(c);
            let ch = World::<C>::changed(&before, &after);
            if !ch.is_empty() {
                self.fail("C04", format!("failed commit build by {cname} ({}) changed {:?}", r.s(), ch));
            }
            if let Res::Panic(p) = &r {
                self.fail("C03", format!("panic while {cname} built a commit: {p}"));
            }
            return;
        };
        // C11: building a commit leaves the member in its epoch
        if self.w.group(c).current_epoch() != epoch {
            self.fail("C11", format!("{cname} changed epoch by building a commit"));
        }
        let cmi = self.w.push_msg("commit", &cname, epoch, out.commit_message.clone(), &detail);
        let unused_committer: Vec<&'static str> = out.unused_proposals.iter().map(|p| proposal_kind(&p.proposal)).collect();
        // ---- a racing commit by someone else, which loses ------------------------------------------
        if self.rng.chance(self.prof.p_race, 1000) && cands.len() > 1 {
            let l = *self.rng.pick(&cands);
            if l != c {
                let lname = self.w.members[l].setup.name.clone();
                let (r, _) = self.w.with_group(l, |g| g.commit(vec![]));
                self.rep.op("commit-race", &r);
                self.w.log(format!("commit {lname} (loses) -> {}", r.s()));
            }
        }
        // ---- committer advances -----------------------------------------------------------------
        let echo = self.rng.chance(self.prof.p_echo, 1000);
        let (r, cdesc) = if echo {
            let (r, o) = self.deliver(c, cmi);
            (
                r,
                o.and_then(|o| match o {
                    ReceivedMessage::Commit(d) => Some(d),
                    _ => None,
                }),
            )
        } else {
            let (r, o) = self.w.with_group(c, |g| g.apply_pending_commit());
            self.rep.op("apply", &r);
            self.w.log(format!("apply {cname} -> {}", r.s()));
            (r, o)
        };
        if !r.ok() {
            self.fail("C11", format!("{cname} could not apply its own commit m{cmi}: {}", r.s()));
            return;
        }
        if matches!(cdesc.as_ref().map(|d| &d.effect), Some(CommitEffect::ReInit(_))) {
            // a commit whose only proposal is a re-init: legitimate, the group is frozen from here on
            if round_props.iter().filter(|mi| !self.w.msgs[**mi].note.contains("reinit")).count() > 0 && reinit_with_update {
                self.fail("C10", format!("{cname} committed a re-init together with other proposals (m{cmi})"));
            }
            self.w.log("group re-initialised: history ends".into());
            self.w.ended = true;
            return;
        }
        let applied_committer: Vec<&'static str> = match cdesc.as_ref().map(|d| &d.effect) {
            Some(CommitEffect::NewEpoch(n)) => n.applied_proposals.iter().map(|p| proposal_kind(&p.proposal)).collect(),
            _ => vec![],
        };
        self.rep.commits += 1;
        // C13: confirmed / interim transcript hash of the new epoch and the membership tags of this epoch's public messages,
        // recomputed by the Lean model from the raw message bytes
        {
            let is_public = |b: &[u8]| b.len() > 4 && b[2] == 0 && b[3] == 1;
            let cb = self.w.msgs[cmi].msg.to_bytes().unwrap_or_default();
            let confirmed_after = self.w.group(c).context().confirmed_transcript_hash.to_vec();
            let interim_after = self.w.group(c).verif_interim_transcript_hash();
            let mut rows: Vec<(String, String)> = vec![];
            if is_public(&cb) {
                rows.push((
                    format!("th {th_suite} {} {}", crate::util::hex(&th_interim_before), crate::util::hex(&cb)),
                    format!("{} {}", crate::util::hex(&confirmed_after), crate::util::hex(&interim_after)),
                ));
                rows.push((format!("mtag {th_suite} {} {} {}", crate::util::hex(&th_membership_key), crate::util::hex(&th_context), crate::util::hex(&cb)), "ok".into()));
            }
            if cb.len() > 4 && cb[2] == 0 && cb[3] == 2 {
                // a PrivateMessage commit: the hashes cover wire format 2, the decrypted FramedContent and its signature
                if let Some(mut g) = th_opener {
                    let m = self.w.msgs[cmi].msg.clone();
                    if let Ok((fc, sig, Some(tag))) = g.verif_open_private_message(&m) {
                        rows.push((
                            format!(
                                "thp {th_suite} {} 2 {} {} {}",
                                crate::util::hex(&th_interim_before),
                                crate::util::hex(&fc),
                                crate::util::hex(&sig),
                                crate::util::hex(&tag)
                            ),
                            format!("{} {}", crate::util::hex(&confirmed_after), crate::util::hex(&interim_after)),
                        ));
                        self.rep.cover.insert("th:private-commit".into());
                    }
                }
            }
            if let Some(r) = crate::eks::extpub_row(self.w.group(c)) {
                self.rep.cover.insert("extpub".into());
                rows.push(r);
            }
            if let Some(op) = &eks_opener {
                let vals = crate::eks::PskValues { external: self.w.psks.clone(), resumption: Default::default() };
                match crate::eks::row(&eks_before, op, &self.w.msgs[cmi].msg, self.w.group(c), &vals) {
                    crate::eks::Row::Row(q, a) => {
                        self.rep.cover.insert(format!("eks:psks={}", q.split(' ').nth(7).unwrap_or("?")));
                        rows.push((q, a));
                    }
                    crate::eks::Row::Skip(why) => {
                        self.rep.cover.insert(format!("eks-skip:{}", why.split(' ').take(4).collect::<Vec<_>>().join("-")));
                    }
                }
            }
            for &mi in &round_props {
                let from_member = active.iter().any(|&i| self.w.members[i].setup.name == self.w.msgs[mi].from);
                let pb = self.w.msgs[mi].msg.to_bytes().unwrap_or_default();
                if from_member && is_public(&pb) {
                    rows.push((format!("mtag {th_suite} {} {} {}", crate::util::hex(&th_membership_key), crate::util::hex(&th_context), crate::util::hex(&pb)), "ok".into()));
                }
            }
            if let Some(qa) = self.tree_qa.as_deref_mut() {
                for (q, a) in rows {
                    qa.put(&q, &a);
                }
            }
        }
        // abstract edits of this commit for the tree-layer model
        let mut e_rm: Vec<u32> = vec![];
        let mut e_up: Vec<(u32, usize, usize, usize)> = vec![];
        let mut e_add: Vec<(usize, usize, usize)> = vec![];
        self.w.last_add_init_keys.clear();
        if let Some(CommitEffect::NewEpoch(ne)) = cdesc.as_ref().map(|d| &d.effect) {
            for p in &ne.applied_proposals {
                match &p.proposal {
                    mls_rs::group::proposal::Proposal::Remove(r) => e_rm.push(r.to_remove()),
                    mls_rs::group::proposal::Proposal::Update(_) => {
                        if let (mls_rs::group::Sender::Member(idx), Some((id, hp, sg))) = (&p.sender, mls_rs::verif::proposal::leaf_keys(&p.proposal)) {
                            e_up.push((*idx, self.w.stamps.of(&id), self.w.stamps.of(&hp), self.w.stamps.of(&sg)));
                        }
                    }
                    mls_rs::group::proposal::Proposal::Add(_) => {
                        if let Some((id, hp, sg)) = mls_rs::verif::proposal::leaf_keys(&p.proposal) {
                            e_add.push((self.w.stamps.of(&id), self.w.stamps.of(&hp), self.w.stamps.of(&sg)));
                        }
                        if let Some(k) = mls_rs::verif::proposal::init_key(&p.proposal) {
                            self.w.last_add_init_keys.push(k);
                        }
                    }
                    _ => {}
                }
            }
        }
        let edits = Edits { rm: e_rm, up: e_up, add: e_add };
        if let Some(CommitEffect::NewEpoch(ne)) = cdesc.as_ref().map(|d| &d.effect) {
            let mut applied_ids: Vec<usize> = vec![];
            let mut bv_left = byvalue_kinds.clone();
            let mut applied_props: Vec<String> = vec![];
            for pi in &ne.applied_proposals {
                let id = match &pi.source {
                    mls_rs::mls_rules::ProposalSource::ByReference(r) => cached_refs.iter().position(|x| x.as_slice() == &**r),
                    mls_rs::mls_rules::ProposalSource::ByValue => {
                        let k = proposal_kind(&pi.proposal);
                        bv_left.iter().position(|(kk, _)| *kk == k).map(|pos| bv_left.remove(pos).1)
                    }
                    _ => None,
                };
                if let Some(id) = id {
                    applied_ids.push(id);
                    if let Some(a) = aprops.iter().find(|a| a.starts_with(&format!("{id},"))) {
                        applied_props.push(a.clone());
                    }
                }
            }
            applied_ids.sort();
            let ids = if applied_ids.is_empty() { "-".to_string() } else { applied_ids.iter().map(|x| x.to_string()).collect::<Vec<_>>().join(",") };
            let force_path = self.w.members[c].setup.path_required || newid.is_some();
            let path = if force_path { "x".to_string() } else { (out.contains_update_path as u8).to_string() };
            if let Some(qa) = self.filter_qa.as_deref_mut() {
                qa.put(
                    &format!("filter send c={cleaf} {} {} path={}", tree_str(&tree_before), if aprops.is_empty() { "-".to_string() } else { aprops.join(";") }, if force_path { "x" } else { "?" }),
                    &format!("ok applied={ids} path={path}"),
                );
                // the receivers' view: exactly the committed proposals, strict mode
                qa.put(
                    &format!("filter receive c={cleaf} {} {} path={}", tree_str(&tree_before), if applied_props.is_empty() { "-".to_string() } else { applied_props.join(";") }, if force_path { "x" } else { "?" }),
                    &format!("ok applied={ids} path={path}"),
                );
            }
        }
        let mut priv_before: BTreeMap<usize, (u32, Vec<bool>)> = BTreeMap::new();
        for &i in &active {
            priv_before.insert(i, self.w.priv_bits(i));
        }
        // ---- everyone else processes it ------------------------------------------------------------
        let mut now_removed: Vec<usize> = vec![];
        for &i in &active {
            if i == c {
                continue;
            }
            let n = self.w.members[i].setup.name.clone();
            let (r, o) = self.deliver(i, cmi);
            match o {
                Some(ReceivedMessage::Commit(d)) => match d.effect {
                    CommitEffect::NewEpoch(ne) => {
                        let ap: Vec<&'static str> = ne.applied_proposals.iter().map(|p| proposal_kind(&p.proposal)).collect();
                        let un: Vec<&'static str> = ne.unused_proposals.iter().map(|p| proposal_kind(&p.proposal)).collect();
                        let mut a1 = ap.clone();
                        a1.sort();
                        let mut a0 = applied_committer.clone();
                        a0.sort();
                        if a1 != a0 {
                            self.fail("C10", format!("{n} reports applied proposals {ap:?}, committer {cname} reports {applied_committer:?} (m{cmi})"));
                        }
                        let mut u1 = un.clone();
                        u1.sort();
                        let mut u0 = unused_committer.clone();
                        u0.sort();
                        if u1 != u0 {
                            self.fail("C10", format!("{n} reports unused proposals {un:?}, committer {cname} reports {unused_committer:?} (m{cmi})"));
                        }
                    }
                    CommitEffect::Removed { .. } => now_removed.push(i),
                    CommitEffect::ReInit(_) => {}
                },
                _ if self.forgers.contains(&(i, epoch)) && matches!(&r, Res::Err(e) if e == "CryptoProviderError") => {
                    // the forged Update of this member (an HPKE key it has no secret key for) became committable (the owner of
                    // the key was removed in the same commit): the forger cannot open the path secret sent to that key
                    self.w.log(format!("forger {n} cannot process the commit that applies its forged update; it drops out"));
                    self.rep.cover.insert("forger-dropped".into());
                    self.zombies.push(i);
                    now_removed.push(i);
                }
                _ => {
                    self.fail("C10", format!("{n} rejected the commit m{cmi} built by {cname} ({detail}): {}", r.s()));
                }
            }
        }
        for i in now_removed {
            let g = self.w.members[i].group.take().unwrap();
            self.w.members[i].ghosts.push(g);
            let n = self.w.members[i].setup.name.clone();
            self.w.log(format!("removed {n}"));
        }
        // ---- joiners ---------------------------------------------------------------------------
        let tree_bytes = self.w.exported_tree_bytes(c);
        let mut joiners: Vec<usize> = vec![];
        let all_adds: Vec<(usize, MlsMessage)> = pending_adds.iter().cloned().chain(bv_adds.iter().cloned()).collect();
        for (o, _) in &all_adds {
            let oname = self.w.members[*o].setup.name.clone();
            let mut joined = false;
            let mut last = String::new();
            for wmsg in &out.welcome_messages {
                let with_tree = !self.w.members[c].setup.tree_ext;
                let tree = if with_tree { Some(tree_of(&tree_bytes)) } else { None };
                let r = std::panic::catch_unwind(std::panic::AssertUnwindSafe(|| self.w.members[*o].client.join_group(tree, wmsg, None)));
                match r {
                    Ok(Ok((g, _info))) => {
                        self.w.members[*o].group = Some(g);
                        joined = true;
                        break;
                    }
                    Ok(Err(e)) => last = format!("{last}/{}", err_class(&e)),
                    Err(_) => {
                        last = "panic".into();
                        self.fail("C03", format!("panic while {oname} joined via welcome of m{cmi}"));
                    }
                }
            }
            self.w.log(format!("join {oname} via m{cmi} -> {}", if joined { "ok".to_string() } else { format!("err:{last}") }));
            *self.rep.ops.entry("join".into()).or_default() += 1;
            if joined {
                joiners.push(*o);
            } else if applied_committer.iter().filter(|k| **k == "add").count() >= all_adds.len() {
                // every add was applied, so every joiner must be able to join
                if std::env::var("VHARNESS_DEBUG").is_ok() {
                    let ids: Vec<String> = self.w.group(c).roster().members_iter().map(|m| format!("{}@{}", String::from_utf8_lossy(&m.signing_identity.credential.as_basic().map(|b| b.identifier.clone()).unwrap_or_default()), m.index)).collect();
                    eprintln!("DEBUG join failure {oname}: roster={ids:?} rejected={:?}", self.w.members[*o].h.idp.rejected.lock().unwrap());
                }
                self.fail("C07", format!("{oname} could not join through the welcome of m{cmi}: {last}"));
            }
        }
        // a member whose fresh key package was proposed as `add-existing` and who was removed by this very commit was re-added by it
        // (remove + add of one identity is a legitimate commit): it comes back through the Welcome
        for t in existing_adds {
            if self.w.members[t].group.is_some() || self.zombies.contains(&t) {
                continue;
            }
            if self.w.members[t].wrote {
                // its storage still holds prior epochs of this group (known finding F14, exercised by C07's directed scenario):
                // it stays away; its identity is in the tree, so it is never used as an outsider again
                self.zombies.push(t);
                continue;
            }
            let with_tree = !self.w.members[c].setup.tree_ext;
            for wmsg in &out.welcome_messages {
                let tree = if with_tree { Some(tree_of(&tree_bytes)) } else { None };
                if let Ok((g, _)) = self.w.members[t].client.join_group(tree, wmsg, None) {
                    let tname = self.w.members[t].setup.name.clone();
                    self.w.log(format!("rejoin {tname} via m{cmi} (removed and re-added by the same commit) -> ok"));
                    self.rep.cover.insert("removed-and-readded".into());
                    self.w.members[t].group = Some(g);
                    joiners.push(t);
                    break;
                }
            }
        }
        self.kps.clear();
        // ---- oracles after the commit -----------------------------------------------------------
        let now = self.active();
        for &i in &now {
            let e = self.w.group(i).current_epoch();
            if e != epoch + 1 {
                let n = self.w.members[i].setup.name.clone();
                self.fail("C01", format!("{n} is at epoch {e} after commit m{cmi} of epoch {epoch}"));
            }
        }
        if let Err(e) = agreement(&self.w, &now) {
            self.fail("C01", format!("after m{cmi} ({detail}): {e}"));
        }
        self.tree_oracles(c, cmi, &tree_before, cleaf, &seals, &joiners, &edits, &priv_before, &active, out.contains_update_path);
        self.ghost_oracle(cmi);
        if let Some(t) = self.tap.as_deref_mut() {
            let f = t.broadcast(&self.w, cmi, &mut self.rng);
            self.rep.failures.extend(f);
            let f = t.after_commit(&self.w, &now, cmi, &mut self.rng);
            self.rep.failures.extend(f);
        }
        // ---- occasionally persist and reload (C06) ---------------------------------------------------
        for &i in &now {
            if self.rng.chance(self.prof.p_reload, 1000) {
                self.write_reload(i);
            }
        }
    }

    /// An external commit built from a member's GroupInfo (RFC 9420 12.4.3.2): every member and every observer processes it; the
    /// cached proposals of the epoch are dropped by everybody.  Two variants: an OUTSIDER joins (no proposal touches the tree), or
    /// — RE-SYNC, about a third of the rounds — a current member whose state is taken as lost comes back with an external commit
    /// that removes its own old leaf (`with_removal`; the identity provider's `valid_successor` must accept the pair of signing
    /// identities), built by its old client or, as after a real loss, by a fresh client (new storage, new signature key) of
    /// the same identity; its old group is kept as a retained group of a removed member (C02 oracles).  The composed group
    /// model follows with a `g.external` row (then `g.classes` / `g.slots` as after `g.commit`); the tree-layer stream has no
    /// external-commit operation: the incremental hash rows restart.
    pub fn external_round(&mut self) -> bool {
        let active = self.active();
        if active.is_empty() || self.prof.p_offend > 0 {
            return false;
        }
        let resync = active.len() >= 2 && self.rng.chance(1, 3);
        if !resync && active.len() >= self.prof.max_members {
            return false;
        }
        // x: the external committer; a: the member whose GroupInfo it uses (in a re-sync x's own state is lost, so somebody else)
        let (x, a) = if resync {
            let x = *self.rng.pick(&active);
            let others: Vec<usize> = active.iter().copied().filter(|&i| i != x).collect();
            (x, *self.rng.pick(&others))
        } else {
            let outs = self.outsiders();
            let x = if let Some(&x) = outs.first() { x } else if self.w.members.len() < self.prof.max_members + 4 { self.new_member() } else { return false };
            (x, *self.rng.pick(&active))
        };
        let old_leaf: Option<u32> = if resync { Some(self.leaf_of(x)) } else { None };
        let gi_leaf = self.leaf_of(a);
        let epoch = self.w.group(a).current_epoch();
        let with_tree = !self.w.members[a].setup.tree_ext;
        let Ok(gi) = self.w.group(a).group_info_message_allowing_ext_commit(!with_tree || self.rng.chance(1, 2)) else { return false };
        let tree_bytes = self.w.exported_tree_bytes(a);
        let xname = self.w.members[x].setup.name.clone();
        // a re-sync by a fresh client: the storage went with the state (a storage that still holds earlier epochs of the group
        // would run into known finding F14 at the next write), new signature key under the same identity
        let fresh: Option<(Handles, Client<C>)> = if resync && (self.w.members[x].wrote || self.rng.chance(1, 2)) {
            let s = self.w.members[x].setup.clone();
            let h = handles(&s, &self.w.crypto_log, &self.w.scratch);
            let (id, sk) = make_identity(&s.name, s.suite);
            for (id, val) in &self.w.psks {
                h.psk.inner.lock().unwrap().insert(ext_psk_id(id), psk_value(val));
            }
            h.idp.rejected.lock().unwrap().extend(self.w.rejected.iter().cloned());
            let client = (self.mk)(&s, &h, id, sk);
            Some((h, client))
        } else {
            None
        };
        let what = match (old_leaf, &fresh) {
            (Some(l), Some(_)) => format!("external commit {xname} resync rm={l} client=fresh gi={gi_leaf}"),
            (Some(l), None) => format!("external commit {xname} resync rm={l} client=same gi={gi_leaf}"),
            _ => format!("external commit {xname}"),
        };
        let r = std::panic::catch_unwind(std::panic::AssertUnwindSafe(|| {
            let client = fresh.as_ref().map(|(_, c)| c).unwrap_or(&self.w.members[x].client);
            let b = client.external_commit_builder()?;
            let b = b.with_tree_data(tree_of(&tree_bytes));
            let b = match old_leaf {
                Some(l) => b.with_removal(l),
                None => b,
            };
            b.build(gi)
        }));
        let (g, cm) = match r {
            Ok(Ok(v)) => v,
            Ok(Err(e)) => {
                self.w.log(format!("{what} -> err:{}", err_class(&e)));
                self.fail("C07", format!("{xname} cannot build an external commit{} from a current GroupInfo: {}", if resync { " (re-sync)" } else { "" }, err_class(&e)));
                return false;
            }
            Err(_) => {
                self.fail("C03", format!("panic while {xname} built an external commit"));
                return false;
            }
        };
        self.w.log(format!("{what} -> ok"));
        self.rep.op("external-commit", &Res::Ok);
        let cmi = self.w.push_msg("commit", &xname, epoch, cm, if resync { "external commit (re-sync)" } else { "external commit" });
        if resync {
            // the lost state: kept like the retained group of a removed member (it must refuse everything from here on)
            if let Some(old) = self.w.members[x].group.take() {
                self.w.members[x].ghosts.push(old);
            }
            self.rep.op("external-commit-resync", &Res::Ok);
            self.rep.cover.insert("external-commit-resync".into());
            self.rep.cover.insert(format!("external-commit-resync:client={}", if fresh.is_some() { "fresh" } else { "same" }));
        }
        if let Some((h, client)) = fresh {
            self.w.members[x].h = h;
            self.w.members[x].client = client;
            self.w.members[x].wrote = false;
        }
        self.w.members[x].group = Some(g);
        for &i in &active {
            if i == x {
                continue;
            }
            let (r, o) = self.deliver(i, cmi);
            let n = self.w.members[i].setup.name.clone();
            match o {
                Some(ReceivedMessage::Commit(d)) if matches!(d.effect, CommitEffect::NewEpoch(_)) => {
                    if !d.is_external {
                        self.fail("C07", format!("{n} does not report m{cmi} as an external commit"));
                    }
                    if let CommitEffect::NewEpoch(ne) = &d.effect {
                        let removes: Vec<u32> = ne
                            .applied_proposals
                            .iter()
                            .filter_map(|p| match &p.proposal {
                                mls_rs::group::proposal::Proposal::Remove(r) => Some(r.to_remove()),
                                _ => None,
                            })
                            .collect();
                        if removes != old_leaf.into_iter().collect::<Vec<u32>>() {
                            self.fail("C07", format!("{n} reports the removals {removes:?} for the external commit m{cmi} of {xname}, which removes {old_leaf:?}"));
                        }
                    }
                }
                _ => self.fail("C07", format!("{n} rejected the external commit m{cmi} of {xname}: {}", r.s())),
            }
        }
        self.kps.retain(|(j, _)| *j != x);
        self.rep.commits += 1;
        self.rep.cover.insert("external-commit".into());
        let now = self.active();
        for &i in &now {
            let e = self.w.group(i).current_epoch();
            if e != epoch + 1 {
                let n = self.w.members[i].setup.name.clone();
                self.fail("C01", format!("{n} is at epoch {e} after the external commit m{cmi} of epoch {epoch}"));
            }
        }
        if let Err(e) = agreement(&self.w, &now) {
            self.fail("C01", format!("after the external commit m{cmi}: {e}"));
        }
        self.ghost_oracle(cmi);
        // composed group model (Model.Group, `externalCommit`): `gi` = the leaf of the member whose GroupInfo was used, `rm` = the
        // removed leaf of a re-sync, `newleaf` = the committer's leaf node in the new tree, `deliver` = the (unchanged) leaves of
        // the old members that are in the new epoch now; answer: the new tree (parent keys renamed) and the committer's leaf
        if !self.w.group_rows.is_empty() {
            let new_epoch = self.w.group(x).current_epoch();
            let self_leaf = self.leaf_of(x);
            let tree_after = self.w.anodes(x);
            let mut deliver: Vec<u32> = active.iter().filter(|&&i| i != x && self.w.group(i).current_epoch() == new_epoch).map(|&i| self.leaf_of(i)).collect();
            deliver.sort();
            let new_leaf_str = match tree_after.get(2 * self_leaf as usize) {
                Some(ANode::Leaf { ident, hpke, sig }) => {
                    self.w.group_known.extend([*ident, *hpke, *sig]);
                    format!("{ident}:{hpke}:{sig}")
                }
                _ => {
                    self.fail("C07", format!("the leaf {self_leaf} of the external committer {xname} is blank in its own tree after m{cmi}"));
                    "-".into()
                }
            };
            let q = format!(
                "g.external gi={} rm={} newleaf={} deliver={}",
                gi_leaf,
                old_leaf.map(|l| l.to_string()).unwrap_or_else(|| "-".into()),
                new_leaf_str,
                list_u32(&deliver)
            );
            let known_g = self.w.group_known.clone();
            self.w.group_rows.push((q, format!("{} self={}", tree_str(&canon_tree(&tree_after, &known_g)), self_leaf)));
            self.push_classes_and_slots(&now);
        }
        // the tree-layer streams that replay every commit cannot follow an external commit
        self.w.hash_caches.clear();
        self.w.ph_layers.clear();
        if let Some(t) = self.tap.as_deref_mut() {
            let f = t.broadcast(&self.w, cmi, &mut self.rng);
            self.rep.failures.extend(f);
            let f = t.after_commit(&self.w, &now, cmi, &mut self.rng);
            self.rep.failures.extend(f);
        }
        true
    }

    pub fn write_reload(&mut self, i: usize) {
        let n = self.w.members[i].setup.name.clone();
        let (r, _) = self.w.with_group(i, |g| g.write_to_storage());
        self.rep.op("write", &r);
        self.w.log(format!("write {n} -> {}", r.s()));
        if !r.ok() {
            self.fail("C15", format!("write_to_storage of {n} failed without a fault: {}", r.s()));
            return;
        }
        self.w.members[i].wrote = true;
        let before = self.w.components(i);
        let gid = self.w.group(i).group_id().to_vec();
        match self.w.members[i].client.load_group(&gid) {
            Ok(g) => {
                self.w.members[i].group = Some(g);
                let after = self.w.components(i);
                // not compared: the read-through cache of prior epochs and the (idempotent, never cleared)
                // key-package removal marker are not part of the saved state
                let ch: Vec<String> = World::<C>::changed(&before, &after)
                    .into_iter()
                    .filter(|c| c != "repo_pending_kp_removal" && c != "repo_pending_updates")
                    .collect();
                self.w.log(format!("reload {n} -> ok changed={ch:?}"));
                self.rep.op("reload", &Res::Ok);
                if !ch.is_empty() {
                    self.fail("C06", format!("group of {n} reloaded from storage differs in {ch:?}"));
                }
            }
            Err(e) => {
                self.rep.op("reload", &Res::Err(err_class(&e)));
                self.fail("C06", format!("{n} cannot load the group it just wrote: {}", err_class(&e)));
            }
        }
    }

    /// C02: the retained group of a removed member gets nothing out of later traffic either: an application message or a
    /// proposal of an epoch after its removal is refused and leaves the retained group as it was.
    pub fn ghost_traffic(&mut self, mi: usize) {
        let msg = self.w.msgs[mi].msg.clone();
        let kind = self.w.msgs[mi].kind;
        let mepoch = self.w.msgs[mi].epoch;
        for i in 0..self.w.members.len() {
            for gi in 0..self.w.members[i].ghosts.len() {
                let g = &mut self.w.members[i].ghosts[gi];
                if g.current_epoch() >= mepoch {
                    continue;
                }
                let before = (g.current_epoch(), g.epoch_authenticator().ok().map(|s| s.as_bytes().to_vec()));
                let m = msg.clone();
                let r = std::panic::catch_unwind(std::panic::AssertUnwindSafe(|| g.process_incoming_message(m)));
                let after = (g.current_epoch(), g.epoch_authenticator().ok().map(|s| s.as_bytes().to_vec()));
                let n = self.w.members[i].setup.name.clone();
                *self.rep.ops.entry("ghost-traffic".into()).or_default() += 1;
                match r {
                    Ok(Ok(_)) => self.fail("C02", format!("removed member {n} (epoch {}) processed the {kind} m{mi} of epoch {mepoch}", before.0)),
                    Ok(Err(_)) => {
                        if before != after {
                            self.fail("C02", format!("removed member {n} refused the {kind} m{mi} but its retained group changed"));
                        }
                    }
                    Err(_) => self.fail("C03", format!("panic while removed member {n} processed the {kind} m{mi}")),
                }
            }
        }
    }

    /// C02: every retained group of a removed member must reject the commit (and everything later).
    pub fn ghost_oracle(&mut self, cmi: usize) {
        let msg = self.w.msgs[cmi].msg.clone();
        for i in 0..self.w.members.len() {
            for gi in 0..self.w.members[i].ghosts.len() {
                let m = msg.clone();
                let g = &mut self.w.members[i].ghosts[gi];
                if g.current_epoch() >= self.w.msgs[cmi].epoch {
                    // the commit that removed it is processed by definition; only later ones count
                    continue;
                }
                let before = g.current_epoch();
                let r = std::panic::catch_unwind(std::panic::AssertUnwindSafe(|| g.process_incoming_message(m)));
                let n = self.w.members[i].setup.name.clone();
                match r {
                    Ok(Ok(_)) => self.fail("C02", format!("removed member {n} (epoch {before}) processed later commit m{cmi}")),
                    Ok(Err(_)) => {}
                    Err(_) => self.fail("C03", format!("panic while removed member {n} processed m{cmi}")),
                }
                *self.rep.ops.entry("ghost-deliver".into()).or_default() += 1;
            }
        }
    }

    /// Composed group model rows after a commit row (`g.commit` / `g.external`): `g.classes` — the partition of all parties that
    /// ever were in the group (current members; for a party that is out, its last retained group) by their epoch secret, here by
    /// the epoch authenticator, every party named by its identity stamp — and one `g.slots` row per member of the new epoch.
    pub fn push_classes_and_slots(&mut self, now: &[usize]) {
        let mut by_secret: BTreeMap<Vec<u8>, Vec<usize>> = BTreeMap::new();
        for i in 0..self.w.members.len() {
            let g = match (&self.w.members[i].group, self.w.members[i].ghosts.last()) {
                (Some(g), _) => g,
                (None, Some(g)) => g,
                _ => continue,
            };
            let Ok(auth) = g.epoch_authenticator() else { continue };
            let idb = self.w.members[i].identity.clone();
            let st = self.w.stamps.of(&idb);
            by_secret.entry(auth.as_bytes().to_vec()).or_default().push(st);
        }
        let mut classes: Vec<Vec<usize>> = by_secret.into_values().collect();
        for cl in classes.iter_mut() {
            cl.sort();
        }
        classes.sort_by_key(|cl| cl[0]);
        let cls = classes.iter().map(|cl| cl.iter().map(|x| x.to_string()).collect::<Vec<_>>().join(",")).collect::<Vec<_>>().join("|");
        self.w.group_rows.push(("g.classes".into(), if cls.is_empty() { "-".into() } else { cls }));
        for &i in now {
            let (_, b) = self.w.priv_bits(i);
            let idb = self.w.members[i].identity.clone();
            let st = self.w.stamps.of(&idb);
            self.w.group_rows.push((format!("g.slots {st}"), bits_str(&b)));
        }
    }

    /// C08 / C09 / C02 oracles on the real trees and private keys, and the tree-layer query stream.
    #[allow(clippy::too_many_arguments)]
    pub fn tree_oracles(
        &mut self,
        c: usize,
        cmi: usize,
        tree_before: &[ANode],
        cleaf: u32,
        seals: &[(Vec<u8>, Vec<u8>)],
        joiners: &[usize],
        edits: &Edits,
        priv_before: &BTreeMap<usize, (u32, Vec<bool>)>,
        active_before: &[usize],
        has_path: bool,
    ) {
        let now = self.active();
        let cname = self.w.members[c].setup.name.clone();
        let nodes: Vec<Option<Node>> = self.w.group(c).verif_nodes().iter().cloned().collect();
        // no trailing blank (C08)
        if nodes.last().map(|n| n.is_none()).unwrap_or(false) {
            self.fail("C08", format!("tree of {cname} ends in a blank node after m{cmi}"));
        }
        // C08: the tree hash in every member's context equals an independent from-scratch recomputation over the
        // exported nodes; the exported tree + GroupInfo pass the validation of an outside observer
        {
            let suite = self.w.members[c].setup.suite;
            for &i in &now {
                let g = self.w.group(i);
                let exported: Vec<Option<Node>> = g.export_tree().nodes().to_vec();
                let h = independent_tree_hash(&exported, suite);
                if h != g.context().tree_hash {
                    let n = self.w.members[i].setup.name.clone();
                    self.fail("C08", format!("tree hash in {n}'s group context differs from the hash recomputed from its exported tree (after m{cmi})"));
                }
            }
            let g = self.w.group(c);
            match g.group_info_message_allowing_ext_commit(true) {
                Ok(gi) => {
                    let ext = mls_rs::external_client::ExternalClient::builder()
                        .crypto_provider(crate::anyprov::provider_for(self.w.members[c].setup.suite))
                        .identity_provider(mls_rs::identity::basic::BasicIdentityProvider)
                        .build();
                    match std::panic::catch_unwind(std::panic::AssertUnwindSafe(|| ext.observe_group(gi, None, None))) {
                        Ok(Ok(_)) => {}
                        Ok(Err(e)) => self.fail("C08", format!("the tree + GroupInfo exported by {cname} after m{cmi} fail an observer's validation: {}", err_class(&e))),
                        Err(_) => self.fail("C08", format!("observer validation of {cname}'s tree panics after m{cmi}")),
                    }
                    *self.rep.ops.entry("observer-validate".into()).or_default() += 1;
                }
                Err(e) => self.fail("C08", format!("{cname} cannot export group info after m{cmi}: {}", err_class(&e))),
            }
        }
        let depth = (nodes.len() as f64 + 1.0).log2().ceil() as u32;
        self.rep.max_depth = self.rep.max_depth.max(depth);
        // C02: every UpdatePathNode seal goes to a key in the new tree that is not a leaf added by this commit
        let tree_after = self.w.anodes(c);
        let before_keys: BTreeSet<usize> = tree_before
            .iter()
            .filter_map(|n| match n {
                ANode::Leaf { hpke, .. } => Some(*hpke),
                ANode::Parent { key, .. } => Some(*key),
                ANode::Blank => None,
            })
            .collect();
        let mut after_key_pos: BTreeMap<usize, usize> = BTreeMap::new();
        for (i, n) in tree_after.iter().enumerate() {
            match n {
                ANode::Leaf { hpke, .. } => {
                    after_key_pos.insert(*hpke, i);
                }
                ANode::Parent { key, .. } => {
                    after_key_pos.insert(*key, i);
                }
                ANode::Blank => {}
            }
        }
        let joiner_leaves: Vec<u32> = joiners.iter().map(|&j| self.leaf_of(j)).collect();
        let mut path_recipients: Vec<usize> = vec![];
        let mut welcome_recipients = 0usize;
        let mut welcome_keys: Vec<Vec<u8>> = vec![];
        for (pk, info) in seals {
            let is_welcome = info.windows(7).any(|w| w == b"Welcome");
            let is_path = info.windows(14).any(|w| w == b"UpdatePathNode");
            let stamp = self.w.stamps.known(pk);
            if is_path {
                match stamp.and_then(|s| after_key_pos.get(&s).copied()) {
                    None => self.fail("C02", format!("commit m{cmi} by {cname} sealed a path secret to a key that is not in the new tree")),
                    Some(pos) => {
                        path_recipients.push(pos);
                        if pos % 2 == 0 && joiner_leaves.contains(&((pos / 2) as u32)) {
                            self.fail("C02", format!("commit m{cmi} by {cname} sealed a path secret to leaf {} added by the same commit", pos / 2));
                        }
                    }
                }
            } else if is_welcome {
                welcome_recipients += 1;
                if stamp.map(|s| before_keys.contains(&s) || after_key_pos.contains_key(&s)).unwrap_or(false) {
                    self.fail("C02", format!("commit m{cmi} by {cname} sealed joiner secrets to a tree key instead of a key-package init key"));
                }
                // two-sided: the recipient is the init key of a key package this very commit adds
                if !self.w.last_add_init_keys.iter().any(|k| k == pk) {
                    self.fail("C02", format!("commit m{cmi} by {cname} sealed joiner secrets to a key that is not the init key of an added key package"));
                }
                welcome_keys.push(pk.clone());
            } else {
                // every HPKE encryption while a commit is built is a path secret or a Welcome secret
                self.fail("C02", format!("commit m{cmi} by {cname} made an HPKE encryption with an unexpected context label"));
            }
        }
        // ... and every added key package got its group secrets (sealed exactly once)
        for k in self.w.last_add_init_keys.clone() {
            let n = welcome_keys.iter().filter(|x| **x == k).count();
            if n != 1 {
                self.fail("C02", format!("commit m{cmi} by {cname}: the group secrets were sealed {n} times to the init key of an added key package"));
            }
        }
        let _ = welcome_recipients;
        // C09: after a path commit every non-blank node on the committer's direct path has a fresh key
        let new_cleaf = self.leaf_of(c);
        if has_path {
            let n_leaves = ((tree_after.len() / 2 + 1) as u32).next_power_of_two();
            for (p, _) in mls_rs::verif::tree_math::direct_copath(2 * new_cleaf, n_leaves) {
                if let Some(ANode::Parent { key, .. }) = tree_after.get(p as usize) {
                    if before_keys.contains(key) {
                        self.fail("C09", format!("after path commit m{cmi} node {p} on {cname}'s direct path keeps a key of the previous tree"));
                    }
                }
            }
            if let Some(ANode::Leaf { hpke, .. }) = tree_after.get(2 * new_cleaf as usize) {
                if before_keys.contains(hpke) {
                    self.fail("C09", format!("after path commit m{cmi} the committer {cname} keeps its old leaf key"));
                }
            }
        }
        let _ = cleaf;
        // C09: every stored private key opens what is sealed to the public key at that node; none for a blank
        let cs = crate::anyprov::cs_for(self.w.members[c].setup.suite);
        for &i in &now {
            let n = self.w.members[i].setup.name.clone();
            let (leaf, keys) = self.w.group(i).verif_private_tree();
            let mnodes: Vec<Option<Node>> = self.w.group(i).verif_nodes().iter().cloned().collect();
            let n_leaves = ((mnodes.len() / 2 + 1) as u32).next_power_of_two();
            let mut path: Vec<u32> = vec![2 * leaf];
            path.extend(mls_rs::verif::tree_math::direct_copath(2 * leaf, n_leaves).into_iter().map(|(p, _)| p));
            for (slot, k) in keys.iter().enumerate() {
                let node = path.get(slot).and_then(|p| mnodes.get(*p as usize)).and_then(|n| n.as_ref());
                match (k, node) {
                    (Some(_), None) => self.fail("C09", format!("{n} stores a private key in slot {slot} whose node is blank/outside the tree (after m{cmi})")),
                    (Some(sk), Some(node)) => {
                        let pk: &HpkePublicKey = node.public_key();
                        let ok = cs
                            .hpke_seal(pk, b"verif", None, b"probe")
                            .ok()
                            .and_then(|ct| cs.hpke_open(&ct, &HpkeSecretKey::from(sk.clone()), pk, b"verif", None).ok())
                            .map(|pt| pt.as_slice() == b"probe")
                            .unwrap_or(false);
                        if !ok {
                            self.fail("C09", format!("private key of {n} in slot {slot} does not match the public key of node {} (after m{cmi})", path[slot]));
                        }
                    }
                    (None, Some(Node::Parent(p))) => {
                        // entitled unless unmerged at that node
                        if !p.unmerged_leaves.iter().any(|u| **u == leaf) && slot > 0 {
                            self.fail("C09", format!("{n} lacks the private key of non-blank node {} although it is not unmerged there (after m{cmi})", path[slot]));
                        }
                    }
                    (None, Some(Node::Leaf(_))) => self.fail("C09", format!("{n} has no private key for its own leaf (after m{cmi})")),
                    (None, None) => {}
                }
            }
            for slot in keys.len()..path.len() {
                if let Some(Some(Node::Parent(p))) = mnodes.get(path[slot] as usize) {
                    if !p.unmerged_leaves.iter().any(|u| **u == leaf) {
                        self.fail("C09", format!("{n} lacks the private key of non-blank node {} (slot {slot} missing, after m{cmi})", path[slot]));
                    }
                }
            }
        }
        // tree-layer stream for the Lean model (Model.Tree): the commit as a tree transformation, the
        // receivers' private-slot updates, the joiners' slots, and the key invariant on every member
        let bits = |b: &[bool]| {
            let s: String = b.iter().map(|x| if *x { '1' } else { '0' }).collect();
            let s = s.trim_end_matches('0').to_string();
            if s.is_empty() {
                "-".to_string()
            } else {
                s
            }
        };
        let new_leaf_str = if has_path {
            match tree_after.get(2 * new_cleaf as usize) {
                Some(ANode::Leaf { ident, hpke, sig }) => format!("{ident}:{hpke}:{sig}"),
                _ => "-".into(),
            }
        } else {
            "-".into()
        };
        let mut known: BTreeSet<usize> = before_keys.clone();
        for n in tree_before {
            if let ANode::Leaf { ident, sig, .. } = n {
                known.insert(*ident);
                known.insert(*sig);
            }
        }
        for (_, a, b, cc) in &edits.up {
            known.extend([*a, *b, *cc]);
        }
        for (a, b, cc) in &edits.add {
            known.extend([*a, *b, *cc]);
        }
        if let Some(ANode::Leaf { ident, hpke, sig }) = tree_after.get(2 * new_cleaf as usize) {
            if has_path {
                known.extend([*ident, *hpke, *sig]);
            }
        }
        let joiner_leaves_sorted = {
            let mut v = joiner_leaves.clone();
            v.sort();
            v
        };
        let mut rec = path_recipients.clone();
        rec.sort();
        let path_bits: Vec<bool> = {
            let n_leaves = ((tree_after.len() / 2 + 1) as u32).next_power_of_two();
            mls_rs::verif::tree_math::direct_copath(2 * new_cleaf, n_leaves)
                .iter()
                .map(|(p, _)| matches!(tree_after.get(*p as usize), Some(ANode::Parent { key, .. }) if !before_keys.contains(key)))
                .collect()
        };
        if let Some(qa) = self.tree_qa.as_deref_mut() {
            qa.put(
                &format!(
                    "commit {} c={} rm={} up={} add={} newleaf={}",
                    tree_str(tree_before),
                    cleaf,
                    list_u32(&edits.rm),
                    if edits.up.is_empty() { "-".into() } else { edits.up.iter().map(|(l, a, b, c)| format!("{l}:{a}:{b}:{c}")).collect::<Vec<_>>().join(",") },
                    if edits.add.is_empty() { "-".into() } else { edits.add.iter().map(|(a, b, c)| format!("{a}:{b}:{c}")).collect::<Vec<_>>().join(",") },
                    new_leaf_str
                ),
                &format!(
                    "{} added={} seals={} pathbits={}",
                    tree_str(&canon_tree(&tree_after, &known)),
                    list_u32(&joiner_leaves_sorted),
                    if rec.is_empty() { "-".into() } else { rec.iter().map(|x| x.to_string()).collect::<Vec<_>>().join(",") },
                    if has_path { bits(&path_bits) } else { "-".to_string() }
                ),
            );
        }
        // composed group model (Model.Group): the same commit applied to a WORLD of parties with symbolic secrets; `deliver` = the
        // leaves of everybody else who is in the new epoch now; then the partition of all parties that ever were in the group
        // (current members and the retained groups of removed ones) by their epoch secret, here by the epoch authenticator
        if !self.w.group_rows.is_empty() {
            let new_epoch = self.w.group(c).current_epoch();
            let mut deliver: Vec<u32> = now.iter().filter(|&&i| i != c && self.w.group(i).current_epoch() == new_epoch).map(|&i| self.leaf_of(i)).collect();
            deliver.sort();
            for (_, a, b, cc) in &edits.up {
                self.w.group_known.extend([*a, *b, *cc]);
            }
            for (a, b, cc) in &edits.add {
                self.w.group_known.extend([*a, *b, *cc]);
            }
            if has_path {
                if let Some(ANode::Leaf { ident, hpke, sig }) = tree_after.get(2 * new_cleaf as usize) {
                    self.w.group_known.extend([*ident, *hpke, *sig]);
                }
            }
            let mut added_leaves: Vec<u32> = tree_after
                .iter()
                .enumerate()
                .filter_map(|(i, n)| match n {
                    ANode::Leaf { ident, hpke, sig } if i % 2 == 0 && edits.add.iter().any(|x| *x == (*ident, *hpke, *sig)) => Some((i / 2) as u32),
                    _ => None,
                })
                .collect();
            added_leaves.sort();
            let q = format!(
                "g.commit c={} rm={} up={} add={} newleaf={} deliver={}",
                cleaf,
                list_u32(&edits.rm),
                if edits.up.is_empty() { "-".into() } else { edits.up.iter().map(|(l, a, b, c)| format!("{l}:{a}:{b}:{c}")).collect::<Vec<_>>().join(",") },
                if edits.add.is_empty() { "-".into() } else { edits.add.iter().map(|(a, b, c)| format!("{a}:{b}:{c}")).collect::<Vec<_>>().join(",") },
                new_leaf_str,
                list_u32(&deliver)
            );
            let known_g = self.w.group_known.clone();
            self.w.group_rows.push((q, format!("{} added={}", tree_str(&canon_tree(&tree_after, &known_g)), list_u32(&added_leaves))));
            self.push_classes_and_slots(&now);
        }
        let all_added = joiner_leaves.len() == edits.add.len();
        for &i in &now {
            let (leaf, b) = self.w.priv_bits(i);
            let is_joiner = joiners.contains(&i);
            if let Some(qa) = self.tree_qa.as_deref_mut() {
                qa.put(&format!("slots {leaf}"), &bits(&b));
                if i != c && !is_joiner && has_path && active_before.contains(&i) {
                    if let Some((_, bb)) = priv_before.get(&i) {
                        let own = edits.up.iter().any(|(l, ..)| *l == leaf);
                        qa.put(&format!("recv {leaf} {} own={}", bits(bb), own as u8), &bits(&b));
                    }
                }
                if is_joiner && all_added {
                    qa.put(&format!("joiner {leaf} path={}", has_path as u8), &bits(&b));
                }
            }
        }
        self.rep.cover.insert(format!("commit:path={}:depth={}:joiners={}", has_path as u8, depth, joiners.len().min(3)));
        // C08, incremental tree-hash cache: the partition of (previous cache ++ current cache) by equal hash bytes must be the
        // partition by equal hash TERMS of the model's from-scratch tree hashes of the two trees (a stale entry would be equal to
        // an old hash where the model has a new term, a needlessly recomputed one is fine)
        let nh = crate::anyprov::cs_for(self.w.members[c].setup.suite).kdf_extract_size();
        for &i in &now {
            let comps = self.w.components(i);
            let Some((_, bytes)) = comps.iter().find(|(k, _)| k == "tree_hash_cache") else { continue };
            let tree_now = tree_str(&self.w.anodes(i));
            let n_nodes = self.w.anodes(i).len();
            let name = self.w.members[i].setup.name.clone();
            // one entry per node of the full tree over the padded leaf count
            let padded = 2 * ((n_nodes + 1) / 2).next_power_of_two() - 1;
            if bytes.len() != nh * padded {
                self.fail("C08", format!("tree-hash cache of {name} holds {} bytes for {n_nodes} nodes ({padded} expected entries) after m{cmi}", bytes.len()));
                self.w.hash_caches.remove(&i);
                continue;
            }
            let cache_now: Vec<Vec<u8>> = bytes.chunks(nh).map(|c| c.to_vec()).collect();
            if let Some((tree_prev, cache_prev)) = self.w.hash_caches.get(&i) {
                let mut seen: Vec<&Vec<u8>> = vec![];
                let mut ids: Vec<Vec<usize>> = vec![vec![], vec![]];
                for (k, cache) in [cache_prev, &cache_now].into_iter().enumerate() {
                    for h in cache {
                        let id = match seen.iter().position(|x| *x == h) {
                            Some(p) => p,
                            None => {
                                seen.push(h);
                                seen.len() - 1
                            }
                        };
                        ids[k].push(id);
                    }
                }
                let ans = ids.iter().map(|v| v.iter().map(|x| x.to_string()).collect::<Vec<_>>().join(",")).collect::<Vec<_>>().join(" ");
                if let Some(qa) = self.tree_qa.as_deref_mut() {
                    qa.put(&format!("thashspec {tree_prev} {tree_now}"), &ans);
                }
            }
            self.w.hash_caches.insert(i, (tree_now, cache_now));
        }
        // C08, parent hashes: (1) every member's tree has, for every populated parent, a structural parent-hash witness
        // candidate with pairwise distinct stored values (`phvalid`, a necessary condition of RFC 9420 7.9.2 evaluated by the
        // model); (2) for a commit that only carries a path (no proposal changed the tree) the new layer is the model's
        // `update_parent_hashes` applied to the previous layer (`phupd`), compared as partitions of equal bytes
        let pure_path = has_path && edits.rm.is_empty() && edits.up.is_empty() && edits.add.is_empty();
        for &i in &now {
            let nodes: Vec<Option<Node>> = self.w.group(i).verif_nodes().iter().cloned().collect();
            let layer = ph_layer(&nodes);
            let tree_now = tree_str(&self.w.anodes(i));
            // numbering by first appearance, 0 = the empty parent hash
            let number = |layer: &[Option<Vec<u8>>], seed: &mut Vec<Vec<u8>>| -> String {
                layer
                    .iter()
                    .map(|c| match c {
                        None => "-".to_string(),
                        Some(b) if b.is_empty() => "0".to_string(),
                        Some(b) => {
                            let p = match seed.iter().position(|x| x == b) {
                                Some(p) => p,
                                None => {
                                    seed.push(b.clone());
                                    seed.len() - 1
                                }
                            };
                            (p + 1).to_string()
                        }
                    })
                    .collect::<Vec<_>>()
                    .join("|")
            };
            let mut seen = vec![];
            let cells = number(&layer, &mut seen);
            if let Some(qa) = self.tree_qa.as_deref_mut() {
                qa.put(&format!("phvalid {tree_now} {}", if cells.is_empty() { "-".to_string() } else { cells }), "ok");
            }
            if i == c && pure_path {
                if let Some(prev) = self.w.ph_layers.get(&i) {
                    if prev.len() == layer.len() {
                        // the layer at the moment the path keys are installed: previous values; a parent filled in by this path
                        // starts with the empty parent hash; a node blanked... (none in a pure path commit)
                        let before: Vec<Option<Vec<u8>>> = nodes
                            .iter()
                            .zip(prev.iter())
                            .enumerate()
                            .map(|(k, (n, pv))| match n {
                                None => None,
                                Some(Node::Parent(_)) => Some(pv.clone().unwrap_or_default()),
                                Some(Node::Leaf(_)) => if k as u32 == 2 * new_cleaf { None } else { pv.clone() },
                            })
                            .collect();
                        let mut seen2 = vec![];
                        let in_cells = number(&before, &mut seen2);
                        let out_cells = number(&layer, &mut seen2);
                        if let Some(qa) = self.tree_qa.as_deref_mut() {
                            qa.put(&format!("phupd {tree_now} {in_cells} {new_cleaf}"), &out_cells);
                        }
                    }
                }
            }
            self.w.ph_layers.insert(i, layer);
        }
        // members that left keep no entry
        let gone: Vec<usize> = self.w.ph_layers.keys().copied().filter(|k| !now.contains(k)).collect();
        for k in gone {
            self.w.ph_layers.remove(&k);
        }
        let gone: Vec<usize> = self.w.hash_caches.keys().copied().filter(|k| !now.contains(k)).collect();
        for k in gone {
            self.w.hash_caches.remove(&k);
        }
    }

    pub fn run(&mut self) {
        // creator
        let a = self.new_member();
        let r = self.w.members[a].client.create_group(Default::default(), Default::default(), None);
        match r {
            Ok(g) => self.w.members[a].group = Some(g),
            Err(e) => {
                self.fail("C01", format!("cannot create group: {}", err_class(&e)));
                return;
            }
        }
        self.w.log("create A".into());
        if let Some(ANode::Leaf { ident, hpke, sig }) = self.w.anodes(a).first().cloned() {
            self.w.group_known.extend([ident, hpke, sig]);
            self.w.group_rows.push((format!("g.init {ident}:{hpke}:{sig}"), "ok".into()));
        }
        for _ in 0..self.prof.rounds {
            if self.rng.chance(self.prof.p_external, 1000) && self.external_round() {
                continue;
            }
            self.round();
            if self.rep.failures.len() > 20 || self.w.ended {
                break;
            }
        }
        // remove sqlite files
        for m in &self.w.members {
            if let Some(p) = &m.h.sqlite_path {
                let _ = std::fs::remove_file(p);
            }
        }
    }
}

pub fn run_histories(o: &Opts, prof: Profile, n: u64, stem: &str, focus: &[&'static str]) -> (Report, Vec<(u64, Vec<String>)>) {
    let dir = o.str("out", &format!("/verif/work/{stem}"));
    std::fs::create_dir_all(&dir).ok();
    let mut total = Report::default();
    let mut failing_logs: Vec<(u64, Vec<String>)> = vec![];
    let mut seedgen = Rng::new(o.seed());
    let mut qa = QA::create(&dir, &format!("{stem}-tree"));
    let mut fqa = QA::create(&dir, &format!("{stem}-filter"));
    let mut gqa = QA::create(&dir, &format!("{stem}-group"));
    for h in 0..n {
        let hseed = seedgen.next();
        let log: SharedCryptoLog = Default::default();
        let w = new_world(log, &crate::util::scratch("hist"));
        let mk = |s: &Setup, hd: &Handles, id, sk| mk_client(s, hd, id, sk);
        let mut hprof = prof.clone();
        hprof.suite = hprof.suites[(h as usize) % hprof.suites.len()];
        let mut hist = Hist {
            w,
            rng: Rng::new(hseed),
            prof: hprof,
            rep: Report::default(),
            mk: &mk,
            next_name: 0,
            pending_bad_caps: 0,
            bad_kp_ids: vec![],
            forgers: vec![],
            zombies: vec![],
            tree_qa: Some(&mut qa),
            filter_qa: Some(&mut fqa),
            tap: None,
            kps: vec![],
            last_commit_epoch_ok: true,
        };
        hist.run();
        let rep = std::mem::take(&mut hist.rep);
        let oplog = std::mem::take(&mut hist.w.oplog);
        // the composed-model stream is only meaningful for histories without offenders (forged keys, parties that drop out)
        if hist.prof.p_offend == 0 {
            for (q, a) in std::mem::take(&mut hist.w.group_rows) {
                gqa.put(&q, &a);
            }
        }
        drop(hist);
        let relevant: Vec<&Failure> = rep.failures.iter().filter(|f| focus.is_empty() || focus.contains(&f.prop)).collect();
        if !relevant.is_empty() && failing_logs.len() < 5 {
            let mut l = vec![format!("history {h} seed {hseed}")];
            l.extend(oplog.iter().cloned());
            for f in &relevant {
                l.push(format!("FAIL {} at op {}: {}", f.prop, f.at_op, f.what));
            }
            failing_logs.push((hseed, l));
        }
        if h < 2 {
            total.samples.push(oplog.iter().take(25).cloned().collect::<Vec<_>>().join(" ; "));
        }
        total.failures.extend(rep.failures);
        total.cover.extend(rep.cover);
        for (k, v) in rep.ops {
            *total.ops.entry(k).or_default() += v;
        }
        for (k, v) in rep.results {
            *total.results.entry(k).or_default() += v;
        }
        total.commits += rep.commits;
        total.max_depth = total.max_depth.max(rep.max_depth);
    }
    qa.finish();
    fqa.finish();
    gqa.finish();
    let _ = std::fs::remove_dir_all(&crate::util::scratch("hist"));
    (total, failing_logs)
}

pub fn print_report(total: &Report, failing: &[(u64, Vec<String>)], focus: &[&'static str], dir: &str, stem: &str) {
    println!("commits {}", total.commits);
    println!("max_depth {}", total.max_depth);
    println!("cover {}", total.cover.len());
    println!("ops {}", total.ops.iter().map(|(k, v)| format!("{k}={v}")).collect::<Vec<_>>().join(","));
    println!("results {}", total.results.iter().map(|(k, v)| format!("{k}={v}")).collect::<Vec<_>>().join(","));
    let mut per: BTreeMap<&str, u64> = BTreeMap::new();
    for f in &total.failures {
        *per.entry(f.prop).or_default() += 1;
    }
    println!("failures_by_prop {}", per.iter().map(|(k, v)| format!("{k}={v}")).collect::<Vec<_>>().join(","));
    let rel = total.failures.iter().filter(|f| focus.is_empty() || focus.contains(&f.prop)).count();
    println!("oracle_failures {rel}");
    let mut s = String::new();
    for (seed, l) in failing {
        s.push_str(&format!("==== seed {seed}\n{}\n", l.join("\n")));
    }
    std::fs::write(format!("{dir}/{stem}.failures"), s).unwrap();
    std::fs::write(format!("{dir}/{stem}.samples"), total.samples.join("\n")).unwrap();
}

pub fn run(o: &Opts) -> i32 {
    crate::util::quiet_panics();
    let n = o.u64("histories", if o.thorough() { 400 } else { 30 });
    let mut prof = Profile::default_mix();
    prof.rounds = o.u64("rounds", prof.rounds as u64) as usize;
    prof.sqlite_mix = o.get("sqlite").is_some();
    prof.p_offend = o.u64("offend", 0);
    prof.mixed_providers = o.get("providers") == Some("mixed");
    prof.suites = o.str("suites", "1").split(',').filter_map(|x| x.parse().ok()).collect();
    prof.max_members = o.u64("members", prof.max_members as u64) as usize;
    if o.get("removal_bias").is_some() {
        prof.p_remove = 550;
        prof.p_shrink = 150;
        prof.p_add = 650;
    }
    let focus_s = o.str("focus", "");
    let all: [&'static str; 20] = ["C01", "C02", "C03", "C04", "C05", "C06", "C07", "C08", "C09", "C10", "C11", "C12", "C13", "C14", "C15", "C16", "C17", "C18", "C19", "C20"];
    let focus: Vec<&'static str> = all.iter().copied().filter(|p| focus_s.split(',').any(|f| f == *p)).collect();
    let (rep, failing) = run_histories(o, prof, n, "hist", &focus);
    let dir = o.str("out", "/verif/work/hist");
    print_report(&rep, &failing, &focus, &dir, "hist");
    // one failure per line for the check script
    let rel: Vec<String> = rep
        .failures
        .iter()
        .filter(|f| focus.is_empty() || focus.contains(&f.prop))
        .map(|f| format!("{}: {}", f.prop, f.what))
        .collect();
    std::fs::write(format!("{dir}/hist.failures"), rel.join("\n")).unwrap();
    let log: String = failing.iter().map(|(s, l)| format!("==== seed {s}\n{}\n", l.join("\n"))).collect();
    std::fs::write(format!("{dir}/hist.faillog"), log).unwrap();
    0
}
