//! `eks` rows (C13 / C18): the epoch secrets a REAL group holds after a REAL commit, recomputed by the Lean key-schedule
//! model (`KS.epochOfCommit`) from what an outsider with the PSK values can see: the previous epoch's init secret, the
//! new group context, and the PSK ids (with the nonces of the commit) in the order in which the commit message carries
//! its PSK proposals.  Function-level rows (`ks`, `psk`) tie the derivation chain on random inputs; these rows tie the
//! way the group state machine drives it (new context, previous init secret, zero commit secret without a path, PSK
//! order of the commit, the confirmation tag over the new confirmed transcript hash).  Only commits without an update
//! path: the commit secret of a path is not observable.
use crate::util::hex;
use mls_rs::client_builder::MlsConfig;
use mls_rs::mls_rs_codec::MlsEncode;
use mls_rs::{Group, MlsMessage};
use std::collections::BTreeMap;

/// what the harness knows about PSK values: external PSKs by id, resumption PSKs of this group by epoch
#[derive(Default, Clone)]
pub struct PskValues {
    pub external: BTreeMap<Vec<u8>, Vec<u8>>,
    pub resumption: BTreeMap<u64, Vec<u8>>,
}

impl PskValues {
    /// remember the resumption secret of the member's current epoch
    pub fn note_epoch<C: MlsConfig>(&mut self, g: &Group<C>) {
        if let Some((_, v)) = g.verif_components().into_iter().find(|(k, _)| k == "resumption_secret") {
            self.resumption.insert(g.current_epoch(), v);
        }
    }
}

fn varint(b: &[u8], at: &mut usize) -> Option<usize> {
    let f = *b.get(*at)?;
    let n = 1usize << (f >> 6);
    if n > 4 || *at + n > b.len() {
        return None;
    }
    let mut v = (f & 0x3f) as usize;
    for k in 1..n {
        v = (v << 8) | b[*at + k] as usize;
    }
    *at += n;
    Some(v)
}

fn varbytes<'a>(b: &'a [u8], at: &mut usize) -> Option<&'a [u8]> {
    let l = varint(b, at)?;
    let s = b.get(*at..*at + l)?;
    *at += l;
    Some(s)
}

/// value of the PSK named by an encoded `PreSharedKeyID` (RFC 9420 §8.4), if the harness knows it
fn value_of(id: &[u8], group_id: &[u8], vals: &PskValues) -> Result<Vec<u8>, String> {
    let mut at = 1usize;
    match id.first() {
        Some(1) => {
            let ext = varbytes(id, &mut at).ok_or("psk id: truncated")?;
            vals.external.get(ext).cloned().ok_or(format!("external PSK {} unknown to the harness", hex(ext)))
        }
        Some(2) => {
            at += 1; // usage
            let gid = varbytes(id, &mut at).ok_or("psk id: truncated")?;
            let e = id.get(at..at + 8).ok_or("psk id: truncated")?;
            let e = u64::from_be_bytes(e.try_into().unwrap());
            if gid != group_id {
                return Err("resumption PSK of another group".into());
            }
            vals.resumption.get(&e).cloned().ok_or(format!("resumption secret of epoch {e} not recorded"))
        }
        _ => Err("psk id: unknown type".into()),
    }
}

/// everything of the committer's side that has to be captured BEFORE the commit is built
pub struct Before {
    pub init: Vec<u8>,
    /// by-reference proposals in the committer's cache: reference hash -> encoded proposal
    pub cached: Vec<(Vec<u8>, Vec<u8>)>,
}

pub fn before<C: MlsConfig>(committer: &Group<C>) -> Before {
    Before {
        init: committer.verif_key_schedule()[0].clone(),
        cached: committer
            .verif_cached_proposals_in_bundle_order()
            .into_iter()
            .filter_map(|(r, p, _)| p.mls_encode_to_vec().ok().map(|b| (r, b)))
            .collect(),
    }
}

pub enum Row {
    /// (question, answer)
    Row(String, String),
    /// not applicable (update path, a PSK value the harness does not know, ...): reason
    Skip(String),
}

/// `opener`: a clone of a member of the OLD epoch other than the committer (it decrypts an encrypted commit);
/// `after`: a member that has entered the new epoch through this commit.
pub fn row<C: MlsConfig>(b: &Before, opener: &Group<C>, commit: &MlsMessage, after: &Group<C>, vals: &PskValues) -> Row {
    let mut op = opener.clone();
    let (props, has_path) = match op.verif_commit_proposals(commit) {
        Ok(x) => x,
        Err(e) => return Row::Skip(format!("commit not readable: {e:?}")),
    };
    if has_path {
        return Row::Skip("path".into());
    }
    let gid = after.group_id().to_vec();
    let suite = u16::from(after.cipher_suite());
    let mut psks: Vec<(Vec<u8>, Vec<u8>)> = vec![];
    for p in &props {
        // ProposalOrRef: 1 = proposal, 2 = reference
        let body: Vec<u8> = match p.first() {
            Some(1) => p[1..].to_vec(),
            Some(2) => {
                let mut at = 1usize;
                let Some(r) = varbytes(p, &mut at) else { return Row::Skip("reference: truncated".into()) };
                match b.cached.iter().find(|(h, _)| h == r) {
                    Some((_, enc)) => enc.clone(),
                    None => return Row::Skip("reference not in the committer's cache".into()),
                }
            }
            _ => return Row::Skip("unknown ProposalOrRef".into()),
        };
        if body.len() >= 2 && body[0] == 0 && body[1] == 4 {
            let id = body[2..].to_vec();
            match value_of(&id, &gid, vals) {
                Ok(v) => psks.push((id, v)),
                Err(e) => return Row::Skip(e),
            }
        }
    }
    let comps = after.verif_components();
    let get = |k: &str| comps.iter().find(|(n, _)| n == k).map(|(_, v)| v.clone()).unwrap_or_default();
    let ctx = get("context");
    let cth = after.context().confirmed_transcript_hash.to_vec();
    let [init, membership, exporter, authentication, external] = after.verif_key_schedule();
    let enc = after.verif_encryption_secret();
    // confirmation tag: stored as varbytes
    let tag_enc = get("confirmation_tag");
    let mut at = 0usize;
    let tag = varbytes(&tag_enc, &mut at).map(|t| t.to_vec()).unwrap_or_default();
    let mut q = format!("eks {suite} {} - {} {} {} {}", hex(&b.init), hex(&ctx), hex(&cth), enc.is_some() as u8, psks.len());
    for (id, v) in &psks {
        q.push_str(&format!(" {} {}", hex(id), hex(v)));
    }
    let a = [
        hex(&get("resumption_secret")),
        hex(&get("sender_data_secret")),
        enc.map(|e| hex(&e)).unwrap_or("-".into()),
        hex(&exporter),
        hex(&authentication),
        hex(&external),
        hex(&membership),
        hex(&init),
        hex(&tag),
    ]
    .join(" ");
    Row::Row(q, a)
}

/// `extpub` row: the external public key the group publishes for this epoch (GroupInfo extension `external_pub`) against
/// `DeriveKeyPair(external_secret).pk` recomputed by the model (HPKE labeled extract / expand + the Lean X25519 reference).
/// X25519 suites (1, 3) only.  Works for every epoch, with or without an update path.
pub fn extpub_row<C: MlsConfig>(g: &Group<C>) -> Option<(String, String)> {
    let suite = u16::from(g.cipher_suite());
    if suite != 1 && suite != 3 {
        return None;
    }
    let gi = g.group_info_message_allowing_ext_commit(false).ok()?;
    let ext = gi.as_group_info()?.extensions().get_as::<mls_rs::extension::built_in::ExternalPubExt>().ok()??;
    let external = g.verif_key_schedule()[4].clone();
    Some((format!("extpub {suite} {}", hex(&external)), hex(ext.external_pub.as_ref())))
}
