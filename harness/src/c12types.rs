//! Test types for C12: they are encoded/decoded by the REAL `mls-rs-codec` + derive macro; the translator turns
//! this file into Lean schemas (`Gen.Schemas`), so every codec building block is compared with the model on
//! random values and on arbitrary bytes.
use mls_rs::mls_rs_codec::{self, MlsDecode, MlsEncode, MlsSize};
use std::collections::{BTreeMap, HashMap};

#[derive(Clone, Debug, PartialEq, MlsSize, MlsEncode, MlsDecode)]
pub struct VInts {
    pub a: u8,
    pub b: u16,
    pub c: u32,
    pub d: u64,
    pub e: u128,
    pub f: bool,
}

#[derive(Clone, Debug, PartialEq, MlsSize, MlsEncode, MlsDecode)]
#[repr(u8)]
pub enum VChoice {
    Unit = 0u8,
    Num(u32) = 1u8,
    #[allow(dead_code)]
    Bytes(#[mls_codec(with = "mls_rs_codec::byte_vec")] Vec<u8>) = 7u8,
    Pair(VInts) = 200u8,
}

#[derive(Clone, Debug, PartialEq, MlsSize, MlsEncode, MlsDecode)]
#[repr(u16)]
pub enum VWide {
    A = 1u16,
    B(Option<u8>) = 0x0102u16,
    C(Vec<u16>) = 0xFFFFu16,
}

#[derive(Clone, Debug, PartialEq, MlsSize, MlsEncode, MlsDecode)]
pub struct VNest {
    pub fixed: [u8; 3],
    #[mls_codec(with = "mls_rs_codec::byte_vec")]
    pub bytes: Vec<u8>,
    pub list: Vec<VChoice>,
    pub opt: Option<VWide>,
    pub lol: Vec<Vec<u8>>,
    pub text: String,
    pub tail: Option<Option<u8>>,
}

#[derive(Clone, Debug, PartialEq, MlsSize, MlsEncode, MlsDecode)]
pub struct VMaps {
    pub h: HashMap<u16, VChoice>,
    pub b: BTreeMap<Vec<u8>, u8>,
    pub inner: VNest,
}

#[derive(Clone, Debug, PartialEq, MlsSize, MlsEncode, MlsDecode)]
pub struct VWrap(pub Vec<VNest>);

#[derive(Clone, Debug, PartialEq, MlsSize, MlsEncode, MlsDecode)]
pub struct VEmpty {}

#[derive(Clone, Debug, PartialEq, MlsSize, MlsEncode, MlsDecode)]
pub struct VZeroElems {
    pub zs: Vec<[u8; 0]>,
    pub es: Vec<VEmpty>,
}
