//! C10 (directed): by-reference proposals from senders that may not send that proposal type.
//! An external sender (listed in the group's ExternalSendersExt) relays a member's Update as its own external
//! proposal (`ExternalGroup::propose` accepts any `Proposal`), and sends the types it is allowed to send.  Every member
//! caches what it receives; the next commit must be built without panic, must silently drop the offender, and must be
//! accepted by everybody, with the offender reported as unused.
use crate::providers::SharedCryptoLog;
use crate::util::{Opts, Rng, QA};
use crate::world::*;
use mls_rs::client_builder::MlsConfig;
use mls_rs::external_client::{ExternalClient, ExternalReceivedMessage};
use mls_rs::extension::built_in::ExternalSendersExt;
use mls_rs::group::proposal::Proposal;
use mls_rs::identity::basic::BasicIdentityProvider;
use mls_rs::{ExtensionList, MlsMessage};
use mls_rs_crypto_rustcrypto::RustCryptoProvider;

struct Out {
    fails: Vec<String>,
    cases: u64,
    cover: std::collections::BTreeSet<String>,
}

fn scenario<C: MlsConfig>(rng: &mut Rng, mk: &dyn Fn(&Setup, &Handles, mls_rs::identity::SigningIdentity, mls_rs::crypto::SignatureSecretKey) -> mls_rs::Client<C>, out: &mut Out) {
    use mls_rs::extension::built_in::RequiredCapabilitiesExt;
    use mls_rs::group::{CommitEffect, ReceivedMessage, Sender};
    use mls_rs::mls_rs_codec::MlsEncode;
    let n = rng.range(3, 5) as usize;
    let mut w: World<C> = new_world(Default::default(), &crate::util::scratch("c10"));
    let (ext_id, ext_sk) = make_identity("external-sender", 1);
    let mut gce = ExtensionList::new();
    gce.set_from(ExternalSendersExt::new(vec![ext_id.clone()])).unwrap();
    for i in 0..n {
        let name = ((b'A' + i as u8) as char).to_string();
        let s = Setup::new(&name);
        let h = handles(&s, &w.crypto_log, &crate::util::scratch("c10"));
        let (id, sk) = make_identity(&name, 1);
        let client = mk(&s, &h, id, sk);
        w.members.push(Member { identity: name.as_bytes().to_vec(), setup: s, h, client, group: None, ghosts: vec![], wrote: false });
    }
    let Ok(g) = w.members[0].client.create_group(gce, Default::default(), None) else {
        out.fails.push("setup: create_group with ExternalSendersExt failed".into());
        return;
    };
    w.members[0].group = Some(g);
    let kps: Vec<MlsMessage> = (1..n).map(|i| w.members[i].client.generate_key_package_message(Default::default(), Default::default(), None).unwrap()).collect();
    let (_, o) = w.with_group(0, |g| {
        let mut b = g.commit_builder();
        for kp in kps {
            b = b.add_member(kp)?;
        }
        b.build()
    });
    let Some(o) = o else {
        out.fails.push("setup: commit failed".into());
        return;
    };
    w.with_group(0, |g| g.apply_pending_commit());
    for i in 1..n {
        for wm in &o.welcome_messages {
            if let Ok((g, _)) = w.members[i].client.join_group(None, wm, None) {
                w.members[i].group = Some(g);
                break;
            }
        }
    }
    if (1..n).any(|i| w.members[i].group.is_none()) {
        out.fails.push("setup: join failed".into());
        return;
    }
    // the external sender observes the group
    // half of the external senders run in the documented stateless mode `cache_proposals(false)`: proposals RECEIVED from others
    // are handed back by the application (`insert_proposal`), the ones it ISSUES itself must be remembered by `propose` whatever the
    // flag says (`propose` returns only the message, the application has nothing to insert) — C16: the observer follows every
    // commit the members accept, including commits over its own proposals
    let manual_cache = Rng(rng.0 ^ 0xc16f_c16f).below(2) == 1;
    out.cover.insert(format!("external-sender:cache_proposals={}", !manual_cache as u8));
    let ext = {
        let b = ExternalClient::builder()
            .crypto_provider(RustCryptoProvider::default())
            .identity_provider(BasicIdentityProvider)
            .signer(ext_sk, ext_id.clone());
        if manual_cache { b.cache_proposals(false).build() } else { b.build() }
    };
    let gi = w.group(0).group_info_message_allowing_ext_commit(true).unwrap();
    let Ok(mut eg) = ext.observe_group(gi, None, None) else {
        out.fails.push("[C16] setup: external sender cannot observe the group".into());
        return;
    };
    // a member's Update, relayed by the external sender as an external proposal
    let updater = rng.range(1, n as u64 - 1) as usize;
    let (_, upd) = w.with_group(updater, |g| g.propose_update(vec![]));
    let Some(upd) = upd else { return };
    let relayed: Option<Proposal> = match eg.process_incoming_message(upd.clone()) {
        Ok(ExternalReceivedMessage::Proposal(p)) => {
            if manual_cache {
                eg.insert_proposal(p.clone().cached_proposal());
            }
            Some(p.proposal)
        }
        _ => None,
    };
    let mut offenders: Vec<(&str, MlsMessage)> = vec![];
    if let Some(p) = relayed {
        if let Ok(m) = eg.propose(p, vec![]) {
            offenders.push(("external-update", m));
        }
    }
    // allowed external proposals
    let mut allowed: Vec<(&str, MlsMessage)> = vec![];
    let victim = (1..n).find(|i| *i != updater).unwrap_or(1);
    let victim_leaf = w.group(victim).current_member_index();
    let mut removes = false;
    if rng.chance(1, 2) {
        match eg.propose_remove(victim_leaf, vec![]) {
            Ok(m) => {
                allowed.push(("remove", m));
                removes = true;
            }
            Err(e) => out.fails.push(format!("[C16] the external sender cannot propose a Remove: {}", err_class(&e))),
        }
    }
    let with_member_update = rng.chance(1, 2);
    // the other allowed types are chosen by a generator of their own: the choices above (and those of the scenarios that follow
    // this one on the same generator) stay what they were
    let mut xr = Rng(rng.0 ^ 0x10c1_0c10_c10c_10c1);
    // Add of an outsider's key package
    let mut outsider = None;
    if xr.chance(1, 2) {
        let s = Setup::new("Z");
        let h = handles(&s, &w.crypto_log, &crate::util::scratch("c10"));
        let (id, sk) = make_identity("Z", 1);
        let client = mk(&s, &h, id, sk);
        let kp = client.generate_key_package_message(Default::default(), Default::default(), None).unwrap();
        match eg.propose_add(kp, vec![]) {
            Ok(m) => {
                allowed.push(("add", m));
                outsider = Some((client, h));
            }
            Err(e) => out.fails.push(format!("[C16] the external sender cannot propose an Add: {}", err_class(&e))),
        }
    }
    // external PSK every member holds
    if xr.chance(1, 2) {
        let pid = xr.bytes(8);
        let val = xr.bytes(32);
        for m in &w.members {
            m.h.psk.inner.lock().unwrap().insert(ext_psk_id(&pid), psk_value(&val));
        }
        if let Some((_, h)) = &outsider {
            h.psk.inner.lock().unwrap().insert(ext_psk_id(&pid), psk_value(&val));
        }
        match eg.propose_external_psk(ext_psk_id(&pid), vec![]) {
            Ok(m) => allowed.push(("psk", m)),
            Err(e) => out.fails.push(format!("[C16] the external sender cannot propose an external PSK: {}", err_class(&e))),
        }
    }
    // GroupContextExtensions: the external senders stay, (empty) required capabilities come in
    let mut new_exts: Option<ExtensionList> = None;
    if xr.chance(1, 2) {
        let mut l = ExtensionList::new();
        l.set_from(ExternalSendersExt::new(vec![ext_id.clone()])).unwrap();
        l.set_from(RequiredCapabilitiesExt::default()).unwrap();
        match eg.propose_group_context_extensions(l.clone(), vec![]) {
            Ok(m) => {
                allowed.push(("gce", m));
                new_exts = Some(l);
            }
            Err(e) => out.fails.push(format!("[C16] the external sender cannot propose GroupContextExtensions: {}", err_class(&e))),
        }
    }
    let committer = 0usize;
    // deliver: the member's own update (optionally), then the external proposals, to everybody
    let mut msgs: Vec<(usize, Option<&str>, MlsMessage)> = vec![];
    if with_member_update {
        msgs.push((updater, Some("member-update"), upd));
    }
    for (_, m) in offenders.iter() {
        msgs.push((usize::MAX, None, m.clone()));
    }
    for (k, m) in allowed.iter() {
        msgs.push((usize::MAX, Some(k), m.clone()));
    }
    for i in 0..n {
        for (from, legit, m) in &msgs {
            if *from != i {
                let (r, got) = w.with_group(i, |g| g.process_incoming_message(m.clone()));
                if let Res::Panic(p) = &r {
                    out.fails.push(format!("member {i} panics while caching a proposal: {p}"));
                }
                match legit {
                    Some(k) => {
                        // a proposal of a type its sender may send: every member caches it
                        if !matches!(got, Some(ReceivedMessage::Proposal(_))) {
                            out.fails.push(format!("member {i} does not cache the {k} proposal {}: {}", if *from == usize::MAX { "of the external sender" } else { "of a member" }, r.s()));
                        }
                    }
                    None => {
                        out.cover.insert(format!("relayed-update-at-receipt:{}", if r.ok() { "cached" } else { "refused" }));
                    }
                }
            }
        }
    }
    out.cases += 1;
    out.cover.insert(format!("offenders={}:allowed={}:member_update={}", offenders.len(), allowed.len().min(1), with_member_update as u8));
    let mut kinds: Vec<&str> = allowed.iter().map(|x| x.0).collect();
    kinds.sort();
    out.cover.insert(format!("external-allowed=[{}]", kinds.join(",")));
    let mut expected: Vec<&str> = kinds.clone();
    if with_member_update {
        expected.push("update");
    }
    expected.sort();
    // the commit
    let (r, o) = w.with_group(committer, |g| g.commit(vec![]));
    match (&r, o) {
        (Res::Panic(p), _) => out.fails.push(format!("committer panics while building a commit over cached proposals [{}]: {p}", offenders.iter().map(|x| x.0).collect::<Vec<_>>().join(","))),
        (Res::Err(e), _) => out.fails.push(format!("committer cannot commit although every offender came in by reference (allowed external proposals [{}]): {e}", kinds.join(","))),
        (_, None) => {}
        (_, Some(o)) => {
            let unused = o.unused_proposals.len();
            if !offenders.is_empty() && unused < offenders.len() {
                out.fails.push(format!("offending external proposals were not reported as unused ({unused} unused)"));
            }
            // unused: exactly the relayed Update of the external sender
            let bad_unused: Vec<String> = o.unused_proposals.iter().filter(|p| !(matches!(p.proposal, Proposal::Update(_)) && matches!(p.sender, Sender::External(_)))).map(|p| format!("{}:{:?}", proposal_kind(&p.proposal), p.sender)).collect();
            if unused != offenders.len() || !bad_unused.is_empty() {
                out.fails.push(format!("commit over external proposals [{}]: {unused} proposals unused ({} offenders), among them {bad_unused:?}", kinds.join(","), offenders.len()));
            }
            // (a member that did not send its Update to anybody still holds it: from its point of view it is unused as well)
            let check_applied = |who: &str, own_update_unsent: bool, d: &mls_rs::group::CommitMessageDescription, fails: &mut Vec<String>| {
                if let CommitEffect::NewEpoch(ne) = &d.effect {
                    let mut got: Vec<&str> = ne.applied_proposals.iter().map(|p| proposal_kind(&p.proposal)).collect();
                    got.sort();
                    if got != expected {
                        fails.push(format!("{who}: the commit applied {got:?}, expected {expected:?} (allowed external proposals must be applied, the relayed Update must not)"));
                    }
                    for p in &ne.applied_proposals {
                        let ok = match &p.proposal {
                            Proposal::Update(_) => matches!(p.sender, Sender::Member(_)),
                            _ => matches!(p.sender, Sender::External(_)),
                        };
                        if !ok {
                            fails.push(format!("{who}: applied {} proposal has sender {:?}", proposal_kind(&p.proposal), p.sender));
                        }
                    }
                    let from_ext = ne.unused_proposals.iter().filter(|p| matches!(p.proposal, Proposal::Update(_)) && matches!(p.sender, Sender::External(_))).count();
                    let own = ne.unused_proposals.iter().filter(|p| matches!(p.proposal, Proposal::Update(_)) && matches!(p.sender, Sender::Member(_))).count();
                    if from_ext != offenders.len() || own != own_update_unsent as usize || ne.unused_proposals.len() != from_ext + own {
                        fails.push(format!(
                            "{who}: reports unused proposals [{}], expected the relayed Update{}",
                            ne.unused_proposals.iter().map(|p| format!("{}:{:?}", proposal_kind(&p.proposal), p.sender)).collect::<Vec<_>>().join(","),
                            if own_update_unsent { " and its own Update, which it kept to itself" } else { " only" }
                        ));
                    }
                } else {
                    fails.push(format!("{who}: the commit did not start a new epoch for it"));
                }
            };
            let (r, d) = w.with_group(committer, |g| g.apply_pending_commit());
            match d {
                Some(d) => check_applied("committer", false, &d, &mut out.fails),
                None => out.fails.push(format!("committer cannot apply its commit: {}", r.s())),
            }
            for i in 0..n {
                if i == committer || w.members[i].group.is_none() {
                    continue;
                }
                let (r, got) = w.with_group(i, |g| g.process_incoming_message(o.commit_message.clone()));
                if !r.ok() {
                    out.fails.push(format!("member {i} rejects the commit built over external proposals: {}", r.s()));
                    continue;
                }
                match got {
                    Some(ReceivedMessage::Commit(d)) => {
                        if removes && i == victim {
                            if !matches!(d.effect, CommitEffect::Removed { .. }) {
                                out.fails.push("the member the external sender proposed to remove does not see itself removed".into());
                            }
                            w.members[i].group = None;
                        } else {
                            check_applied(&format!("member {i}"), i == updater && !with_member_update, &d, &mut out.fails);
                        }
                    }
                    _ => out.fails.push(format!("member {i}: the commit was not reported as a commit")),
                }
            }
            // the effects, on every remaining member
            let ctx0 = w.group(committer).context().mls_encode_to_vec().unwrap();
            for i in 0..n {
                let Some(g) = w.members[i].group.as_ref() else { continue };
                if g.context().mls_encode_to_vec().unwrap() != ctx0 {
                    out.fails.push(format!("member {i} and the committer disagree on the group context after the commit"));
                }
                let ids: Vec<Vec<u8>> = g.roster().members().iter().filter_map(|m| m.signing_identity.credential.as_basic().map(|b| b.identifier.clone())).collect();
                let victim_in = ids.contains(&w.members[victim].identity);
                if victim_in == removes {
                    out.fails.push(format!("member {i}: external Remove proposed = {removes}, the target is {} the roster", if victim_in { "still in" } else { "not in" }));
                }
                if ids.contains(&b"Z".to_vec()) != outsider.is_some() {
                    out.fails.push(format!("member {i}: external Add proposed = {}, but the roster says otherwise", outsider.is_some()));
                }
                if let Some(l) = &new_exts {
                    if g.context().extensions != *l {
                        out.fails.push(format!("member {i}: the extensions the external sender proposed are not in force"));
                    }
                }
            }
            // the newcomer the external sender proposed joins
            if let Some((z, _)) = &outsider {
                let mut errs = vec![];
                let joined = o.welcome_messages.iter().find_map(|wm| match z.join_group(None, wm, None) {
                    Ok(x) => Some(x),
                    Err(e) => {
                        errs.push(err_class(&e));
                        None
                    }
                });
                match joined {
                    Some((gz, _)) => {
                        if gz.context().mls_encode_to_vec().unwrap() != ctx0 {
                            out.fails.push("the member added through an external proposal holds another group context".into());
                        }
                    }
                    None => out.fails.push(format!("the outsider whose key package the external sender proposed cannot join: {errs:?}")),
                }
            }
            // the external sender follows the group
            match std::panic::catch_unwind(std::panic::AssertUnwindSafe(|| eg.process_incoming_message(o.commit_message.clone()))) {
                Ok(Ok(_)) => {
                    if eg.group_context().mls_encode_to_vec().unwrap() != ctx0 {
                        out.fails.push("[C16] the external sender accepted the commit but holds another group context".into());
                    }
                }
                Ok(Err(e)) => out.fails.push(format!("[C16] the external sender (cache_proposals = {}) rejects the commit over its own proposals: {}", !manual_cache, err_class(&e))),
                Err(_) => out.fails.push("[C16] the external sender panics on the commit over its own proposals".into()),
            }
            out.cover.insert(format!("commit-ok:unused={unused}"));
            out.cover.insert(format!("commit-ok:applied=[{}]", expected.join(",")));
        }
    }
    let _ = std::fs::remove_dir_all(&crate::util::scratch("c10"));
}


/// GroupContextExtensions by reference next to an Add, with clients that support different extension types: the committer
/// drops a GCE proposal that some member does not support and must then judge the other proposals under the extensions that
/// stay in force (and under the new ones when the GCE is kept).
fn gce_scenario(rng: &mut Rng, out: &mut Out) {
    use mls_rs::extension::built_in::RequiredCapabilitiesExt;
    use mls_rs::identity::basic::BasicIdentityProvider;
    use mls_rs::extension::ExtensionType;
    use mls_rs::{CipherSuite, Client};
    let client = |name: &str, exts: &[u16]| {
        let (id, sk) = make_identity(name, 1);
        Client::builder()
            .crypto_provider(RustCryptoProvider::default())
            .identity_provider(BasicIdentityProvider::new())
            .extension_types(exts.iter().map(|e| ExtensionType::from(*e)).collect::<Vec<_>>())
            // every client of this scenario also supports one custom proposal type, which the group requires
            .custom_proposal_type(mls_rs::group::proposal::ProposalType::from(0xf00du16))
            .signing_identity(id, sk, CipherSuite::from(1u16))
            .build()
    };
    let required = |exts: &[u16]| {
        let mut l = ExtensionList::new();
        if !exts.is_empty() {
            l.set_from(RequiredCapabilitiesExt::new(exts.iter().map(|e| ExtensionType::from(*e)).collect(), vec![mls_rs::group::proposal::ProposalType::from(0xf00du16)], vec![])).unwrap();
        }
        l
    };
    let n = rng.range(2, 4) as usize;
    let member_exts: &[u16] = &[42];
    let clients: Vec<_> = (0..n).map(|i| client(&format!("g{i}"), member_exts)).collect();
    let Ok(mut g0) = clients[0].create_group(required(&[42]), Default::default(), None) else {
        out.fails.push("gce: create_group".into());
        return;
    };
    let mut groups = vec![];
    if n > 1 {
        let mut b = g0.commit_builder();
        for c in clients.iter().skip(1) {
            b = b.add_member(c.generate_key_package_message(Default::default(), Default::default(), None).unwrap()).unwrap();
        }
        let o = b.build().unwrap();
        g0.apply_pending_commit().unwrap();
        for c in clients.iter().skip(1) {
            let mut joined = None;
            for w in &o.welcome_messages {
                if let Ok((g, _)) = c.join_group(None, w, None) {
                    joined = Some(g);
                    break;
                }
            }
            let Some(g) = joined else {
                out.fails.push("gce: setup join".into());
                return;
            };
            groups.push(g);
        }
    }
    groups.insert(0, g0);
    // the proposed new requirement and the newcomer's support
    let new_req: Vec<u16> = match rng.below(4) {
        0 => vec![43],
        1 => vec![42, 43],
        2 => vec![],
        _ => vec![42],
    };
    let newcomer_exts: Vec<u16> = match rng.below(4) {
        0 => vec![43],
        1 => vec![42, 43],
        2 => vec![42],
        _ => vec![],
    };
    let newcomer = client("newcomer", &newcomer_exts);
    let proposer = rng.below(n as u64) as usize;
    let committer = rng.below(n as u64) as usize;
    let Ok(gce) = groups[proposer].propose_group_context_extensions(required(&new_req), vec![]) else {
        out.fails.push("gce: propose_group_context_extensions".into());
        return;
    };
    let kp = newcomer.generate_key_package_message(Default::default(), Default::default(), None).unwrap();
    let add = groups[proposer].propose_add(kp, vec![]);
    let mut props = vec![gce];
    if let Ok(a) = add {
        props.push(a);
    }
    let n_props = props.len();
    for (i, g) in groups.iter_mut().enumerate() {
        if i != proposer {
            for p in &props {
                let _ = g.process_incoming_message(p.clone());
            }
        }
    }
    out.cases += 1;
    let gce_ok = new_req.iter().all(|e| member_exts.contains(e));
    let in_force: &[u16] = if gce_ok { &new_req } else { &[42] };
    let add_ok = n_props == 2 && in_force.iter().all(|e| newcomer_exts.contains(e));
    // a newcomer that itself lacks a newly required extension makes the GCE unsupported in the new tree
    let gce_ok = gce_ok && (!add_ok || new_req.iter().all(|e| newcomer_exts.contains(e)));
    let expect_unused = (!gce_ok) as usize + (n_props == 2 && !add_ok) as usize;
    let tag = format!("gce: members support [42], proposed requirement {new_req:?}, newcomer supports {newcomer_exts:?}");
    let r = std::panic::catch_unwind(std::panic::AssertUnwindSafe(|| groups[committer].commit(vec![])));
    match r {
        Err(_) => out.fails.push(format!("{tag}: committer panics")),
        Ok(Err(e)) => out.fails.push(format!("{tag}: committer cannot commit by-reference proposals: {}", err_class(&e))),
        Ok(Ok(o)) => {
            if o.unused_proposals.len() != expect_unused {
                out.fails.push(format!("{tag}: {} proposals reported unused, expected {expect_unused}", o.unused_proposals.len()));
            }
            let _ = groups[committer].apply_pending_commit();
            let cm = o.commit_message.clone();
            for (i, g) in groups.iter_mut().enumerate() {
                if i != committer {
                    if let Err(e) = g.process_incoming_message(cm.clone()) {
                        out.fails.push(format!("{tag}: member {i} rejects the commit the committer built: {}", err_class(&e)));
                    }
                }
            }
            if add_ok {
                let joined = o.welcome_messages.iter().any(|w| newcomer.join_group(None, w, None).is_ok());
                if !joined {
                    out.fails.push(format!("{tag}: the added newcomer cannot join"));
                }
            } else if !o.welcome_messages.is_empty() {
                out.fails.push(format!("{tag}: a newcomer that does not meet the requirements in force was added"));
            }
            out.cover.insert(format!("gce:kept={}:add_kept={}", gce_ok as u8, add_ok as u8));
        }
    }
}

/// Key-package lifetime against the time the commit is built / processed at.  An outsider publishes a key package valid in
/// [nb, na] (hook `verif_generate_key_package_unchecked`).  By value and by reference, for commit times before, inside and
/// after the window: the committer refuses / drops the Add exactly outside the window; a commit built inside the window is
/// accepted by a receiver whose clock is inside the window (or that passes no time) and rejected by receivers whose clock is
/// outside it.
fn lifetime_scenario(rng: &mut Rng, out: &mut Out, qa: &mut QA) {
    use mls_rs::identity::basic::BasicIdentityProvider;
    use mls_rs::time::MlsTime;
    use mls_rs::{CipherSuite, Client};
    let client = |name: &str| {
        let (id, sk) = make_identity(name, 1);
        Client::builder()
            .crypto_provider(RustCryptoProvider::default())
            .identity_provider(BasicIdentityProvider::new())
            .signing_identity(id, sk, CipherSuite::from(1u16))
            .build()
    };
    let a = client("la");
    let b = client("lb");
    let c = client("lc");
    let o = client("lo");
    let Ok(mut ga) = a.create_group(Default::default(), Default::default(), None) else { return };
    let kps = vec![
        b.generate_key_package_message(Default::default(), Default::default(), None).unwrap(),
        c.generate_key_package_message(Default::default(), Default::default(), None).unwrap(),
    ];
    let mut bld = ga.commit_builder();
    for kp in kps {
        bld = bld.add_member(kp).unwrap();
    }
    let Ok(co) = bld.build() else { return };
    ga.apply_pending_commit().unwrap();
    let join = |cl: &Client<_>| co.welcome_messages.iter().find_map(|w| cl.join_group(None, w, None).ok().map(|x| x.0));
    let (Some(gb), Some(gc)) = (join(&b), join(&c)) else {
        out.fails.push("lifetime: setup join".into());
        return;
    };
    // members' own leaves were made now: the window of the outsider is placed around the present
    let now = MlsTime::now().seconds_since_epoch();
    let nb = now - rng.range(100, 1000);
    let na = now + rng.range(100, 1000);
    let before = nb - rng.range(1, 50);
    let after = na + rng.range(1, 50);
    let inside = now;
    for by_ref in [false, true] {
        for (tname, t, valid) in [("before", before, false), ("inside", inside, true), ("after", after, false)] {
            out.cases += 1;
            let Ok(kp) = o.verif_generate_key_package_unchecked(|_| {}, Some((nb, na))) else {
                out.fails.push("lifetime: key package".into());
                return;
            };
            let mut g = ga.clone();
            let mut recv: Vec<(mls_rs::Group<_>, &str, Option<u64>, bool)> =
                vec![(gb.clone(), "inside", Some(inside), true), (gc.clone(), "after", Some(after), false), (gb.clone(), "before", Some(before), false), (gc.clone(), "no-clock", None, true)];
            let built = if by_ref {
                let mut gp = gb.clone();
                let Ok(p) = gp.propose_add(kp, vec![]) else {
                    out.fails.push("lifetime: propose_add refused (proposers do not check the lifetime against a clock of their own choice)".into());
                    continue;
                };
                if g.process_incoming_message(p.clone()).is_err() {
                    out.fails.push("lifetime: committer rejected the Add proposal message".into());
                    continue;
                }
                for r in recv.iter_mut() {
                    let _ = r.0.process_incoming_message(p.clone());
                }
                g.commit_builder().commit_time(MlsTime::from(t)).build()
            } else {
                g.commit_builder().add_member(kp).and_then(|b| b.commit_time(MlsTime::from(t)).build())
            };
            out.cover.insert(format!("lifetime:{}:{tname}:{}", if by_ref { "ref" } else { "val" }, if built.is_ok() { "built" } else { "refused" }));
            match (&built, by_ref, valid) {
                (Ok(_), false, false) => out.fails.push(format!("lifetime: Add by value of a key package outside its lifetime (commit time {tname} the window) was committed")),
                (Err(e), false, true) => out.fails.push(format!("lifetime: Add by value inside the lifetime was refused: {}", err_class(e))),
                (Err(e), true, _) => out.fails.push(format!("lifetime: commit with a by-reference Add (commit time {tname} the window) failed instead of dropping it: {}", err_class(e))),
                _ => {}
            }
            // `life` rows of the model (`Lifetime.addOk`): window, clock -> verdict on the Add
            if !by_ref {
                qa.put(&format!("life {nb} {na} {t}"), if built.is_ok() { "ok" } else { "err" });
            }
            let Ok(co2) = built else { continue };
            let applied_add = !co2.welcome_messages.is_empty();
            if by_ref {
                qa.put(&format!("life {nb} {na} {t}"), if applied_add { "ok" } else { "err" });
            }
            if by_ref && applied_add != valid {
                out.fails.push(format!("lifetime: by-reference Add with commit time {tname} the window: applied={applied_add}, expected {valid}"));
            }
            if !applied_add {
                continue;
            }
            // receivers with clocks of their own
            for (mut r, rname, rt, expect_ok) in recv {
                let res = match rt {
                    Some(x) => r.process_incoming_message_with_time(co2.commit_message.clone(), MlsTime::from(x)),
                    None => r.process_incoming_message(co2.commit_message.clone()),
                };
                out.cases += 1;
                qa.put(&format!("life {nb} {na} {}", rt.map(|x| x.to_string()).unwrap_or("-".into())), if res.is_ok() { "ok" } else { "err" });
                out.cover.insert(format!("lifetime:recv:{rname}:{}", if res.is_ok() { "ok" } else { "rejected" }));
                match (res, expect_ok) {
                    (Ok(_), false) => out.fails.push(format!("lifetime: a receiver whose clock is {rname} the key package's window accepted the commit that adds it")),
                    (Err(e), true) => out.fails.push(format!("lifetime: a receiver ({rname}) rejected a commit adding a key package inside its lifetime: {}", err_class(&e))),
                    _ => {}
                }
            }
        }
    }
}

/// A by-reference resumption-PSK proposal for a past epoch that the committer no longer retains (its storage keeps fewer
/// epochs than the proposer's): an unknown PSK that came in by reference — the commit must be built without it (C10), and a
/// committer that still has the epoch commits it.
fn stale_resumption_psk_scenario<C: MlsConfig>(rng: &mut Rng, mk: &dyn Fn(&Setup, &Handles, mls_rs::identity::SigningIdentity, mls_rs::crypto::SignatureSecretKey) -> mls_rs::Client<C>, out: &mut Out) {
    let log: SharedCryptoLog = Default::default();
    let mut w: World<C> = new_world(log, &crate::util::scratch("c10x"));
    for (name, ret) in [("A", 1usize), ("B", 5), ("C", 5)] {
        let mut s = Setup::new(name);
        s.retention = ret;
        let h = handles(&s, &w.crypto_log, &w.scratch);
        let (id, sk) = make_identity(&s.name, s.suite);
        let client = mk(&s, &h, id, sk);
        w.members.push(Member { identity: s.name.as_bytes().to_vec(), setup: s, h, client, group: None, ghosts: vec![], wrote: false });
    }
    let Ok(g) = w.members[0].client.create_group(Default::default(), Default::default(), None) else { return };
    w.members[0].group = Some(g);
    let kps: Vec<MlsMessage> = (1..3).map(|i| w.members[i].client.generate_key_package_message(Default::default(), Default::default(), None).unwrap()).collect();
    let (_, o) = w.with_group(0, |g| {
        let mut b = g.commit_builder();
        for kp in kps {
            b = b.add_member(kp)?;
        }
        b.build()
    });
    let Some(o) = o else { return };
    w.with_group(0, |g| g.apply_pending_commit());
    for i in 1..3 {
        match o.welcome_messages.iter().find_map(|wm| w.members[i].client.join_group(None, wm, None).ok()) {
            Some((g, _)) => w.members[i].group = Some(g),
            None => return,
        }
    }
    // several epochs, everybody writes after each: A (retention 1) forgets the old ones
    let rounds = rng.range(3, 5);
    for _ in 0..rounds {
        let c = rng.below(3) as usize;
        let (_, o) = w.with_group(c, |g| g.commit(vec![]));
        let Some(o) = o else { return };
        w.with_group(c, |g| g.apply_pending_commit());
        for i in 0..3 {
            if i != c {
                let m = o.commit_message.clone();
                w.with_group(i, |g| g.process_incoming_message(m));
            }
            w.with_group(i, |g| g.write_to_storage());
        }
    }
    let now = w.group(0).current_epoch();
    let old = 1 + rng.below(2); // joined at epoch 1; epochs 1 or 2 are beyond A's retention, within B's and C's
    if old + 1 >= now {
        return;
    }
    let gid = w.group(0).group_id().to_vec();
    let a_has = w.group(0).verif_resumption_secret_available(&gid, old).unwrap_or(false);
    let c_has = w.group(2).verif_resumption_secret_available(&gid, old).unwrap_or(false);
    let (_, p) = w.with_group(1, |g| g.propose_resumption_psk(old, vec![]));
    let Some(p) = p else { return };
    for i in [0usize, 2] {
        let m = p.clone();
        let (r, _) = w.with_group(i, |g| g.process_incoming_message(m));
        if !r.ok() {
            out.fails.push(format!("stale-psk: member {i} rejected the resumption-PSK proposal message: {}", r.s()));
            return;
        }
    }
    out.cases += 1;
    out.cover.insert(format!("stale-psk:committer-has={}:other-has={}", a_has as u8, c_has as u8));
    // A (which lacks the epoch) commits: the proposal must be dropped, not make the commit fail
    let mut ga = w.group(0).clone();
    match ga.commit(vec![]) {
        Ok(co) => {
            let dropped = co.unused_proposals.iter().any(|p| matches!(p.proposal, mls_rs::group::proposal::Proposal::Psk(_)));
            if !a_has && !dropped {
                out.fails.push("stale-psk: a committer that does not retain the epoch committed the resumption PSK".into());
            }
        }
        Err(e) => {
            if !a_has {
                out.fails.push(format!(
                    "stale-psk: a by-reference resumption-PSK proposal for epoch {old} (now {now}) that the committer no longer retains makes its commit fail ({}) instead of being dropped",
                    err_class(&e)
                ));
            }
        }
    }
    // C (which still has it) commits it
    if c_has {
        let mut gc = w.group(2).clone();
        if let Err(e) = gc.commit(vec![]) {
            out.fails.push(format!("stale-psk: a committer that retains the epoch cannot commit the resumption PSK: {}", err_class(&e)));
        }
    }
    let _ = std::fs::remove_dir_all(&crate::util::scratch("c10x"));
}

/// identity provider of the credential-type scenario: basic credentials and one custom credential type; `types` is what the
/// client lists in its capabilities
#[derive(Clone)]
struct CredId {
    types: Vec<mls_rs::identity::CredentialType>,
}

const CUSTOM_CRED: u16 = 0xf042;

impl mls_rs::IdentityProvider for CredId {
    type Error = crate::providers::Injected;
    fn validate_member(&self, id: &mls_rs::identity::SigningIdentity, _t: Option<mls_rs::time::MlsTime>, _c: mls_rs_core::identity::MemberValidationContext<'_>) -> Result<(), Self::Error> {
        if self.types.contains(&id.credential.credential_type()) {
            Ok(())
        } else {
            Err(crate::providers::Injected("credential type not supported by this client".into()))
        }
    }
    fn validate_external_sender(&self, _id: &mls_rs::identity::SigningIdentity, _t: Option<mls_rs::time::MlsTime>, _e: Option<&ExtensionList>) -> Result<(), Self::Error> {
        Ok(())
    }
    fn identity(&self, id: &mls_rs::identity::SigningIdentity, _e: &ExtensionList) -> Result<Vec<u8>, Self::Error> {
        Ok(match (&id.credential.as_basic(), &id.credential.as_custom()) {
            (Some(b), _) => b.identifier.clone(),
            (_, Some(c)) => c.data.clone(),
            _ => vec![],
        })
    }
    fn valid_successor(&self, a: &mls_rs::identity::SigningIdentity, b: &mls_rs::identity::SigningIdentity, e: &ExtensionList) -> Result<bool, Self::Error> {
        Ok(self.identity(a, e)? == self.identity(b, e)?)
    }
    fn supported_types(&self) -> Vec<mls_rs::identity::CredentialType> {
        self.types.clone()
    }
}

/// Credential types (RFC 9420 7.3): a new leaf's credential type must be supported by every member, and the new leaf must
/// support every credential type in use.  Clients with capabilities [basic] or [basic, custom]; outsiders with a basic or a
/// custom credential.  By value such an Add is refused, by reference it is dropped, a compatible one is committed; two
/// by-reference Adds that exclude each other (basic-only client, custom-credential client): exactly one is committed, whatever
/// the cache order, and every receiver accepts and agrees.
fn credential_type_scenario(rng: &mut Rng, out: &mut Out) {
    use mls_rs::identity::{CredentialType, CustomCredential, SigningIdentity};
    use mls_rs::{CipherSuite, CipherSuiteProvider, Client, CryptoProvider};
    let both = vec![CredentialType::BASIC, CredentialType::new(CUSTOM_CRED)];
    let basic_only = vec![CredentialType::BASIC];
    let cs = RustCryptoProvider::default().cipher_suite_provider(CipherSuite::from(1u16)).unwrap();
    let client = |name: &str, custom_cred: bool, types: &Vec<CredentialType>| {
        let (sk, pk) = cs.signature_key_generate().unwrap();
        let cred = if custom_cred {
            mls_rs::identity::Credential::Custom(CustomCredential::new(CredentialType::new(CUSTOM_CRED), name.as_bytes().to_vec()))
        } else {
            mls_rs::identity::basic::BasicCredential::new(name.as_bytes().to_vec()).into_credential()
        };
        Client::builder()
            .crypto_provider(RustCryptoProvider::default())
            .identity_provider(CredId { types: types.clone() })
            .signing_identity(SigningIdentity::new(cred, pk), sk, CipherSuite::from(1u16))
            .build()
    };
    // group: 2-3 members with basic credentials; `narrow` = one of them supports basic only
    let narrow = rng.chance(1, 2);
    let n = rng.range(2, 3) as usize;
    let clients: Vec<_> = (0..n).map(|i| client(&format!("m{i}"), false, if narrow && i == n - 1 { &basic_only } else { &both })).collect();
    let Ok(mut g0) = clients[0].create_group(Default::default(), Default::default(), None) else {
        out.fails.push("cred: create_group".into());
        return;
    };
    let mut b = g0.commit_builder();
    for c in clients.iter().skip(1) {
        b = b.add_member(c.generate_key_package_message(Default::default(), Default::default(), None).unwrap()).unwrap();
    }
    let Ok(o) = b.build() else {
        out.fails.push("cred: setup commit".into());
        return;
    };
    g0.apply_pending_commit().unwrap();
    let mut groups = vec![g0];
    for c in clients.iter().skip(1) {
        match o.welcome_messages.iter().find_map(|w| c.join_group(None, w, None).ok()) {
            Some((g, _)) => groups.push(g),
            None => {
                out.fails.push("cred: setup join".into());
                return;
            }
        }
    }
    // an add + remove cycle first, so that the credential-type counters of the tree index have gone through a removal
    {
        let d = client("d-dummy", false, &both);
        let kd = d.generate_key_package_message(Default::default(), Default::default(), None).unwrap();
        let Ok(co) = groups[0].commit_builder().add_member(kd).and_then(|b| b.build()) else {
            out.fails.push("cred: cannot add a compatible basic-credential member".into());
            return;
        };
        groups[0].apply_pending_commit().unwrap();
        for g in groups.iter_mut().skip(1) {
            let _ = g.process_incoming_message(co.commit_message.clone());
        }
        let dl = groups[0].roster().members().iter().map(|m| m.index).max().unwrap_or(0);
        let Ok(co) = groups[0].commit_builder().remove_member(dl).and_then(|b| b.build()) else {
            out.fails.push("cred: cannot remove the dummy member".into());
            return;
        };
        groups[0].apply_pending_commit().unwrap();
        for g in groups.iter_mut().skip(1) {
            let _ = g.process_incoming_message(co.commit_message.clone());
        }
    }
    // outsiders
    let x_custom = client("x-custom", true, &both); // custom credential, supports both
    let y_basic_only = client("y-basic-only", false, &basic_only); // basic credential, supports basic only
    let kx = x_custom.generate_key_package_message(Default::default(), Default::default(), None).unwrap();
    let ky = y_basic_only.generate_key_package_message(Default::default(), Default::default(), None).unwrap();
    // (1) by value: X is compatible exactly when nobody is narrow; Y is compatible (everybody uses basic)
    for (who, kp, ok_expected) in [("custom-credential", kx.clone(), !narrow), ("basic-only", ky.clone(), true)] {
        out.cases += 1;
        let mut g = groups[0].clone();
        let r = g.commit_builder().add_member(kp).and_then(|b| b.build());
        out.cover.insert(format!("cred:value:{who}:narrow={}:{}", narrow as u8, if r.is_ok() { "built" } else { "refused" }));
        match (r.is_ok(), ok_expected) {
            (true, false) => out.fails.push(format!("cred: Add by value of a {who} key package was committed although a member does not support its credential type")),
            (false, true) => out.fails.push(format!("cred: Add by value of a compatible {who} key package was refused: {}", r.err().map(|e| err_class(&e)).unwrap_or_default())),
            _ => {}
        }
    }
    // (2) by reference, both proposed by member 1: X and Y exclude each other (X uses a type Y does not support); with a narrow
    // member X is out anyway
    let mut gp = groups[1].clone();
    let (Ok(px), Ok(py)) = (gp.propose_add(kx, vec![]), gp.propose_add(ky, vec![])) else {
        out.fails.push("cred: propose_add".into());
        return;
    };
    let order: Vec<&MlsMessage> = if rng.chance(1, 2) { vec![&px, &py] } else { vec![&py, &px] };
    let mut recv: Vec<mls_rs::Group<_>> = groups.iter().skip(2).cloned().collect();
    recv.push(gp);
    let mut gc = groups[0].clone();
    for p in &order {
        if gc.process_incoming_message((*p).clone()).is_err() {
            out.fails.push("cred: committer rejected an Add proposal message".into());
            return;
        }
        for (k, r) in recv.iter_mut().enumerate() {
            // the proposer (last receiver) has its own proposals cached already
            if k + 1 < n - 1 {
                let _ = r.process_incoming_message((*p).clone());
            }
        }
    }
    out.cases += 1;
    match gc.commit(vec![]) {
        Err(e) => out.fails.push(format!("cred: commit with two by-reference Adds of incompatible credential types failed instead of dropping one: {}", err_class(&e))),
        Ok(co) => {
            let _ = gc.apply_pending_commit();
            let members_after = gc.roster().members().len();
            let expected = n + 1; // exactly one of the two (with a narrow member: Y only)
            out.cover.insert(format!("cred:ref:narrow={}:members_after={}", narrow as u8, members_after - n));
            if members_after != expected {
                out.fails.push(format!("cred: {} of the two mutually exclusive Adds were committed (narrow member: {narrow})", members_after - n));
            }
            if narrow && gc.roster().members().iter().any(|m| m.signing_identity.credential.as_custom().is_some()) {
                out.fails.push("cred: a custom-credential member was added although a member supports basic credentials only".into());
            }
            let tree = gc.export_tree().to_bytes().unwrap_or_default();
            for r in recv.iter_mut() {
                match r.process_incoming_message(co.commit_message.clone()) {
                    Ok(_) => {
                        if r.export_tree().to_bytes().unwrap_or_default() != tree {
                            out.fails.push("cred: a receiver accepted the commit but holds another tree".into());
                        }
                    }
                    Err(e) => out.fails.push(format!("cred: a receiver rejected the commit the library let the committer build: {}", err_class(&e))),
                }
            }
            // (3) with a custom-credential member in the group, a basic-only client can no longer be added
            if gc.roster().members().iter().any(|m| m.signing_identity.credential.as_custom().is_some()) {
                let kz = client("z-basic-only", false, &basic_only).generate_key_package_message(Default::default(), Default::default(), None).unwrap();
                out.cases += 1;
                let r = gc.commit_builder().add_member(kz).and_then(|b| b.build());
                out.cover.insert(format!("cred:value:basic-only-into-custom-group:{}", if r.is_ok() { "built" } else { "refused" }));
                if r.is_ok() {
                    out.fails.push("cred: a client that supports basic credentials only was added to a group in which a custom credential is in use".into());
                }
            }
        }
    }
}

/// "Rejected when received from someone else": member A re-issues its own (empty, public) commit with further proposals put in
/// — by reference (everybody has cached the proposal messages) or by value — WITHOUT filtering, as a dishonest or buggy committer
/// would.  For every rule-violating set the receivers C and D must refuse the commit on proposal-rule grounds, i.e. before they
/// get to the update path, the key schedule or the confirmation tag (which the hook cannot fit to the new proposals: a rejection
/// for one of those "late" reasons means the proposal rules let the set through).  A valid extra proposal is the control.
fn received_offenders_scenario<C: MlsConfig>(rng: &mut Rng, mk: &dyn Fn(&Setup, &Handles, mls_rs::identity::SigningIdentity, mls_rs::crypto::SignatureSecretKey) -> mls_rs::Client<C>, out: &mut Out) {
    use mls_rs::verif::insider::InsiderEdit;
    let log: SharedCryptoLog = Default::default();
    let mut w: World<C> = new_world(log, &crate::util::scratch("c10x"));
    for name in ["A", "B", "C", "D", "E"] {
        let s = Setup::new(name);
        let h = handles(&s, &w.crypto_log, &w.scratch);
        let (id, sk) = make_identity(&s.name, s.suite);
        let client = mk(&s, &h, id, sk);
        w.members.push(Member { identity: s.name.as_bytes().to_vec(), setup: s, h, client, group: None, ghosts: vec![], wrote: false });
    }
    let Ok(g) = w.members[0].client.create_group(Default::default(), Default::default(), None) else { return };
    w.members[0].group = Some(g);
    let kps: Vec<MlsMessage> = (1..4).map(|i| w.members[i].client.generate_key_package_message(Default::default(), Default::default(), None).unwrap()).collect();
    let (_, o) = w.with_group(0, |g| {
        let mut b = g.commit_builder();
        for kp in kps {
            b = b.add_member(kp)?;
        }
        b.build()
    });
    let Some(o) = o else { return };
    w.with_group(0, |g| g.apply_pending_commit());
    for i in 1..4 {
        match o.welcome_messages.iter().find_map(|wm| w.members[i].client.join_group(None, wm, None).ok()) {
            Some((g, _)) => w.members[i].group = Some(g),
            None => return,
        }
    }
    // one commit by somebody else so that parents exist and A is not the last committer
    let c0 = 1 + rng.below(3) as usize;
    let (_, o) = w.with_group(c0, |g| g.commit(vec![]));
    let Some(o) = o else { return };
    w.with_group(c0, |g| g.apply_pending_commit());
    for i in 0..4 {
        if i != c0 {
            let m = o.commit_message.clone();
            w.with_group(i, |g| g.process_incoming_message(m));
        }
    }
    let leaf = |w: &World<C>, i: usize| w.group(i).current_member_index();
    let (la, ld) = (leaf(&w, 0), leaf(&w, 3));
    // the offending sets: (name, [(proposer, proposal message, by reference?)], must be refused?)
    type Item = (usize, MlsMessage, bool);
    let mut sets: Vec<(&str, Vec<Item>, bool)> = vec![];
    let prop = |w: &mut World<C>, i: usize, f: &dyn Fn(&mut mls_rs::Group<C>) -> Result<MlsMessage, mls_rs::error::MlsError>| -> Option<MlsMessage> {
        // on a clone: the proposer's own cache is not needed, receivers get the message itself
        let mut g = w.group(i).clone();
        f(&mut g).ok()
    };
    if let Some(m) = prop(&mut w, 1, &|g| g.propose_remove(la, vec![])) {
        sets.push(("remove-of-the-committer", vec![(1, m, true)], true));
    }
    if let Some(m) = prop(&mut w, 0, &|g| g.propose_update(vec![])) {
        sets.push(("update-by-the-committer", vec![(0, m, true)], true));
    }
    if let Some(m) = prop(&mut w, 1, &|g| g.propose_update(vec![])) {
        sets.push(("update-by-value", vec![(1, m, false)], true));
    }
    if let (Some(m1), Some(m2)) = (prop(&mut w, 1, &|g| g.propose_remove(ld, vec![])), prop(&mut w, 2, &|g| g.propose_remove(ld, vec![]))) {
        sets.push(("two-removes-of-one-leaf", vec![(1, m1.clone(), true), (2, m2, true)], true));
        // the control: one valid Remove by reference passes the proposal rules
        sets.push(("control-valid-remove", vec![(1, m1, true)], false));
    }
    if let (Some(m1), Some(m2)) = (prop(&mut w, 1, &|g| g.propose_remove(ld, vec![])), prop(&mut w, 3, &|g| g.propose_update(vec![]))) {
        sets.push(("remove-and-update-of-one-leaf", vec![(1, m1, true), (3, m2, true)], true));
    }
    if let Ok(kp) = w.members[2].client.generate_key_package_message(Default::default(), Default::default(), None) {
        if let Some(m) = prop(&mut w, 1, &|g| g.propose_add(kp.clone(), vec![])) {
            sets.push(("add-of-a-current-member", vec![(1, m.clone(), true)], true));
            sets.push(("add-of-a-current-member-by-value", vec![(1, m, false)], true));
        }
    }
    if let Ok(kp) = w.members[4].client.verif_generate_key_package_unchecked(|c| c.proposals.push(mls_rs::group::proposal::ProposalType::ADD), None) {
        if let Some(m) = prop(&mut w, 1, &|g| g.propose_add(kp.clone(), vec![])) {
            sets.push(("add-with-default-value-listed", vec![(1, m.clone(), true)], true));
            sets.push(("add-with-default-value-listed-by-value", vec![(1, m, false)], true));
        }
    }
    if let (Some(m1), Some(m2)) = (
        prop(&mut w, 1, &|g| g.propose_group_context_extensions(ExtensionList::new(), vec![])),
        prop(&mut w, 2, &|g| g.propose_group_context_extensions(ExtensionList::new(), vec![])),
    ) {
        sets.push(("two-group-context-extensions", vec![(1, m1, true), (2, m2, true)], true));
    }
    if let (Some(m1), Some(m2)) = (
        prop(&mut w, 1, &|g| g.propose_reinit(None, mls_rs::ProtocolVersion::MLS_10, mls_rs::CipherSuite::from(1u16), Default::default(), vec![])),
        prop(&mut w, 2, &|g| g.propose_update(vec![])),
    ) {
        sets.push(("reinit-next-to-an-update", vec![(1, m1, true), (2, m2, true)], true));
    }
    let a = w.group(0).clone();
    let Ok(base) = a.clone().commit(vec![]) else { return };
    // reasons that come AFTER the proposal rules (path, key schedule, tag): the hook keeps A's path and tag of the empty commit
    const LATE: [&str; 12] = ["InvalidConfirmationTag", "CryptoProviderError", "ParentHashMismatch", "WrongPathLen", "PubKeyMismatch", "TreeHashMismatch", "UpdateErrorNoSecretKey", "LcaNotFoundInDirectPath", "SameHpkeKey", "ExpectedNode", "InvalidNodeIndex", "UnexpectedEmptyNode"];
    for (name, items, must_refuse) in sets {
        let by_reference: Vec<MlsMessage> = items.iter().filter(|x| x.2).map(|x| x.1.clone()).collect();
        let by_value: Vec<MlsMessage> = items.iter().filter(|x| !x.2).map(|x| x.1.clone()).collect();
        let Ok(forged) = a.verif_resign_commit(&base.commit_message, &InsiderEdit::WithProposals { by_reference: by_reference.clone(), by_value }) else {
            out.cover.insert(format!("recv-offender:{name}:not-built"));
            continue;
        };
        for r in [2usize, 3] {
            let mut g = w.group(r).clone();
            // the receiver has seen the referenced proposals (its own ones are in its cache only if it really sent them: here
            // they were built on clones, so it is told about them like everybody else)
            let mut cached = true;
            for (from, m, is_ref) in &items {
                if *is_ref && g.process_incoming_message(m.clone()).is_err() && *from != r {
                    cached = false;
                }
            }
            if !cached {
                out.cover.insert(format!("recv-offender:{name}:proposal-not-cached"));
                continue;
            }
            out.cases += 1;
            let before = g.current_epoch();
            let res = std::panic::catch_unwind(std::panic::AssertUnwindSafe(|| g.process_incoming_message(forged.clone())));
            let class = match &res {
                Err(_) => "PANIC".to_string(),
                Ok(Ok(_)) => "ok".to_string(),
                Ok(Err(e)) => err_class(e),
            };
            out.cover.insert(format!("recv-offender:{name}:{class}"));
            if class == "PANIC" {
                out.fails.push(format!("received offender {name}: member {r} panics"));
            } else if must_refuse && class == "ok" {
                out.fails.push(format!("received offender {name}: member {r} accepted a commit that carries it"));
            } else if must_refuse && LATE.contains(&class.as_str()) {
                out.fails.push(format!("received offender {name}: member {r} let the proposal set through the proposal rules and stopped only later ({class})"));
            }
            if class != "ok" && g.current_epoch() != before {
                out.fails.push(format!("received offender {name}: member {r} rejected the commit but changed epoch"));
            }
        }
    }
    let _ = std::fs::remove_dir_all(&crate::util::scratch("c10x"));
}

pub fn run(o: &Opts) -> i32 {
    crate::util::quiet_panics();
    let dir = o.str("out", "/verif/work/c10");
    std::fs::create_dir_all(&dir).ok();
    let mut rng = Rng::new(o.seed());
    let mut out = Out { fails: vec![], cases: 0, cover: Default::default() };
    let mk = |s: &Setup, hd: &Handles, id, sk| mk_client(s, hd, id, sk);
    let mut qa = QA::create(&dir, "c10x");
    let n = o.u64("scenarios", if o.thorough() { 200 } else { 20 });
    for _ in 0..n {
        let mut r = rng.fork();
        scenario(&mut r, &mk, &mut out);
        gce_scenario(&mut r, &mut out);
        gce_scenario(&mut r, &mut out);
        lifetime_scenario(&mut r, &mut out, &mut qa);
        stale_resumption_psk_scenario(&mut r, &mk, &mut out);
        received_offenders_scenario(&mut r, &mk, &mut out);
        credential_type_scenario(&mut r, &mut out);
        credential_type_scenario(&mut r, &mut out);
    }
    let rows = qa.finish();
    println!("rows {rows}");
    println!("cases {}", out.cases);
    println!("cover {}", out.cover.iter().cloned().collect::<Vec<_>>().join(";"));
    // failures about the external sender as an OBSERVER (it follows the commits over its own proposals) belong to C16; with
    // `--focus C16` only those are reported, otherwise everything is
    let focus = o.str("focus", "");
    let rel: Vec<String> = out
        .fails
        .iter()
        .filter(|f| focus != "C16" || f.starts_with("[C16] "))
        .map(|f| if let Some(r) = f.strip_prefix("[C16] ") { format!("C16: {r}") } else { format!("C10: {f}") })
        .collect();
    println!("oracle_failures {}", rel.len());
    std::fs::write(format!("{dir}/c10x.failures"), rel.join("\n")).unwrap();
    0
}
