//! One `CryptoProvider` type over the three shipped providers, so that members of one group (one `MlsConfig` type) can
//! use different providers (C14).  Pure delegation; errors become strings.
use mls_rs::crypto::{HpkeCiphertext, HpkePublicKey, HpkeSecretKey, SignaturePublicKey, SignatureSecretKey};
use mls_rs::error::IntoAnyError;
use mls_rs::{CipherSuite, CipherSuiteProvider, CryptoProvider};
use mls_rs_core::crypto::{HpkeContextR, HpkeContextS, HpkePsk};
use mls_rs_crypto_awslc::AwsLcCryptoProvider;
use mls_rs_crypto_openssl::OpensslCryptoProvider;
use mls_rs_crypto_rustcrypto::RustCryptoProvider;
use zeroize::Zeroizing;

#[derive(Debug)]
pub struct AnyErr(pub String);
impl std::fmt::Display for AnyErr {
    fn fmt(&self, f: &mut std::fmt::Formatter<'_>) -> std::fmt::Result {
        write!(f, "{}", self.0)
    }
}
impl std::error::Error for AnyErr {}
impl IntoAnyError for AnyErr {
    fn into_dyn_error(self) -> Result<Box<dyn std::error::Error + Send + Sync>, Self> {
        Ok(Box::new(self))
    }
}
fn e<E: std::fmt::Debug>(x: E) -> AnyErr {
    AnyErr(format!("{x:?}"))
}

type RCs = <RustCryptoProvider as CryptoProvider>::CipherSuiteProvider;
type OCs = <OpensslCryptoProvider as CryptoProvider>::CipherSuiteProvider;
type ACs = <AwsLcCryptoProvider as CryptoProvider>::CipherSuiteProvider;

#[derive(Clone)]
pub enum AnyProvider {
    Rust(RustCryptoProvider),
    Ossl(OpensslCryptoProvider),
    Aws(AwsLcCryptoProvider),
}

pub const PROVIDER_NAMES: [&str; 3] = ["rustcrypto", "openssl", "awslc"];

impl AnyProvider {
    pub fn by_index(i: u8) -> Self {
        match i % 3 {
            0 => AnyProvider::Rust(RustCryptoProvider::default()),
            1 => AnyProvider::Ossl(OpensslCryptoProvider::default()),
            _ => AnyProvider::Aws(AwsLcCryptoProvider::default()),
        }
    }
    pub fn name(&self) -> &'static str {
        match self {
            AnyProvider::Rust(_) => "rustcrypto",
            AnyProvider::Ossl(_) => "openssl",
            AnyProvider::Aws(_) => "awslc",
        }
    }
}

impl Default for AnyProvider {
    fn default() -> Self {
        AnyProvider::by_index(0)
    }
}

#[derive(Clone)]
pub enum AnyCs {
    Rust(RCs),
    Ossl(OCs),
    Aws(ACs),
}

pub enum AnyCtxS {
    Rust(<RCs as CipherSuiteProvider>::HpkeContextS),
    Ossl(<OCs as CipherSuiteProvider>::HpkeContextS),
    Aws(<ACs as CipherSuiteProvider>::HpkeContextS),
}
pub enum AnyCtxR {
    Rust(<RCs as CipherSuiteProvider>::HpkeContextR),
    Ossl(<OCs as CipherSuiteProvider>::HpkeContextR),
    Aws(<ACs as CipherSuiteProvider>::HpkeContextR),
}

macro_rules! each {
    ($s:expr, $x:ident => $body:expr) => {
        match $s {
            AnyCs::Rust($x) => $body,
            AnyCs::Ossl($x) => $body,
            AnyCs::Aws($x) => $body,
        }
    };
}

impl HpkeContextS for AnyCtxS {
    type Error = AnyErr;
    fn seal(&mut self, aad: Option<&[u8]>, data: &[u8]) -> Result<Vec<u8>, AnyErr> {
        match self {
            AnyCtxS::Rust(c) => c.seal(aad, data).map_err(e),
            AnyCtxS::Ossl(c) => c.seal(aad, data).map_err(e),
            AnyCtxS::Aws(c) => c.seal(aad, data).map_err(e),
        }
    }
    fn export(&self, ctx: &[u8], len: usize) -> Result<Zeroizing<Vec<u8>>, AnyErr> {
        match self {
            AnyCtxS::Rust(c) => c.export(ctx, len).map_err(e),
            AnyCtxS::Ossl(c) => c.export(ctx, len).map_err(e),
            AnyCtxS::Aws(c) => c.export(ctx, len).map_err(e),
        }
    }
}
impl HpkeContextR for AnyCtxR {
    type Error = AnyErr;
    fn open(&mut self, aad: Option<&[u8]>, ct: &[u8]) -> Result<Zeroizing<Vec<u8>>, AnyErr> {
        match self {
            AnyCtxR::Rust(c) => c.open(aad, ct).map_err(e),
            AnyCtxR::Ossl(c) => c.open(aad, ct).map_err(e),
            AnyCtxR::Aws(c) => c.open(aad, ct).map_err(e),
        }
    }
    fn export(&self, ctx: &[u8], len: usize) -> Result<Zeroizing<Vec<u8>>, AnyErr> {
        match self {
            AnyCtxR::Rust(c) => c.export(ctx, len).map_err(e),
            AnyCtxR::Ossl(c) => c.export(ctx, len).map_err(e),
            AnyCtxR::Aws(c) => c.export(ctx, len).map_err(e),
        }
    }
}

impl CryptoProvider for AnyProvider {
    type CipherSuiteProvider = AnyCs;
    fn supported_cipher_suites(&self) -> Vec<CipherSuite> {
        match self {
            AnyProvider::Rust(p) => p.supported_cipher_suites(),
            AnyProvider::Ossl(p) => p.supported_cipher_suites(),
            AnyProvider::Aws(p) => p.supported_cipher_suites(),
        }
    }
    fn cipher_suite_provider(&self, cs: CipherSuite) -> Option<AnyCs> {
        match self {
            AnyProvider::Rust(p) => p.cipher_suite_provider(cs).map(AnyCs::Rust),
            AnyProvider::Ossl(p) => p.cipher_suite_provider(cs).map(AnyCs::Ossl),
            AnyProvider::Aws(p) => p.cipher_suite_provider(cs).map(AnyCs::Aws),
        }
    }
}

impl CipherSuiteProvider for AnyCs {
    type Error = AnyErr;
    type HpkeContextS = AnyCtxS;
    type HpkeContextR = AnyCtxR;

    fn cipher_suite(&self) -> CipherSuite {
        each!(self, c => c.cipher_suite())
    }
    fn hash(&self, data: &[u8]) -> Result<Vec<u8>, AnyErr> {
        each!(self, c => c.hash(data).map_err(e))
    }
    fn mac(&self, key: &[u8], data: &[u8]) -> Result<Vec<u8>, AnyErr> {
        each!(self, c => c.mac(key, data).map_err(e))
    }
    fn aead_seal(&self, key: &[u8], data: &[u8], aad: Option<&[u8]>, nonce: &[u8]) -> Result<Vec<u8>, AnyErr> {
        each!(self, c => c.aead_seal(key, data, aad, nonce).map_err(e))
    }
    fn aead_open(&self, key: &[u8], ct: &[u8], aad: Option<&[u8]>, nonce: &[u8]) -> Result<Zeroizing<Vec<u8>>, AnyErr> {
        each!(self, c => c.aead_open(key, ct, aad, nonce).map_err(e))
    }
    fn aead_key_size(&self) -> usize {
        each!(self, c => c.aead_key_size())
    }
    fn aead_nonce_size(&self) -> usize {
        each!(self, c => c.aead_nonce_size())
    }
    fn kdf_extract(&self, salt: &[u8], ikm: &[u8]) -> Result<Zeroizing<Vec<u8>>, AnyErr> {
        each!(self, c => c.kdf_extract(salt, ikm).map_err(e))
    }
    fn kdf_expand(&self, prk: &[u8], info: &[u8], len: usize) -> Result<Zeroizing<Vec<u8>>, AnyErr> {
        each!(self, c => c.kdf_expand(prk, info, len).map_err(e))
    }
    fn kdf_extract_size(&self) -> usize {
        each!(self, c => c.kdf_extract_size())
    }
    fn hpke_seal(&self, pk: &HpkePublicKey, info: &[u8], aad: Option<&[u8]>, pt: &[u8]) -> Result<HpkeCiphertext, AnyErr> {
        each!(self, c => c.hpke_seal(pk, info, aad, pt).map_err(e))
    }
    fn hpke_seal_psk(&self, pk: &HpkePublicKey, info: &[u8], aad: Option<&[u8]>, pt: &[u8], psk: HpkePsk<'_>) -> Result<HpkeCiphertext, AnyErr> {
        each!(self, c => c.hpke_seal_psk(pk, info, aad, pt, psk).map_err(e))
    }
    fn hpke_open(&self, ct: &HpkeCiphertext, sk: &HpkeSecretKey, pk: &HpkePublicKey, info: &[u8], aad: Option<&[u8]>) -> Result<Zeroizing<Vec<u8>>, AnyErr> {
        each!(self, c => c.hpke_open(ct, sk, pk, info, aad).map_err(e))
    }
    fn hpke_open_psk(&self, ct: &HpkeCiphertext, sk: &HpkeSecretKey, pk: &HpkePublicKey, info: &[u8], aad: Option<&[u8]>, psk: HpkePsk<'_>) -> Result<Zeroizing<Vec<u8>>, AnyErr> {
        each!(self, c => c.hpke_open_psk(ct, sk, pk, info, aad, psk).map_err(e))
    }
    fn hpke_setup_s(&self, pk: &HpkePublicKey, info: &[u8]) -> Result<(Vec<u8>, AnyCtxS), AnyErr> {
        match self {
            AnyCs::Rust(c) => c.hpke_setup_s(pk, info).map(|(k, x)| (k, AnyCtxS::Rust(x))).map_err(e),
            AnyCs::Ossl(c) => c.hpke_setup_s(pk, info).map(|(k, x)| (k, AnyCtxS::Ossl(x))).map_err(e),
            AnyCs::Aws(c) => c.hpke_setup_s(pk, info).map(|(k, x)| (k, AnyCtxS::Aws(x))).map_err(e),
        }
    }
    fn hpke_setup_r(&self, enc: &[u8], sk: &HpkeSecretKey, pk: &HpkePublicKey, info: &[u8]) -> Result<AnyCtxR, AnyErr> {
        match self {
            AnyCs::Rust(c) => c.hpke_setup_r(enc, sk, pk, info).map(AnyCtxR::Rust).map_err(e),
            AnyCs::Ossl(c) => c.hpke_setup_r(enc, sk, pk, info).map(AnyCtxR::Ossl).map_err(e),
            AnyCs::Aws(c) => c.hpke_setup_r(enc, sk, pk, info).map(AnyCtxR::Aws).map_err(e),
        }
    }
    fn kem_derive(&self, ikm: &[u8]) -> Result<(HpkeSecretKey, HpkePublicKey), AnyErr> {
        each!(self, c => c.kem_derive(ikm).map_err(e))
    }
    fn kem_generate(&self) -> Result<(HpkeSecretKey, HpkePublicKey), AnyErr> {
        each!(self, c => c.kem_generate().map_err(e))
    }
    fn kem_public_key_validate(&self, key: &HpkePublicKey) -> Result<(), AnyErr> {
        each!(self, c => c.kem_public_key_validate(key).map_err(e))
    }
    fn random_bytes(&self, out: &mut [u8]) -> Result<(), AnyErr> {
        each!(self, c => c.random_bytes(out).map_err(e))
    }
    fn signature_key_generate(&self) -> Result<(SignatureSecretKey, SignaturePublicKey), AnyErr> {
        each!(self, c => c.signature_key_generate().map_err(e))
    }
    fn signature_key_derive_public(&self, sk: &SignatureSecretKey) -> Result<SignaturePublicKey, AnyErr> {
        each!(self, c => c.signature_key_derive_public(sk).map_err(e))
    }
    fn sign(&self, sk: &SignatureSecretKey, data: &[u8]) -> Result<Vec<u8>, AnyErr> {
        each!(self, c => c.sign(sk, data).map_err(e))
    }
    fn verify(&self, pk: &SignaturePublicKey, sig: &[u8], data: &[u8]) -> Result<(), AnyErr> {
        each!(self, c => c.verify(pk, sig, data).map_err(e))
    }
}

/// a provider that ships `suite`: RustCrypto when it does, OpenSSL otherwise
pub fn provider_for(suite: u16) -> AnyProvider {
    let r = AnyProvider::by_index(0);
    if r.cipher_suite_provider(CipherSuite::from(suite)).is_some() {
        r
    } else {
        AnyProvider::by_index(1)
    }
}

pub fn cs_for(suite: u16) -> AnyCs {
    provider_for(suite).cipher_suite_provider(CipherSuite::from(suite)).expect("suite shipped by OpenSSL")
}
