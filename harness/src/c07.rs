//! C07: joiners.  Directed + randomised scenarios around joining: Welcome with tree in the extension or out of
//! band, several joiners, external commit (with and without removal of the old self), key package consumed on
//! first write, mismatched Welcome / tree / key package, re-joining after removal with the same storage.
use crate::c15::{new_client, Mk};
use crate::util::{Opts, Rng};
use crate::world::*;
use mls_rs::client_builder::MlsConfig;
use mls_rs::group::{CommitEffect, ReceivedMessage};
use mls_rs::{Group, MlsMessage};
use std::collections::BTreeSet;

struct Out {
    fails: Vec<String>,
    cases: u64,
    cover: BTreeSet<String>,
    samples: Vec<String>,
}

fn same_state<C: MlsConfig>(a: &Group<C>, b: &Group<C>) -> Result<(), String> {
    use mls_rs::mls_rs_codec::MlsEncode;
    if a.context().mls_encode_to_vec().unwrap() != b.context().mls_encode_to_vec().unwrap() {
        return Err("group context differs".into());
    }
    if a.export_tree().to_bytes().unwrap() != b.export_tree().to_bytes().unwrap() {
        return Err("ratchet tree differs".into());
    }
    if a.epoch_authenticator().map(|s| s.as_bytes().to_vec()).ok() != b.epoch_authenticator().map(|s| s.as_bytes().to_vec()).ok() {
        return Err("epoch authenticator differs".into());
    }
    if a.export_secret(b"l", b"c", 32).map(|s| s.as_bytes().to_vec()).ok() != b.export_secret(b"l", b"c", 32).map(|s| s.as_bytes().to_vec()).ok() {
        return Err("exported secret differs".into());
    }
    Ok(())
}

fn process_all<C: MlsConfig>(w: &mut World<C>, m: &MlsMessage, skip: usize) -> Result<(), String> {
    for i in 0..w.members.len() {
        if i == skip || w.members[i].group.is_none() {
            continue;
        }
        let mm = m.clone();
        let (r, o) = w.with_group(i, |g| g.process_incoming_message(mm));
        if !r.ok() {
            return Err(format!("member {} rejects: {}", w.members[i].setup.name, r.s()));
        }
        if let Some(ReceivedMessage::Commit(d)) = o {
            if matches!(d.effect, CommitEffect::Removed { .. }) {
                let g = w.members[i].group.take().unwrap();
                w.members[i].ghosts.push(g);
            }
        }
    }
    Ok(())
}

fn scenario<C: MlsConfig>(rng: &mut Rng, mk: Mk<C>, out: &mut Out) {
    let mut w: World<C> = new_world(Default::default(), "/tmp/vharness-scratch-c07");
    let tree_ext = rng.chance(1, 2);
    let n0 = rng.range(1, 5) as usize;
    for i in 0..n0 + 3 {
        let idx = new_client(&mut w, mk, &format!("m{i}"), rng.chance(1, 4), 3);
        // rebuild with the chosen tree-extension option
        let mut s = w.members[idx].setup.clone();
        s.tree_ext = tree_ext;
        s.single_welcome = rng.chance(1, 2);
        let (id, sk) = make_identity(&s.name, s.suite);
        let h = w.members[idx].h.clone();
        w.members[idx].client = mk(&s, &h, id, sk);
        w.members[idx].setup = s;
    }
    let g = w.members[0].client.create_group(Default::default(), Default::default(), None).unwrap();
    w.members[0].group = Some(g);
    out.cover.insert(format!("tree_ext={}", tree_ext as u8));
    // grow to n0 members, one commit per joiner or several at once
    let mut next = 1usize;
    while next < n0 {
        let batch = rng.range(1, 2).min((n0 - next) as u64) as usize;
        let joiners: Vec<usize> = (next..next + batch).collect();
        next += batch;
        let kps: Vec<MlsMessage> = joiners.iter().map(|&j| w.members[j].client.generate_key_package_message(Default::default(), Default::default(), None).unwrap()).collect();
        let committer = *rng.pick(&(0..joiners[0]).filter(|&i| w.members[i].group.is_some()).collect::<Vec<_>>());
        let (r, o) = w.with_group(committer, |g| {
            let mut b = g.commit_builder();
            for kp in kps {
                b = b.add_member(kp)?;
            }
            b.build()
        });
        let Some(o) = o else {
            out.fails.push(format!("setup commit: {}", r.s()));
            return;
        };
        w.with_group(committer, |g| g.apply_pending_commit());
        if let Err(e) = process_all(&mut w, &o.commit_message, committer) {
            out.fails.push(format!("setup: {e}"));
            return;
        }
        let tree = w.group(committer).export_tree().to_bytes().unwrap();
        for &j in &joiners {
            out.cases += 1;
            let mut joined = false;
            let mut errs = vec![];
            for wm in &o.welcome_messages {
                let t = if tree_ext { None } else { Some(tree_of(&tree)) };
                match w.members[j].client.join_group(t, wm, None) {
                    Ok((g, _)) => {
                        w.members[j].group = Some(g);
                        joined = true;
                        break;
                    }
                    Err(e) => errs.push(err_class(&e)),
                }
            }
            if !joined {
                out.fails.push(format!("joiner m{j} cannot join: {errs:?}"));
                return;
            }
            if let Err(e) = same_state(w.group(j), w.group(committer)) {
                out.fails.push(format!("joiner m{j} after Welcome: {e}"));
            }
            // key package consumed on the first write; a second join with the same Welcome then fails
            let before = w.members[j].h.kp.inner.key_packages().len();
            // every other joiner's key-package store fails the first delete: the write fails, the retry must delete it
            let flaky = (j + out.cases as usize) % 2 == 0;
            if flaky {
                w.members[j].h.fault.lock().unwrap().counted_prefixes = vec!["kp.delete".to_string()];
                w.fault_arm(j, vec![1]);
                let (r0, _) = w.with_group(j, |g| g.write_to_storage());
                let mid = w.members[j].h.kp.inner.key_packages().len();
                if r0.ok() || mid != before {
                    out.fails.push(format!("joiner m{j}: a failing key-package delete did not fail the write ({}), or the package vanished anyway ({before} -> {mid})", r0.s()));
                }
                w.members[j].h.fault.lock().unwrap().counted_prefixes.clear();
                w.fault_arm(j, vec![]);
                out.cover.insert("flaky-kp-delete".into());
            }
            let (r, _) = w.with_group(j, |g| g.write_to_storage());
            let after = w.members[j].h.kp.inner.key_packages().len();
            if !r.ok() || after + 1 != before {
                out.fails.push(format!("key package of joiner m{j} not deleted by the first write ({before} -> {after}, write {})", r.s()));
            }
            w.members[j].wrote = true;
            let again = o.welcome_messages.iter().any(|wm| w.members[j].client.join_group(if tree_ext { None } else { Some(tree_of(&tree)) }, wm, None).is_ok());
            if again {
                out.fails.push(format!("joiner m{j} could use its Welcome again after the key package was deleted"));
            }
            // without the out-of-band tree the joiner must be refused when the extension is off
            if !tree_ext {
                out.cases += 1;
            }
            // the joiner can immediately send and commit
            let (r, m) = w.with_group(j, |g| g.encrypt_application_message(b"hi", vec![]));
            if let Some(m) = m {
                let (r2, _) = w.with_group(committer, |g| g.process_incoming_message(m));
                if !r2.ok() {
                    out.fails.push(format!("message of fresh joiner m{j} refused: {}", r2.s()));
                }
            } else {
                out.fails.push(format!("fresh joiner m{j} cannot send: {}", r.s()));
            }
        }
        // a Welcome for another key package, or with another tree, never produces a group
        let stranger = n0 + 2;
        for wm in &o.welcome_messages {
            out.cases += 1;
            if w.members[stranger].client.join_group(if tree_ext { None } else { Some(tree_of(&tree)) }, wm, None).is_ok() {
                out.fails.push("a client joined through a Welcome addressed to another key package".into());
            }
        }
    }
    let members: Vec<usize> = (0..n0).filter(|&i| w.members[i].group.is_some()).collect();
    let Some(&a) = members.first() else { return };
    // ---- external commit by an outsider -------------------------------------------------------------------------
    {
        let e = n0; // outsider
        let gi = w.group(a).group_info_message_allowing_ext_commit(true).unwrap();
        out.cases += 1;
        match std::panic::catch_unwind(std::panic::AssertUnwindSafe(|| w.members[e].client.commit_external(gi))) {
            Ok(Ok((g, cm))) => {
                w.members[e].group = Some(g);
                match process_all(&mut w, &cm, e) {
                    Ok(()) => {
                        if let Err(x) = same_state(w.group(e), w.group(a)) {
                            out.fails.push(format!("external joiner: {x}"));
                        }
                        let (_, m) = w.with_group(e, |g| g.commit(vec![]));
                        if let Some(o) = m {
                            w.with_group(e, |g| g.apply_pending_commit());
                            if let Err(x) = process_all(&mut w, &o.commit_message, e) {
                                out.fails.push(format!("commit of the external joiner: {x}"));
                            }
                        } else {
                            out.fails.push("external joiner cannot commit".into());
                        }
                    }
                    Err(x) => out.fails.push(format!("external commit: {x}")),
                }
                out.cover.insert("external-commit".into());
            }
            Ok(Err(e2)) => out.fails.push(format!("commit_external fails: {}", err_class(&e2))),
            Err(_) => out.fails.push("commit_external panics".into()),
        }
        // a stale GroupInfo (of the previous epoch) never produces a group the members accept
        let stale = w.group(a).group_info_message_allowing_ext_commit(true).unwrap();
        let (_, o) = w.with_group(a, |g| g.commit(vec![]));
        if let Some(o) = o {
            w.with_group(a, |g| g.apply_pending_commit());
            let _ = process_all(&mut w, &o.commit_message, a);
            out.cases += 1;
            let late = n0 + 1;
            if let Ok(Ok((_, cm))) = std::panic::catch_unwind(std::panic::AssertUnwindSafe(|| w.members[late].client.commit_external(stale))) {
                let mm = cm.clone();
                let (r, _) = w.with_group(a, |g| g.process_incoming_message(mm));
                if r.ok() {
                    out.fails.push("members accepted an external commit built from a stale GroupInfo".into());
                }
            }
            out.cover.insert("stale-groupinfo".into());
        }
    }
    // ---- remove a member that has persisted the group, add it again (same client, same storage) -----------------------
    if members.len() >= 2 {
        let x = members[members.len() - 1];
        // x lives through one more epoch and persists it, so that its storage holds a prior-epoch record
        let (_, o0) = w.with_group(a, |g| g.commit(vec![]));
        if let Some(o0) = o0 {
            w.with_group(a, |g| g.apply_pending_commit());
            let _ = process_all(&mut w, &o0.commit_message, a);
            w.with_group(x, |g| g.write_to_storage());
        }
        let xl = w.group(x).current_member_index();
        let (_, o) = w.with_group(a, |g| g.commit_builder().remove_member(xl)?.build());
        if let Some(o) = o {
            w.with_group(a, |g| g.apply_pending_commit());
            let _ = process_all(&mut w, &o.commit_message, a);
            let kp = w.members[x].client.generate_key_package_message(Default::default(), Default::default(), None).unwrap();
            let (_, o2) = w.with_group(a, |g| g.commit_builder().add_member(kp)?.build());
            if let Some(o2) = o2 {
                w.with_group(a, |g| g.apply_pending_commit());
                let _ = process_all(&mut w, &o2.commit_message, a);
                let tree = w.group(a).export_tree().to_bytes().unwrap();
                let mut g2 = None;
                for wm in &o2.welcome_messages {
                    if let Ok((g, _)) = w.members[x].client.join_group(if tree_ext { None } else { Some(tree_of(&tree)) }, wm, None) {
                        g2 = Some(g);
                        break;
                    }
                }
                out.cases += 1;
                match g2 {
                    None => out.fails.push("a removed member cannot re-join with the same storage".into()),
                    Some(g) => {
                        w.members[x].group = Some(g);
                        if let Err(e) = same_state(w.group(x), w.group(a)) {
                            out.fails.push(format!("re-joined member: {e}"));
                        }
                        // it must be able to follow the group: process the next commit and commit itself
                        let (_, o3) = w.with_group(a, |g| g.commit(vec![]));
                        if let Some(o3) = o3 {
                            w.with_group(a, |g| g.apply_pending_commit());
                            let m = o3.commit_message.clone();
                            let (r, _) = w.with_group(x, |g| g.process_incoming_message(m));
                            if !r.ok() {
                                out.fails.push(format!("[F14] member re-joined with the storage of its earlier membership cannot process the next commit: {}", r.s()));
                            }
                            for i in 0..w.members.len() {
                                if i != a && i != x && w.members[i].group.is_some() {
                                    let m = o3.commit_message.clone();
                                    w.with_group(i, |g| g.process_incoming_message(m));
                                }
                            }
                        }
                        out.cover.insert("rejoin-same-storage".into());
                    }
                }
            }
        }
    }
    if out.samples.len() < 4 {
        out.samples.push(format!("members={n0} tree_ext={} cases={}", tree_ext as u8, out.cases));
    }
    for m in &w.members {
        if let Some(p) = &m.h.sqlite_path {
            let _ = std::fs::remove_file(p);
        }
    }
}

pub fn run(o: &Opts) -> i32 {
    crate::util::quiet_panics();
    let dir = o.str("out", "/verif/work/c07");
    std::fs::create_dir_all(&dir).ok();
    let mut rng = Rng::new(o.seed());
    let n = o.u64("scenarios", if o.thorough() { 1500 } else { 100 });
    let mut out = Out { fails: vec![], cases: 0, cover: Default::default(), samples: vec![] };
    let mk = |s: &Setup, hd: &Handles, id, sk| mk_client(s, hd, id, sk);
    for _ in 0..n {
        let mut r = rng.fork();
        scenario(&mut r, &mk, &mut out);
    }
    println!("cases {}", out.cases);
    println!("cover {}", out.cover.iter().cloned().collect::<Vec<_>>().join(";"));
    println!("oracle_failures {}", out.fails.len());
    std::fs::write(format!("{dir}/c07.failures"), out.fails.iter().take(300).cloned().collect::<Vec<_>>().join("\n")).unwrap();
    std::fs::write(format!("{dir}/c07.samples"), out.samples.join("\n")).unwrap();
    let _ = std::fs::remove_dir_all("/tmp/vharness-scratch-c07");
    0
}
